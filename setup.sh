#!/bin/sh
# Offline setup: nothing to build for the Verus units; warm the Kani dependency cache if harnesses exist.
set -e
cd "$(dirname "$0")"
mkdir -p evidence replays .cache
python3 tools/kani_run.py --warm || true
exit 0
