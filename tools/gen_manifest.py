#!/usr/bin/env python3
"""Regenerate MANIFEST.json from props.json + not_applicable.json (keeps it valid at all times)."""
import json, os, subprocess
ROOT = os.path.dirname(os.path.dirname(os.path.abspath(__file__)))
reg = {}
for f in sorted(os.listdir(os.path.join(ROOT, 'props'))):
    if f.endswith('.json'):
        reg[f[:-5]] = json.load(open(os.path.join(ROOT, 'props', f)))
na = json.load(open(os.path.join(ROOT, 'not_applicable.json')))
hooks = json.load(open(os.path.join(ROOT, 'hooks.json')))
# only properties whose check the coordinator has seen pass on the unchanged tree are claimed
allow = set(json.load(open(os.path.join(ROOT, 'claimed.json'))))
reg = {k: v for k, v in reg.items() if k in allow}
checks = []
for pid in sorted(reg):
    e = reg[pid]
    checks.append({
        'property_id': pid,
        'quick_cmd': './check %s --tier quick' % pid,
        'thorough_cmd': './check %s --tier thorough' % pid,
        'evidence_file': 'evidence/%s.json' % pid,
        'replay_cmd_template': './check %s --replay {path}' % pid,
        'engine': 'contracts',
        'level_claimed': {'category': e.get('category', 'proof'), 'text': e['level_text'], 'design_ref': e.get('design_ref', 'DESIGN.md')},
        'level_note': e['level_note'],
        'technique': e['technique'],
    })
claimed = set(reg)
m = {
    'version': 1,
    'setup_cmd': './setup.sh',
    'hooks': hooks,
    'engines': [{
        'name': 'contracts', 'path': 'check',
        'serves_properties': sorted(claimed),
        'kind_free_text': 'contract-based deductive verification: Verus on functions extracted mechanically from /repo on every run (tools/extract.py, units/*), Kani function contracts / full-domain harnesses compiled in place behind cfg(kani)',
    }],
    'checks': checks,
    'notes': 'exit 2 from a check means undecided (extraction/compile/solver limit/vacuity guard), never a violation. known_findings.txt lists recorded findings and fix: commits.',
    'not_applicable': [x for x in na if x['property_id'] not in claimed],
}
json.dump(m, open(os.path.join(ROOT, 'MANIFEST.json'), 'w'), indent=1)
print('MANIFEST.json: %d checks, %d not applicable' % (len(checks), len(m['not_applicable'])))
