"""Run one Verus unit: extract from /repo, verify, classify the outcome.

Outcome classes (DESIGN.md 1.4):
  ok         every obligation discharged, vacuity canaries fail as they must
  fail       at least one named obligation is not satisfied  -> violation candidates
  undecided  extraction problem, compile error, rlimit, tool crash, vacuity  -> exit 2
"""
import json
import os
import re
import shutil
import subprocess
import sys
import tempfile
import time

sys.path.insert(0, os.path.dirname(os.path.abspath(__file__)))
import extract

VERUS = shutil.which('verus') or '/usr/local/bin/verus'

# messages that mean "a proof obligation was not discharged"
FAIL_PATTERNS = [
    r'^postcondition not satisfied',
    r'^precondition not satisfied',
    r'^invariant not satisfied',
    r'^assertion failed',
    r'^decreases not satisfied',
    r'^could not prove termination',
    r'^possible arithmetic underflow/overflow',
    r'^possible division by zero',
    r'^possible bit shift underflow/overflow',
    r'^unable to prove',
    r'^cannot show',
    r'^loop invariant not',
    r'^constructed value may fail to meet its declared type invariant',
    r'^index out of bounds',
    r'^unreachable',
    r'^assert_by',
    r'^requires not satisfied',
    r'^possible',
    r'^type invariant',
]
FAIL_RE = re.compile('|'.join(FAIL_PATTERNS))
RLIMIT_RE = re.compile(r'(resource limit|rlimit|timed? ?out|smt solver)', re.I)

TRUST_RE = re.compile(r'(external_body|assume_specification|\badmit\s*\(|\bassume\s*\(|#\[verifier::external[a-z_]*\]|'
                      r'#\[verifier::exec_allows_no_decreases_clause\]|#\[verifier::accept_recursive_types|'
                      r'#\[verifier::reject_recursive_types|uninterp\s+spec\s+fn|\baxiom\b|broadcast\s+axiom)')


def _run(cmd, cwd, timeout):
    t0 = time.time()
    try:
        p = subprocess.run(cmd, cwd=cwd, stdout=subprocess.PIPE, stderr=subprocess.PIPE,
                           timeout=timeout, text=True)
        return p.returncode, p.stdout, p.stderr, time.time() - t0
    except subprocess.TimeoutExpired as ex:
        return -9, ex.stdout or '', (ex.stderr or '') + '\nTIMEOUT', time.time() - t0


def parse_air(logdir, crate):
    """Count proof obligations (AIR asserts inside Function-Def queries)."""
    per_fn = {}
    for fn in sorted(os.listdir(logdir)) if os.path.isdir(logdir) else []:
        if not fn.endswith('.air'):
            continue
        cur = None
        counting = False
        lines = open(os.path.join(logdir, fn), errors='replace').read().split('\n')
        i = 0
        while i < len(lines):
            ln = lines[i]
            m = re.match(r'^;; (Function-[A-Za-z-]+) (\S+)', ln)
            if m:
                counting = m.group(1) == 'Function-Def'
                cur = m.group(2)
            elif ln.startswith(';; ') and not re.match(r'^;; \S+:\d+:\d+', ln):
                counting = False
            elif counting and re.match(r'^\s*\(assert\s*$', ln):
                lab = lines[i + 1].strip() if i + 1 < len(lines) else ''
                mm = re.match(r'^\("([^"]*)"', lab)
                label = mm.group(1) if mm else 'assert'
                per_fn.setdefault(cur, []).append(label)
            i += 1
    return per_fn


def classify(diags, build):
    """Split rustc-style JSON diagnostics into failures / undecided reasons."""
    failures = []
    undecided = []
    text_lines = build['text'].split('\n')
    linemap = build['linemap']
    items = build['items']

    def origin_of(line):
        if 1 <= line <= len(linemap):
            return linemap[line - 1]
        return ('gen', 'out of range')

    def fn_of_repo(file, line):
        for it in items:
            if 'fn' in it and it['file'] == file and it['line'] <= line <= it['endline']:
                return it
        return None

    def props_near(line_start, line_end):
        """Cxx tags on the clause's own lines or in the comment lines directly above."""
        tags = set()
        for l in range(line_start, line_end + 1):
            if 1 <= l <= len(text_lines):
                tags |= set(re.findall(r'\bC\d\d\b', text_lines[l - 1]))
        l = line_start - 1
        while 1 <= l <= len(text_lines) and text_lines[l - 1].strip().startswith('//'):
            tags |= set(re.findall(r'\bC\d\d\b', text_lines[l - 1]))
            l -= 1
        return tags

    for d in diags:
        if d.get('level') != 'error':
            continue
        msg = d.get('message', '')
        if msg.startswith('aborting due to'):
            continue
        spans = d.get('spans', [])
        prim = [s for s in spans if s.get('is_primary')]
        if FAIL_RE.search(msg) and not d.get('code'):
            p = prim[0] if prim else (spans[0] if spans else None)
            if p is None:
                undecided.append('verification failure without span: ' + msg)
                continue
            # which span names the contract clause?
            clause = None
            for s in spans:
                lab = (s.get('label') or '')
                if 'failed this postcondition' in lab or 'failed precondition' in lab or 'failed this invariant' in lab:
                    clause = s
            if clause is None:
                clause = p
            site = None
            for s in spans:
                lab = (s.get('label') or '')
                if s is not clause and (s.get('is_primary') or 'at this exit' in lab or 'at the end of the function body' in lab):
                    site = s
            c_or = origin_of(clause['line_start'])
            p_or = origin_of(p['line_start'])
            clause_text = ' '.join(''.join(
                t['text'][t['highlight_start'] - 1:t['highlight_end'] - 1] if len(clause['text']) == 1 else t['text'].strip()
                for t in clause['text']).split())
            # enclosing function
            encl = None
            for s in [site, p, clause]:
                if s is None:
                    continue
                o = origin_of(s['line_start'])
                if o[0] == 'repo':
                    it = fn_of_repo(o[1], o[2])
                    if it:
                        encl = it
                        break
                if o[0] == 'overlay' and o[3]:
                    encl = next((it for it in items if it.get('fn') == o[3]), None)
                    if encl:
                        break
                if o[0] == 'gen' and len(o) > 2 and o[1] == 'canary':
                    encl = next((it for it in items if it.get('fn') == o[2]), None)
                    if encl:
                        break
            fnname = encl['fn'] if encl else (c_or[3] if c_or[0] == 'overlay' and c_or[3] else 'global')
            kind = ('post' if msg.startswith('postcondition') else
                    'pre' if msg.startswith('precondition') else
                    'inv' if 'invariant' in msg else
                    'dec' if (msg.startswith('decreases') or msg.startswith('could not prove termination')) else
                    'assert' if msg.startswith('assertion') else
                    'arith' if msg.startswith('possible') else 'other')
            tags = props_near(clause['line_start'], clause['line_end'])
            if not tags and encl:
                tags = set(encl.get('props', []))
            site_desc = ''
            if site is not None:
                so = origin_of(site['line_start'])
                if so[0] == 'repo':
                    site_desc = '%s:%d' % (so[1], so[2])
            if kind == 'arith' or (kind in ('assert',) and c_or[0] == 'repo'):
                # the "clause" is a piece of repo code: identify by its text
                pass
            oid = '%s/%s/%s:%s' % (build['unit']['name'], fnname, kind, clause_text[:160])
            failures.append({
                'id': oid, 'fn': fnname, 'kind': kind, 'message': msg,
                'clause': clause_text, 'clause_origin': list(c_or), 'site': site_desc,
                'props': sorted(tags), 'rendered': d.get('rendered', ''),
                'canary': p_or[0] == 'gen' and len(p_or) > 1 and p_or[1] == 'canary',
            })
        elif RLIMIT_RE.search(msg):
            undecided.append('solver limit: ' + msg.split('\n')[0])
        else:
            undecided.append('verus rejected the generated file: ' + (d.get('rendered') or msg)[:1500])
    return failures, undecided


def trust_scan(build):
    """Mechanical list of everything assumed rather than proved in the generated file."""
    out = []
    lines = build['text'].split('\n')
    lm = build['linemap']
    for i, ln in enumerate(lines):
        code = ln.split('//')[0]
        m = TRUST_RE.search(code)
        if not m:
            continue
        o = lm[i] if i < len(lm) else ('gen',)
        # find the name that follows
        name = ''
        for k in range(i, min(i + 6, len(lines))):
            mm = re.search(r'\b(?:fn|assume_specification\s*(?:<[^>]*>)?\s*\[)\s*([A-Za-z_][\w:<>, ]*)', lines[k])
            if mm:
                name = mm.group(1).strip()
                break
        where = '%s:%s' % (os.path.basename(str(o[1])), o[2]) if o[0] in ('env', 'overlay', 'repo') else 'generated'
        out.append({'kind': m.group(1).strip(), 'name': name, 'where': where, 'origin': o[0]})
    return out


def _settle_auto(unit_dir, repo, name, b):
    """Find the set of R22 automatic closure postconditions that Verus accepts (see run_unit)."""
    auto_off = set()
    unit = b['unit']
    for attempt in range(8):
        work = tempfile.mkdtemp(prefix='verif-%s-auto-' % name, dir=os.environ.get('VERIF_SCRATCH', '/var/tmp'))
        try:
            gen = os.path.join(work, name + '.rs')
            open(gen, 'w').write(b['text'])
            cmd = [VERUS, gen, '--triggers-mode', 'silent', '--error-format=json', '--output-json',
                   '--multiple-errors', '20', '--rlimit', str(unit.get('rlimit', 30))]
            rc, so, se, dt = _run(cmd, work, unit.get('timeout', 600))
        finally:
            shutil.rmtree(work, ignore_errors=True)
        drop = set()
        rejected = False
        for ln in se.split('\n'):
            ln = ln.strip()
            if not ln.startswith('{'):
                continue
            try:
                d = json.loads(ln)
            except ValueError:
                continue
            if d.get('level') != 'error' or d.get('message', '').startswith('aborting due to'):
                continue
            msg = d.get('message', '')
            marks = set(re.findall(r'__ar_\w+', d.get('rendered') or ''))
            if FAIL_RE.search(msg) and not d.get('code'):
                # a proof failure: only the automatic clause itself counts
                for sp in d.get('spans', []):
                    txt = ''.join(t.get('text', '') for t in sp.get('text', []))
                    lab = sp.get('label') or ''
                    if '__same_val(' in txt and ('failed this postcondition' in lab):
                        drop |= set(re.findall(r'__ar_\w+', txt))
            else:
                rejected = True
                drop |= marks
        drop -= auto_off if isinstance(auto_off, set) else set()
        if not drop:
            if rejected and auto_off != 'ALL':
                auto_off = 'ALL'
                b = extract.build(unit_dir, repo, canary=False, auto_off=auto_off)
            return auto_off, b
        auto_off |= drop
        b = extract.build(unit_dir, repo, canary=False, auto_off=auto_off)
        if not any(l.get('rule') == 'R22' for l in b['log']):
            return auto_off, b
    auto_off = 'ALL'
    return auto_off, extract.build(unit_dir, repo, canary=False, auto_off=auto_off)


def run_unit(unit_dir, repo='/repo', tier='quick', seed=0, keep=None, rlimit=None):
    t0 = time.time()
    name = os.path.basename(os.path.normpath(unit_dir))
    res = {'unit': name, 'status': 'undecided', 'reasons': [], 'failures': [], 'obligations': 0,
           'discharged': 0, 'functions': [], 'rewrites': [], 'assumptions': [], 'samples': [],
           'solver_s': 0.0, 'wall_s': 0.0, 'backend': 'verus', 'checker_cmd': ''}
    auto_off = set()
    try:
        b = extract.build(unit_dir, repo, canary=False, auto_off=auto_off)
        if any(l.get('rule') == 'R22' for l in b['log']):
            # R22 retry loop: an automatic closure postcondition that Verus rejects (its body is not a
            # spec-mode expression) or cannot prove is left out and the unit is rebuilt; as a last resort
            # all of them are left out (the unit is then exactly what it was without R22)
            auto_off, b = _settle_auto(unit_dir, repo, name, b)
        bc = extract.build(unit_dir, repo, canary=True, auto_off=auto_off)
    except extract.Undecided as ex:
        res['reasons'].append('extraction: %s' % ex)
        res['wall_s'] = time.time() - t0
        return res
    except Exception as ex:   # tool bug: never an alarm
        res['reasons'].append('extractor crashed: %r' % ex)
        res['wall_s'] = time.time() - t0
        return res
    unit = b['unit']
    # closure fingerprint: closures without any contract, per function and callee, compared with the
    # committed baseline (units/<u>/closures.json, written by tools/fingerprint.py on the unchanged tree)
    opaque = {}
    for l in b['log']:
        if l.get('rule') == 'opaque-closure':
            opaque.setdefault(l['fn'], {}).setdefault(l['callee'], 0)
            opaque[l['fn']][l['callee']] += 1
    res['opaque_closures'] = opaque
    new_opaque = {}
    fp_path = os.path.join(unit_dir, 'closures.json')
    if os.path.exists(fp_path):
        base_fp = json.load(open(fp_path))
        for fn, d in opaque.items():
            for callee, cnt in d.items():
                if cnt > base_fp.get(fn, {}).get(callee, 0):
                    new_opaque.setdefault(fn, []).append(callee)
    res['functions'] = [dict((k, it[k]) for k in ('fn', 'file', 'line', 'sha256', 'under_contract') if k in it)
                        for it in b['items'] if 'fn' in it]
    res['types'] = [dict((k, it[k]) for k in it if k != 'props') for it in b['items'] if 'fn' not in it]
    res['rewrites'] = b['log']
    # repo text must not bring its own trust statements
    for i, ln in enumerate(b['text'].split('\n')):
        if i < len(b['linemap']) and b['linemap'][i][0] == 'repo' and re.search(r'(external_body|\badmit\s*\(|\bassume\s*\()', ln):
            res['reasons'].append('extracted repository text contains a trust statement at %s:%s' % (b['linemap'][i][1], b['linemap'][i][2]))
            return res
    ts = trust_scan(b)
    res['assumptions'] = ['%s %s (%s)' % (t['kind'], t['name'], t['where']) for t in ts]
    for a in unit.get('paper_steps', []):
        res['assumptions'].append('paper step: ' + a)

    work = tempfile.mkdtemp(prefix='verif-%s-' % name, dir=os.environ.get('VERIF_SCRATCH', '/var/tmp'))
    try:
        gen = os.path.join(work, name + '.rs')
        open(gen, 'w').write(b['text'])
        genc = os.path.join(work, name + '_canary.rs')
        open(genc, 'w').write(bc['text'])
        rl = str(rlimit or unit.get('rlimit', 30))
        base = [VERUS, gen, '--triggers-mode', 'silent', '--error-format=json', '--output-json', '--time',
                '--multiple-errors', '20', '--rlimit', rl, '--log', 'air', '--log-dir', os.path.join(work, 'log')]
        seeds = [None] if tier == 'quick' else [None, seed * 3 + 1, seed * 3 + 2]
        res['checker_cmd'] = 'verus <generated %s.rs> --triggers-mode silent --multiple-errors 20 --rlimit %s' % (name, rl)
        first = None
        for sd in seeds:
            cmd = list(base)
            if sd is not None:
                cmd += ['--smt-option', 'smt.random_seed=%d' % sd, '--smt-option', 'sat.random_seed=%d' % sd]
            rc, so, se, dt = _run(cmd, work, unit.get('timeout', 600))
            diags = []
            for ln in se.split('\n'):
                ln = ln.strip()
                if ln.startswith('{'):
                    try:
                        diags.append(json.loads(ln))
                    except ValueError:
                        pass
            try:
                js = json.loads(so) if so.strip().startswith('{') else {}
            except ValueError:
                js = {}
            vr = js.get('verification-results', {})
            failures, undec = classify(diags, b)
            if rc not in (0, 1) or (not vr and not failures and not undec):
                undec.append('verus exited %s: %s' % (rc, se[-800:]))
            if vr.get('encountered-vir-error'):
                undec.append('verus reported a VIR error')
            if rc != 0 and not failures and not undec:
                undec.append('verus failed without a classified diagnostic: %s' % se[-800:])
            run = {'seed': sd, 'rc': rc, 'verified': vr.get('verified'), 'errors': vr.get('errors'),
                   'failures': failures, 'undecided': undec, 'time_s': dt,
                   'smt_ms': (js.get('times-ms', {}).get('smt', {}) or {}).get('total'),
                   'verify_ms': js.get('times-ms', {}).get('total-verify')}
            if first is None:
                first = run
                res['solver_s'] = (run['verify_ms'] or 0) / 1000.0
                per_fn = parse_air(os.path.join(work, 'log'), name)
                res['obligations_per_fn'] = {k: len(v) for k, v in per_fn.items()}
                res['obligations'] = sum(len(v) for v in per_fn.values())
                res['samples'] = ['%s: %s' % (k, lab) for k, v in list(per_fn.items())[:6] for lab in v[:2]][:10]
                res['verified_fns'] = vr.get('verified')
            else:
                # stability: different seeds must agree
                a = sorted(f['id'] for f in first['failures'])
                bb = sorted(f['id'] for f in failures)
                if a != bb or bool(undec) != bool(first['undecided']):
                    res['reasons'].append('unstable: seed %s disagrees with the default seed (%s vs %s)' % (sd, bb, a))
        res['runs'] = [{k: r[k] for k in ('seed', 'rc', 'verified', 'errors', 'time_s')} for r in [first]]
        if first['undecided']:
            res['reasons'] += first['undecided']
        # a failed obligation inside a function that has gained a closure without any contract is not
        # reported as a violation: the verifier knows nothing about what that closure returns, so the
        # failure may be an artefact of the new construct (undecided, exit 2, never an alarm)
        kept = []
        persisting = set()
        if new_opaque and any(f['fn'] in new_opaque for f in first['failures']):
            # second opinion (oracle mode): give every new contract-less closure `ensures false`; what still
            # fails does not depend on the closure's unknown result and is a genuine failed obligation
            try:
                bo = extract.build(unit_dir, repo, canary=False, auto_off=auto_off,
                                   oracle={fn: set(v) for fn, v in new_opaque.items()})
                geno = os.path.join(work, name + '_oracle.rs')
                open(geno, 'w').write(bo['text'])
                cmd = [VERUS, geno, '--triggers-mode', 'silent', '--error-format=json', '--output-json',
                       '--multiple-errors', '20', '--rlimit', rl]
                rc, so, se, dt = _run(cmd, work, unit.get('timeout', 600))
                od = []
                for ln in se.split('\n'):
                    if ln.strip().startswith('{'):
                        try:
                            od.append(json.loads(ln))
                        except ValueError:
                            pass
                of, ou = classify(od, bo)
                if not ou:
                    persisting = set(f['id'] for f in of)
                res['oracle'] = {'persisting': sorted(persisting), 'undecided': [u[:200] for u in ou][:2]}
            except extract.Undecided as ex:
                res['oracle'] = {'persisting': [], 'undecided': [str(ex)[:200]]}
        for f in first['failures']:
            if f['fn'] in new_opaque and f['id'] in persisting:
                f['message'] += ' (fails also when the new contract-less closures are assumed to return anything)'
                kept.append(f)
            elif f['fn'] in new_opaque:
                res['reasons'].append('unsupported construct: %s now passes a closure without a contract to `%s`; '
                                      'obligation not decided: %s' % (f['fn'], '`, `'.join(sorted(set(new_opaque[f['fn']]))), f['id']))
            else:
                kept.append(f)
        first['failures'] = kept
        res['failures'] = first['failures']
        nfail = len(first['failures'])
        res['discharged'] = max(0, res['obligations'] - nfail)
        exp = unit.get('expected_verified')
        if not first['undecided'] and not first['failures']:
            if exp is not None and first['verified'] != exp:
                res['reasons'].append('vacuity guard: verus verified %s functions, baseline says %s' % (first['verified'], exp))
            if res['obligations'] == 0:
                res['reasons'].append('vacuity guard: zero obligations generated')
        # ---- canary pass (must fail at every function entry)
        if not first['undecided']:
            cmd = [VERUS, genc, '--triggers-mode', 'silent', '--error-format=json', '--output-json',
                   '--multiple-errors', '1', '--rlimit', rl]
            rc, so, se, dt = _run(cmd, work, unit.get('timeout', 600))
            cd = []
            for ln in se.split('\n'):
                if ln.strip().startswith('{'):
                    try:
                        cd.append(json.loads(ln))
                    except ValueError:
                        pass
            cf, cu = classify(cd, bc)
            hit = set(f['fn'] for f in cf if f['canary'])
            want = [it['fn'] for it in bc['items'] if 'fn' in it]
            missing = [w for w in want if w not in hit]
            res['canary'] = {'functions': len(want), 'unreachable_entry': missing, 'time_s': dt}
            if missing and not cu:
                res['reasons'].append('vacuity guard: assert(false) at entry of %s did not fail '
                                      '(contradictory precondition or assumption)' % ', '.join(missing))
            elif cu and missing:
                res['reasons'].append('canary pass undecided: %s' % cu[0][:300])
        if keep:
            os.makedirs(keep, exist_ok=True)
            shutil.copy(gen, os.path.join(keep, name + '.rs'))
    finally:
        shutil.rmtree(work, ignore_errors=True)
    if res['reasons']:
        res['status'] = 'undecided'
    elif res['failures']:
        res['status'] = 'fail'
    else:
        res['status'] = 'ok'
    res['wall_s'] = time.time() - t0
    res['generated_text'] = b['text']
    return res


if __name__ == '__main__':
    import argparse
    ap = argparse.ArgumentParser()
    ap.add_argument('unit_dir')
    ap.add_argument('--repo', default='/repo')
    ap.add_argument('--tier', default='quick')
    ap.add_argument('--keep')
    a = ap.parse_args()
    r = run_unit(a.unit_dir, a.repo, a.tier, keep=a.keep)
    r.pop('generated_text', None)
    for f in r['failures']:
        sys.stderr.write(f['rendered'] + '\n')
    for f in r['failures']:
        f.pop('rendered')
    print(json.dumps(r, indent=1))
    sys.exit({'ok': 0, 'fail': 1, 'undecided': 2}[r['status']])
