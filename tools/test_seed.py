#!/usr/bin/env python3
"""test_seed.py <tag> : apply /scratch/seed/<tag>/out/patch.diff (or /verif/seeded/<tag>/patch.diff) to a scratch copy of /repo's HEAD tree and run the property's check against it."""
import json, os, shutil, subprocess, sys
tag = sys.argv[1]
prop = sys.argv[2] if len(sys.argv) > 2 else tag[:3]
src = '/scratch/seed/%s/out/patch.diff' % tag
if not os.path.exists(src):
    src = '/verif/seeded/%s/patch.diff' % tag
st = os.environ.get('ST_DIR', '/scratch/st_seed')   # fixed path: the Kani/cargo caches are keyed by source path
shutil.rmtree(st, ignore_errors=True)
subprocess.run('git -C /repo worktree add -f --detach %s HEAD -q' % st, shell=True, check=True)
try:
    r = subprocess.run('git apply %s' % src, shell=True, cwd=st, stdout=subprocess.PIPE, stderr=subprocess.STDOUT, text=True)
    if r.returncode != 0:
        r = subprocess.run('git apply -3 %s' % src, shell=True, cwd=st, stdout=subprocess.PIPE, stderr=subprocess.STDOUT, text=True)
    print('apply:', r.returncode, r.stdout.strip()[:300])
    env = dict(os.environ, VERIF_REPO=st, VERIF_KANI_TARGET=os.environ.get('ST_KANI', '/verif/.cache/kani-target-seed'), VERIF_EVIDENCE_DIR='/scratch/seed_evidence', VERIF_REPLAY_DIR='/scratch/seed_replays')
    p = subprocess.run(['/verif/check', prop], env=env, stdout=subprocess.PIPE, stderr=subprocess.STDOUT, text=True)
    print(p.stdout[-3000:])
    print('exit', p.returncode)
finally:
    subprocess.run('git -C /repo worktree remove --force %s' % st, shell=True)
