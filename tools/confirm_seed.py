#!/usr/bin/env python3
"""Confirm a seeded change independently: demo passes without patch, fails with it, baseline suite passes with it.
usage: confirm_seed.py <tag> <test-filter>     (files in /scratch/seed/<tag>/out; worktree /scratch/seed/<tag>/wt)"""
import json, os, subprocess, sys, shutil
tag, filt = sys.argv[1], sys.argv[2]
base = '/scratch/seed/%s' % tag
wt = base + '/wt'
env = dict(os.environ, CARGO_TARGET_DIR='/scratch/seed/target', CARGO_NET_OFFLINE='true')
def sh(cmd, **kw):
    p = subprocess.run(cmd, shell=True, cwd=wt, env=env, stdout=subprocess.PIPE, stderr=subprocess.STDOUT, text=True, **kw)
    return p.returncode, p.stdout
def clean():
    sh('git checkout -q -- . && git clean -fdq')
out = {}
clean()
sh('git checkout -q --detach %s' % os.environ.get('SEED_BASE', 'main'))
rc, o = sh('git apply %s/out/demo.diff' % base); assert rc == 0, o
rc, o = sh('cargo test --offline --lib %s 2>&1 | tail -5' % filt)
out['demo_without_patch'] = o.strip().split('\n')[-3:]
ok1 = 'test result: ok' in o and ' 0 passed' not in o
rc, o = sh('git apply %s/out/patch.diff' % base); assert rc == 0, o
rc, o = sh('cargo test --offline --lib %s 2>&1 | tail -8' % filt)
out['demo_with_patch'] = o.strip().split('\n')[-4:]
ok2 = 'FAILED' in o
clean()
rc, o = sh('git apply %s/out/patch.diff' % base); assert rc == 0, o
rc, o = sh('cargo test --offline --workspace --no-fail-fast 2>&1 | grep -E "^test result|warning: unused|^error" | head -5')
out['baseline_with_patch'] = o.strip().split('\n')
ok3 = '31 passed; 0 failed' in o
clean()
out['confirmed'] = bool(ok1 and ok2 and ok3)
print(json.dumps(out, indent=1))
