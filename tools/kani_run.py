"""Run Kani harnesses that live in /repo behind cfg(kani).

The harness calls the real function: the verified code is the compiled code.
A loop-free harness over kani::any() of the full input type is a complete
proof; harnesses registered with a "bounded" note are bounded stand-ins and
are reported as such, never counted as proved.
"""
import json
import os
import re
import shutil
import subprocess
import sys
import tempfile
import time

ROOT = os.path.dirname(os.path.dirname(os.path.abspath(__file__)))
TARGET = os.environ.get('VERIF_KANI_TARGET', os.path.join(ROOT, '.cache', 'kani-target'))


def _env():
    e = dict(os.environ)
    e['CARGO_NET_OFFLINE'] = 'true'
    return e


def _target_for(repo):
    # never share build artifacts between different source trees: cargo-kani's per-harness outputs are
    # not keyed by the source path, and a stale output of another tree would be taken as up to date
    rp = os.path.realpath(repo)
    if rp == '/repo' or os.environ.get('VERIF_KANI_TARGET'):
        return TARGET
    import hashlib
    return TARGET + '-' + hashlib.sha256(rp.encode()).hexdigest()[:8]


def _cargo_kani(repo, args, timeout):
    cmd = ['cargo', 'kani', '--target-dir', _target_for(repo), '-Z', 'function-contracts', '-Z', 'stubbing'] + args
    t0 = time.time()
    try:
        p = subprocess.run(cmd, cwd=repo, env=_env(), stdout=subprocess.PIPE, stderr=subprocess.STDOUT,
                           text=True, timeout=timeout)
        return p.returncode, p.stdout, time.time() - t0, cmd
    except subprocess.TimeoutExpired as ex:
        out = ex.stdout if isinstance(ex.stdout, str) else (ex.stdout or b'').decode(errors='replace')
        return -9, out + '\nTIMEOUT after %ss' % timeout, time.time() - t0, cmd


def parse(out):
    """Split cargo-kani output into per-harness results."""
    res = {}
    parts = re.split(r'^Checking harness ([^\s.]+(?:\.[^\s.]+)*?)\.\.\.\s*$', out, flags=re.M)
    # parts: [pre, name1, body1, name2, body2, ...]
    for i in range(1, len(parts), 2):
        name = parts[i]
        body = parts[i + 1]
        checks = []
        for m in re.finditer(r'^Check \d+: (\S+)\s*\n\s*- Status: (\S+)\s*\n\s*- Description: "(.*?)"\s*\n(?:\s*- Location: (.*?)\n)?',
                             body, flags=re.M | re.S):
            checks.append({'name': m.group(1), 'status': m.group(2), 'desc': m.group(3), 'loc': (m.group(4) or '').strip()})
        verdict = None
        m = re.search(r'^VERIFICATION:- (\w+)', body, flags=re.M)
        if m:
            verdict = m.group(1)
        tm = re.search(r'^Verification Time: ([0-9.]+)s', body, flags=re.M)
        res[name] = {'checks': checks, 'verdict': verdict, 'time_s': float(tm.group(1)) if tm else None, 'body': body}
    return res


def playback(repo, harness, timeout):
    """Ask Kani for concrete values of a failing harness (printed unit test)."""
    rc, out, dt, cmd = _cargo_kani(repo, ['-Z', 'concrete-playback', '--concrete-playback=print',
                                          '--harness', harness, '--exact'], timeout)
    m = re.search(r'Concrete playback unit test for `[^`]*`:\s*```\s*(.*?)```', out, flags=re.S)
    return m.group(1).strip() if m else None


def run_harnesses(specs, repo='/repo', tier='quick', seed=0, prop=None):
    t0 = time.time()
    res = {'unit': 'kani', 'backend': 'kani', 'status': 'undecided', 'reasons': [], 'failures': [],
           'obligations': 0, 'discharged': 0, 'functions': [], 'rewrites': [], 'assumptions': [],
           'samples': [], 'solver_s': 0.0, 'wall_s': 0.0, 'checker_cmd': '', 'harnesses': [], 'bounded': []}
    specs = [s for s in specs if tier == 'thorough' or not s.get('thorough_only')]
    names = [s['harness'] for s in specs]
    byname = {s['harness']: s for s in specs}
    timeout = max(int(s.get('timeout', 300)) for s in specs) * (3 if tier == 'thorough' else 1) + 600
    args = []
    for n in names:
        args += ['--harness', n]
    # (kani 0.68 rejects -j together with --output-format=regular; harnesses run sequentially)
    args += ['--exact', '--output-format=regular']
    rc, out, dt, cmd = _cargo_kani(repo, args, timeout)
    res['checker_cmd'] = 'cd /repo && CARGO_NET_OFFLINE=true ' + ' '.join(cmd)
    if 'error: could not compile' in out or 'error[E' in out or 'Checking harness' not in out:
        errs = [l for l in out.split('\n') if l.startswith('error')]
        res['reasons'].append('cargo kani did not get to verification (build problem or unknown harness): %s ... %s'
                              % ('; '.join(errs[:5]), out[-600:]))
        res['wall_s'] = time.time() - t0
        return res
    per = parse(out)
    for n in names:
        short = n
        key = next((k for k in per if k == n or k.endswith('::' + n)), None)
        spec = byname[n]
        if key is None:
            res['reasons'].append('harness %s did not run (not found or kani aborted): %s' % (n, out[-600:]))
            continue
        h = per[key]
        checks = h['checks']
        oblig = [c for c in checks if not c['name'].split('.')[-2:][0].startswith('cover')]
        covers = [c for c in checks if '.cover.' in c['name']]
        oblig = [c for c in checks if '.cover.' not in c['name']]
        failed = [c for c in oblig if c['status'] == 'FAILURE']
        # UNREACHABLE = the assertion can never be reached: discharged
        undet = [c for c in oblig if c['status'] not in ('SUCCESS', 'FAILURE', 'UNREACHABLE')]
        unwind_fail = [c for c in failed if 'unwinding assertion' in c['desc']]
        failed = [c for c in failed if 'unwinding assertion' not in c['desc']]
        bad_cover = [c for c in covers if c['status'] != 'SATISFIED']
        res['obligations'] += len(oblig)
        res['discharged'] += len([c for c in oblig if c['status'] in ('SUCCESS', 'UNREACHABLE')])
        res['solver_s'] += h['time_s'] or 0
        hinfo = {'harness': key, 'checks': len(oblig), 'covers': len(covers), 'verdict': h['verdict'],
                 'time_s': h['time_s'], 'bounded': spec.get('bounded'), 'target': spec.get('target')}
        res['harnesses'].append(hinfo)
        if spec.get('bounded'):
            res['bounded'].append('%s: %s' % (n, spec['bounded']))
        if spec.get('target'):
            res['functions'].append({'fn': spec['target'], 'file': spec.get('file', ''), 'under_contract': True,
                                     'harness': n})
        res['samples'] += ['%s: %s' % (n, c['desc']) for c in oblig[:2]]
        if h['verdict'] is None:
            res['reasons'].append('harness %s: no verdict (timeout/crash): %s' % (n, h['body'][-400:]))
            continue
        if unwind_fail:
            res['reasons'].append('harness %s: unwinding bound too small (%s)' % (n, unwind_fail[0]['loc']))
        if bad_cover:
            res['reasons'].append('vacuity guard: harness %s cover not satisfied: %s' % (n, bad_cover[0]['desc']))
        if undet and not failed:
            res['reasons'].append('harness %s: %d checks undetermined' % (n, len(undet)))
        for c in failed:
            f = {'id': 'kani/%s:%s' % (n, c['desc']), 'fn': spec.get('target', n), 'kind': 'kani-check',
                 'message': c['desc'], 'clause': c['desc'], 'clause_origin': ['repo', c['loc']],
                 'site': c['loc'], 'props': [prop] if prop else spec.get('props', []),
                 'rendered': 'Kani harness %s\nCheck %s\n - Status: FAILURE\n - Description: "%s"\n - Location: %s\n'
                             % (key, c['name'], c['desc'], c['loc']), 'canary': False}
            res['failures'].append(f)
        if failed:
            cx = playback(repo, n, int(spec.get('timeout', 300)) + 300)
            if cx:
                for f in res['failures']:
                    if f['id'].startswith('kani/%s:' % n):
                        f['counterexample'] = cx
                        f['replay_output'] = ('Kani concrete playback for harness %s (values for kani::any() in order; the harness '
                                              'calls the real function, so running it with these values via `cargo kani playback` '
                                              'reproduces the failure):\n%s' % (n, cx))
    for a in ['kani 0.68: machine arithmetic exact; stubs/assumes inside the harnesses are listed in the harness source (cfg(kani) modules in /repo)']:
        res['assumptions'].append(a)
    res['status'] = 'undecided' if res['reasons'] else ('fail' if res['failures'] else 'ok')
    res['wall_s'] = time.time() - t0
    return res


def warm(repo='/repo'):
    """Build the dependency graph once so that later checks only rebuild the crate."""
    rc, out, dt, cmd = _cargo_kani(repo, ['--only-codegen'], 3600)
    print('kani warm-up: rc=%s in %.0fs' % (rc, dt))
    if rc != 0:
        print(out[-2000:])
    return rc


if __name__ == '__main__':
    if '--warm' in sys.argv:
        sys.exit(0 if warm(os.environ.get('VERIF_REPO', '/repo')) == 0 else 1)
    specs = [{'harness': h} for h in sys.argv[1:]]
    r = run_harnesses(specs)
    for f in r['failures']:
        print(f['rendered'])
    print(json.dumps({k: v for k, v in r.items() if k not in ('failures',)}, indent=1))
