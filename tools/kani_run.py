"""Placeholder, replaced below."""
def run_harnesses(*a, **k):
    raise NotImplementedError
