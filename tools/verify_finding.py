#!/usr/bin/env python3
"""verify_finding.py <demo.patch> <fix.patch> <test-filter>
In a scratch worktree of /repo HEAD: demo fails before the fix, passes after; baseline passes with the fix alone."""
import json, os, subprocess, sys
demo, fix, filt = sys.argv[1:4]
wt = '/scratch/vf/wt'
env = dict(os.environ, CARGO_TARGET_DIR='/scratch/vf/target', CARGO_NET_OFFLINE='true')
def sh(cmd, cwd=wt):
    p = subprocess.run(cmd, shell=True, cwd=cwd, env=env, stdout=subprocess.PIPE, stderr=subprocess.STDOUT, text=True)
    return p.returncode, p.stdout
os.makedirs('/scratch/vf', exist_ok=True)
if not os.path.isdir(wt):
    rc, o = sh('git -C /repo worktree add -f --detach %s HEAD' % wt, cwd='/'); assert rc == 0, o
sh('git checkout -q -- . && git clean -fdq && git checkout -q --detach main')
out = {}
rc, o = sh('git apply %s' % demo); assert rc == 0, 'demo does not apply: ' + o
rc, o = sh('cargo test --offline --lib %s 2>&1 | tail -12' % filt)
out['demo_before_fix'] = [l for l in o.strip().split('\n') if l.startswith('test ') or 'panicked' in l][-6:]
bad_before = 'FAILED' in o or 'timed out' in o
rc, o = sh('git apply %s' % fix); assert rc == 0, 'fix does not apply: ' + o
rc, o = sh('cargo test --offline --lib %s 2>&1 | tail -12' % filt)
out['demo_after_fix'] = [l for l in o.strip().split('\n') if l.startswith('test ')][-6:]
ok_after = 'test result: ok' in o and 'FAILED' not in o
sh('git checkout -q -- . && git clean -fdq')
rc, o = sh('git apply %s' % fix); assert rc == 0, o
rc, o = sh('cargo test --offline --workspace --no-fail-fast 2>&1 | grep -E "^test result" | head -3')
out['baseline_with_fix'] = o.strip().split('\n')
ok_base = '31 passed; 0 failed' in o
rc, o = sh('git diff --stat'); out['fix_stat'] = o.strip().split('\n')
sh('git checkout -q -- . && git clean -fdq')
out['confirmed'] = bool(bad_before and ok_after and ok_base)
print(json.dumps(out, indent=1))
