#!/usr/bin/env python3
"""test_refactor.py <diff> : apply a behaviour-preserving refactoring to a scratch worktree of /repo HEAD and run every
check whose units/harnesses read a touched file. A VIOLATION here is a FALSE ALARM; exit 2 (undecided) is tolerated."""
import glob, json, os, re, subprocess, sys
diff = sys.argv[1]
R = '/verif'
touched = set(re.findall(r'^\+\+\+ b/(\S+)', open(diff).read(), flags=re.M))
props = {}
for f in sorted(glob.glob(R + '/props/C*.json')):
    p = os.path.basename(f)[:-5]
    d = json.load(open(f))
    files = set()
    for u in d.get('units', []):
        uj = json.load(open('%s/units/%s/unit.json' % (R, u)))
        files |= set(it['file'] for it in uj['items'])
    files |= set(k.get('file', '') for k in d.get('kani', []))
    if files & touched:
        props[p] = d
claimed = set(json.load(open(R + '/claimed.json')))
st = os.environ.get('ST_DIR', '/scratch/st_seed')
subprocess.run('git -C /repo worktree remove --force %s 2>/dev/null; git -C /repo worktree add -f --detach %s HEAD -q' % (st, st), shell=True)
res = {}
try:
    r = subprocess.run('git apply %s' % diff, shell=True, cwd=st, capture_output=True, text=True)
    if r.returncode:
        print('apply failed', r.stderr[:300]); sys.exit(3)
    env = dict(os.environ, VERIF_REPO=st, VERIF_KANI_TARGET=os.environ.get('ST_KANI', '/verif/.cache/kani-target-seed'), VERIF_EVIDENCE_DIR='/scratch/seed_evidence', VERIF_REPLAY_DIR='/scratch/seed_replays')
    for p in sorted(props):
        if p not in claimed:
            continue
        q = subprocess.run(['/verif/check', p], env=env, capture_output=True, text=True)
        line = [l for l in q.stdout.split('\n') if l.startswith(('failed obligation', 'UNDECIDED'))][:2]
        res[p] = (q.returncode, [l[:230] for l in line])
finally:
    subprocess.run('git -C /repo worktree remove --force %s' % st, shell=True)
print(json.dumps({'diff': diff, 'touched': sorted(touched), 'results': res}, indent=1))
