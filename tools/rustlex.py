"""Minimal Rust tokenizer and item locator.

Good enough to cut items (fn / struct / enum / impl blocks) out of real Rust
source by brace matching while respecting strings, raw strings, chars,
lifetimes and (nested) comments.  Tokens keep their byte offsets so that the
extracted text is copied verbatim from the file.
"""
import re
from dataclasses import dataclass


@dataclass
class Tok:
    kind: str   # 'ws', 'comment', 'str', 'char', 'lifetime', 'ident', 'num', 'punct'
    text: str
    start: int
    end: int


_IDENT = re.compile(r'[A-Za-z_][A-Za-z0-9_]*')
_NUM = re.compile(r'[0-9][0-9A-Za-z_]*(\.[0-9][0-9A-Za-z_]*)?')


class LexError(Exception):
    pass


def lex(src: str):
    toks = []
    i = 0
    n = len(src)
    while i < n:
        c = src[i]
        # whitespace
        if c.isspace():
            j = i + 1
            while j < n and src[j].isspace():
                j += 1
            toks.append(Tok('ws', src[i:j], i, j)); i = j; continue
        # comments
        if src.startswith('//', i):
            j = src.find('\n', i)
            if j < 0:
                j = n
            toks.append(Tok('comment', src[i:j], i, j)); i = j; continue
        if src.startswith('/*', i):
            depth = 1; j = i + 2
            while j < n and depth:
                if src.startswith('/*', j):
                    depth += 1; j += 2
                elif src.startswith('*/', j):
                    depth -= 1; j += 2
                else:
                    j += 1
            if depth:
                raise LexError('unterminated block comment at %d' % i)
            toks.append(Tok('comment', src[i:j], i, j)); i = j; continue
        # raw strings  r"..."  r#"..."#  br#"..."#
        m = re.match(r'b?r(#*)"', src[i:i + 40])
        if m:
            hashes = m.group(1)
            close = '"' + hashes
            j = src.find(close, i + m.end())
            if j < 0:
                raise LexError('unterminated raw string at %d' % i)
            j += len(close)
            toks.append(Tok('str', src[i:j], i, j)); i = j; continue
        # strings  "..."  b"..."
        if c == '"' or (c == 'b' and i + 1 < n and src[i + 1] == '"'):
            j = i + (2 if c == 'b' else 1)
            while j < n and src[j] != '"':
                if src[j] == '\\':
                    j += 2
                else:
                    j += 1
            if j >= n:
                raise LexError('unterminated string at %d' % i)
            j += 1
            toks.append(Tok('str', src[i:j], i, j)); i = j; continue
        # char literal or lifetime
        if c == "'" or (c == 'b' and i + 1 < n and src[i + 1] == "'"):
            k = i + (1 if c == 'b' else 0)
            # char literal forms: 'x'  '\n'  '\u{..}'  '\''
            if k + 1 < n and src[k + 1] == '\\':
                j = k + 2
                # skip escape
                if src[j] == 'u':
                    j = src.find('}', j) + 1
                elif src[j] == 'x':
                    j += 3
                else:
                    j += 1
                if src[j] != "'":
                    raise LexError('bad char literal at %d' % i)
                j += 1
                toks.append(Tok('char', src[i:j], i, j)); i = j; continue
            if k + 2 < n and src[k + 2] == "'" and src[k + 1] != "'":
                j = k + 3
                toks.append(Tok('char', src[i:j], i, j)); i = j; continue
            if c == "'":
                m = _IDENT.match(src, i + 1)
                if m:
                    toks.append(Tok('lifetime', src[i:m.end()], i, m.end()))
                    i = m.end(); continue
            # a lone quote (should not happen)
            raise LexError('stray quote at %d' % i)
        m = _IDENT.match(src, i)
        if m:
            toks.append(Tok('ident', m.group(0), i, m.end())); i = m.end(); continue
        m = _NUM.match(src, i)
        if m:
            # do not swallow a method call / range after an integer:  1..2   1.max(2)
            text = m.group(0)
            if m.group(1) is None and src.startswith('.', m.end()):
                pass
            toks.append(Tok('num', text, i, i + len(text))); i += len(text); continue
        toks.append(Tok('punct', c, i, i + 1)); i += 1
    return toks


def sig(toks):
    """Indices of significant (non-ws, non-comment) tokens."""
    return [k for k, t in enumerate(toks) if t.kind not in ('ws', 'comment')]


OPEN = {'(': ')', '[': ']', '{': '}'}
CLOSE = {')': '(', ']': '[', '}': '{'}


def match_close(toks, k):
    """toks[k] is an opening bracket; return the index of its partner."""
    assert toks[k].kind == 'punct' and toks[k].text in OPEN, toks[k]
    depth = 0
    for j in range(k, len(toks)):
        t = toks[j]
        if t.kind != 'punct':
            continue
        if t.text in OPEN:
            depth += 1
        elif t.text in CLOSE:
            depth -= 1
            if depth == 0:
                return j
    raise LexError('unbalanced bracket at offset %d' % toks[k].start)


def norm(text: str) -> str:
    """Whitespace-free normal form used for comparing impl headers etc."""
    return re.sub(r'\s+', '', text)


def find_body_open(toks, k):
    """From token index k (start of an item header), find the '{' that opens
    the item's body (skipping parens / brackets / generics in the header),
    or the ';' that ends a body-less item.  Returns (index, char)."""
    j = k
    n = len(toks)
    while j < n:
        t = toks[j]
        if t.kind == 'punct':
            if t.text in '([':
                j = match_close(toks, j) + 1
                continue
            if t.text == '{':
                return j, '{'
            if t.text == ';':
                return j, ';'
        j += 1
    raise LexError('no body found')


ITEM_KW = ('fn', 'struct', 'enum', 'impl', 'trait', 'mod', 'const', 'static',
           'type', 'use', 'macro_rules')


def top_items(toks, lo, hi):
    """Yield (kind, name_or_header, start_tok, end_tok_inclusive, body_open)
    for items directly inside toks[lo:hi] (an impl/mod body or the file)."""
    j = lo
    while j < hi:
        t = toks[j]
        if t.kind in ('ws', 'comment'):
            j += 1; continue
        if t.kind == 'punct' and t.text == '#':
            # attribute  #[...]  or #![...]
            k = j + 1
            while toks[k].kind in ('ws',) or (toks[k].kind == 'punct' and toks[k].text == '!'):
                k += 1
            if toks[k].kind == 'punct' and toks[k].text == '[':
                j = match_close(toks, k) + 1
                continue
        # item start: scan modifiers until a keyword
        start = j
        k = j
        kw = None
        while k < hi:
            tk = toks[k]
            if tk.kind == 'ident' and tk.text == 'const':
                # `const fn` / `const unsafe fn`: `const` is a modifier here, not a const item
                q = k + 1
                while q < hi and toks[q].kind in ('ws', 'comment'):
                    q += 1
                if q < hi and toks[q].kind == 'ident' and toks[q].text in ('fn', 'unsafe', 'async', 'extern'):
                    k += 1; continue
            if tk.kind == 'ident' and tk.text in ITEM_KW:
                kw = tk.text; break
            if tk.kind == 'ident' and tk.text in ('pub', 'async', 'unsafe', 'extern', 'default'):
                k += 1; continue
            if tk.kind in ('ws', 'comment', 'str'):
                k += 1; continue
            if tk.kind == 'punct' and tk.text == '(':   # pub(crate)
                k = match_close(toks, k) + 1; continue
            break
        if kw is None:
            # macro invocation item or something unknown: skip to ; or matching }
            bo, ch = find_body_open(toks, j)
            end = match_close(toks, bo) if ch == '{' else bo
            # optional trailing ';' after macro braces is handled next round
            yield ('other', '', start, end, None)
            j = end + 1
            continue
        bo, ch = find_body_open(toks, k + 1)
        if kw == 'impl':
            header = ''.join(x.text for x in toks[k + 1:bo])
            name = header
        elif kw == 'macro_rules':
            name = ''
        else:
            # the name is the next identifier
            name = ''
            for x in toks[k + 1:bo]:
                if x.kind == 'ident':
                    name = x.text; break
        if ch == '{':
            end = match_close(toks, bo)
            # struct Foo {..}  has no trailing ;  — tuple struct ends with ;
        else:
            end = bo
            bo = None
        # const/static/type/use with braces in initialiser: extend to ';'
        if kw in ('const', 'static', 'type', 'use') and ch == '{':
            e = end + 1
            while e < hi and not (toks[e].kind == 'punct' and toks[e].text == ';'):
                if toks[e].kind == 'punct' and toks[e].text in OPEN:
                    e = match_close(toks, e)
                e += 1
            end = e
            bo = None
        yield (kw, name, start, end, bo if ch == '{' else None)
        j = end + 1


def impl_header_norm(header: str) -> str:
    """Normalise `<'a> Run<'a>` / `<M: ObjectMeta> Archive<M>` / `Trait for T`
    to a comparison key: generics of the impl itself dropped, whitespace
    dropped, where-clause dropped."""
    h = header.strip()
    # strip leading generic parameter list
    if h.startswith('<'):
        depth = 0
        for i, c in enumerate(h):
            if c == '<':
                depth += 1
            elif c == '>' and (i == 0 or h[i - 1] != '-'):
                depth -= 1
                if depth == 0:
                    h = h[i + 1:]
                    break
    h = re.split(r'\bwhere\b', h)[0]
    return norm(h)


class SourceFile:
    def __init__(self, path):
        self.path = path
        self.src = open(path, encoding='utf-8').read()
        self.toks = lex(self.src)

    def line_of(self, offset):
        return self.src.count('\n', 0, offset) + 1

    def _walk(self, lo, hi, mods):
        for it in top_items(self.toks, lo, hi):
            kind, name, s, e, bo = it
            yield (mods, it)
            if kind == 'mod' and bo is not None:
                yield from self._walk(bo + 1, e, mods + [name])

    def items(self):
        return self._walk(0, len(self.toks), [])

    def find_impl_fn(self, impl_key, fn_name, mod=None):
        """Locate `fn fn_name` inside an impl whose normalised header equals
        impl_key (e.g. "Run<'a>" or "StdErrorforFailed").  Returns list of
        (impl_item, fn_item)."""
        res = []
        want = norm(impl_key)
        for mods, it in self.items():
            kind, name, s, e, bo = it
            if kind != 'impl' or bo is None:
                continue
            if mod is not None and mods != mod:
                continue
            if impl_header_norm(name) != want:
                continue
            for it2 in top_items(self.toks, bo + 1, e):
                if it2[0] == 'fn' and it2[1] == fn_name:
                    res.append((it, it2))
        return res

    def find_item(self, kind, name, mod=None):
        res = []
        for mods, it in self.items():
            if it[0] == kind and it[1] == name and (mod is None or mods == mod):
                res.append(it)
        return res

    def text(self, s, e):
        return self.src[self.toks[s].start:self.toks[e].end]
