#!/usr/bin/env python3
"""One-off maintenance tool: turn `//@ closure N` overlay directives into `//@ closure METHOD K optional`
where the N-th closure is the first argument of a method call; keep a unit's change only if the unit is still ok."""
import json, os, re, shutil, sys
sys.path.insert(0, os.path.dirname(os.path.abspath(__file__)))
import extract, vunit
R = os.path.dirname(os.path.dirname(os.path.abspath(__file__)))
for ud in sorted(os.listdir(R + '/units')):
    d = R + '/units/' + ud
    c = d + '/contracts.rs'
    if not os.path.isfile(c) or '//@ closure' not in open(c).read():
        continue
    try:
        b = extract.build(d, '/repo')
    except Exception as ex:
        print(ud, 'skip (extract):', ex); continue
    m = {}
    for l in b['log']:
        if l['rule'] == 'closure-map':
            mm = re.match(r'closure (\d+) is `(\S+) (\d+)`', l['what'])
            m[(l['fn'], int(mm.group(1)))] = (mm.group(2), int(mm.group(3)))
    lines = open(c).read().split('\n')
    cur = None; changed = 0
    out = []
    for ln in lines:
        mf = re.match(r'\s*//@\s*fn\s+(.*\S)\s*$', ln)
        if mf: cur = mf.group(1)
        mc = re.match(r'^(\s*)//@\s*closure\s+(\d+)\s*$', ln)
        if mc and (cur, int(mc.group(2))) in m:
            callee, k = m[(cur, int(mc.group(2)))]
            out.append('%s//@ closure %s %d optional' % (mc.group(1), callee, k)); changed += 1
        else:
            out.append(ln)
    if not changed:
        print(ud, 'nothing to convert'); continue
    shutil.copy(c, c + '.bak')
    open(c, 'w').write('\n'.join(out))
    r = vunit.run_unit(d, '/repo')
    if r['status'] == 'ok':
        os.remove(c + '.bak'); print(ud, 'converted', changed, 'ok', r['obligations'])
    else:
        shutil.move(c + '.bak', c); print(ud, 'REVERTED', changed, r['status'], (r['reasons'] or [f['id'] for f in r['failures']])[:1])
