#!/usr/bin/env python3
"""fingerprint.py [unit ...]: write units/<u>/closures.json -- per extracted function, how many closure literals
without any contract (no overlay annotation, no R22 automatic postcondition) it passes to which callee -- from the
CURRENT /repo tree. Run on the unchanged tree only; vunit.py uses it to tell a closure the contracts were written
around from one a later change introduced."""
import json, os, sys
sys.path.insert(0, os.path.dirname(os.path.abspath(__file__)))
import vunit
R = '/verif/units'
units = sys.argv[1:] or sorted(u for u in os.listdir(R) if os.path.exists(os.path.join(R, u, 'unit.json')))
for u in units:
    d = os.path.join(R, u)
    fp = os.path.join(d, 'closures.json')
    if os.path.exists(fp):
        os.remove(fp)
    r = vunit.run_unit(d, '/repo')
    if r['status'] == 'undecided':
        print(u, 'UNDECIDED', r['reasons'][:1]); continue
    json.dump(r.get('opaque_closures', {}), open(fp, 'w'), indent=1, sort_keys=True)
    print(u, r['status'], sum(sum(v.values()) for v in r.get('opaque_closures', {}).values()))
