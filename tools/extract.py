"""Mechanical extraction of real functions from /repo into one Verus file.

Input: a unit directory (unit.json, env.rs, contracts.rs).
Output: a generated .rs file plus a line map (generated line -> origin) and a
log of every rewrite that fired.  See DESIGN.md section 1.2 for the rules.

Nothing here looks at statement text to place an overlay clause: contracts go
between signature and body, loop clauses on the n-th loop keyword, ghost
blocks at function entry, closure headers on the n-th closure literal.
"""
import hashlib
import json
import os
import re
import sys

sys.path.insert(0, os.path.dirname(os.path.abspath(__file__)))
import rustlex
from rustlex import Tok, lex, match_close


class Undecided(Exception):
    """Extraction could not be performed => the check is undecided (exit 2)."""


LOG_MACROS = ('debug', 'info', 'warn', 'error', 'trace')
FMT_MACROS = ('format', 'format_args')
WRITE_MACROS = ('write', 'writeln')


# ---------------------------------------------------------------- overlay

class Overlay:
    """Parsed contracts.rs."""

    def __init__(self, path):
        self.path = path
        self.fns = {}       # key -> {'spec': (text,line), 'loops': {n:(text,line)}, 'entry':..., 'closures': {n:..}, 'ret': name}
        self.globals = []   # [(text, line)]
        self.prelude = []   # [(text, line)]  placed before the extracted items
        if not os.path.exists(path):
            return
        cur_fn = None
        cur_sec = None
        buf = []
        buf_line = 0
        lines = open(path, encoding='utf-8').read().split('\n')

        def flush():
            nonlocal buf
            text = '\n'.join(buf)
            if cur_sec is None:
                buf = []
                return
            if cur_sec[0] == 'global':
                self.globals.append((text, buf_line))
            elif cur_sec[0] == 'prelude':
                self.prelude.append((text, buf_line))
            else:
                d = self.fns[cur_fn]
                if cur_sec[0] == 'spec':
                    d['spec'] = (text, buf_line)
                elif cur_sec[0] == 'entry':
                    d['entry'] = (text, buf_line)
                elif cur_sec[0] == 'loop':
                    d['loops'][cur_sec[1]] = (text, buf_line)
                elif cur_sec[0] == 'closure':
                    d['closures'][cur_sec[1]] = (text.strip(), buf_line)
                elif cur_sec[0] == 'beforeloop':
                    d['beforeloop'][cur_sec[1]] = (text, buf_line)
                elif cur_sec[0] == 'loopentry':
                    d['loopentry'][cur_sec[1]] = (text, buf_line)
                elif cur_sec[0] == 'params':
                    d['params'] = (text.strip(), buf_line)
            buf = []

        for ln, line in enumerate(lines, 1):
            m = re.match(r'\s*//@\s*(\S+)\s*(.*)$', line)
            if not m:
                buf.append(line)
                continue
            flush()
            d, arg = m.group(1), m.group(2).strip()
            buf_line = ln + 1
            if d == 'fn':
                cur_fn = arg
                self.fns.setdefault(cur_fn, {'loops': {}, 'closures': {}, 'beforeloop': {},
                                             'loopentry': {}, 'loopvar': {}, 'ret': 'res', 'line': ln})
                cur_sec = None
            elif d == 'ret':
                self.fns[cur_fn]['ret'] = arg
                cur_sec = None
            elif d in ('spec', 'entry', 'params'):
                cur_sec = (d,)
            elif d == 'loopvar':
                n, name = arg.split()
                self.fns[cur_fn]['loopvar'][int(n)] = name
                cur_sec = None
            elif d in ('loop', 'closure', 'beforeloop', 'loopentry'):
                cur_sec = (d, int(arg))
            elif d in ('global', 'prelude'):
                cur_fn = None
                cur_sec = (d,)
            elif d == 'end':
                cur_sec = None
            else:
                raise Undecided('overlay %s:%d: unknown directive %s' % (path, ln, d))
        flush()


# ---------------------------------------------------------------- rewriting

class Piece:
    """A piece of output text with its origin for the line map."""
    __slots__ = ('text', 'origin')

    def __init__(self, text, origin):
        self.text = text
        self.origin = origin   # ('repo', file, line) | ('overlay', file, line, fnkey, section) | ('env', file, line) | ('gen', note)


def _nl(text):
    return '\n' * text.count('\n')


def is_macro_call(toks, k):
    """toks[k] ident, followed by '!' and an opening bracket. Return index of
    the opening bracket or None."""
    j = k + 1
    if j < len(toks) and toks[j].kind == 'punct' and toks[j].text == '!':
        j += 1
        while j < len(toks) and toks[j].kind == 'ws':
            j += 1
        if j < len(toks) and toks[j].kind == 'punct' and toks[j].text in '([{':
            return j
    return None


def first_macro_arg(toks, lo, hi):
    """Text of the first comma-separated argument in toks[lo:hi]."""
    out = []
    j = lo
    while j < hi:
        t = toks[j]
        if t.kind == 'punct' and t.text in rustlex.OPEN:
            e = match_close(toks, j)
            out.append(''.join(x.text for x in toks[j:e + 1]))
            j = e + 1
            continue
        if t.kind == 'punct' and t.text == ',':
            break
        out.append(t.text)
        j += 1
    return ''.join(out).strip()


class FnRewriter:
    def __init__(self, sf, item, fnkey, ov, unit, log):
        self.sf = sf
        self.kind, self.name, self.s, self.e, self.bo = item
        self.fnkey = fnkey
        self.ov = ov or {'loops': {}, 'closures': {}, 'beforeloop': {}, 'loopentry': {}, 'loopvar': {}, 'ret': 'res'}
        self.unit = unit
        self.log = log
        self.relpath = os.path.relpath(sf.path, unit['repo'])

    def origin(self, tokidx):
        return ('repo', self.relpath, self.sf.line_of(self.sf.toks[tokidx].start))

    def emit(self):
        """Return list of Piece for this function."""
        toks = self.sf.toks
        rw = set(self.unit.get('rewrites', ['R1', 'R2', 'R3', 'R8', 'R9']))
        pathmap = self.unit.get('pathmap', {})
        pieces = []
        cur = []          # accumulating repo text
        cur_origin = [None]

        def out(text, tokidx):
            if cur_origin[0] is None:
                cur_origin[0] = self.origin(tokidx)
            cur.append(text)

        def flush():
            if cur:
                pieces.append(Piece(''.join(cur), cur_origin[0]))
                cur.clear()
            cur_origin[0] = None

        def overlay_piece(text, line, section):
            flush()
            pieces.append(Piece(text if text.endswith('\n') else text + '\n',
                                ('overlay', self.unit['overlay_path'], line, self.fnkey, section)))

        # ---- header: from s to bo (exclusive)
        bo = self.bo
        if bo is None:
            raise Undecided('%s has no body' % self.fnkey)
        # locate params '(' ... ')' and the return arrow at depth 0
        j = self.s
        # find 'fn'
        while not (toks[j].kind == 'ident' and toks[j].text == 'fn'):
            j += 1
        fn_kw = j
        # find param list: first '(' after the name, skipping generics <...>
        j = fn_kw + 1
        depth_angle = 0
        while True:
            t = toks[j]
            if t.kind == 'punct' and t.text == '<':
                depth_angle += 1
            elif t.kind == 'punct' and t.text == '>' and depth_angle:
                depth_angle -= 1
            elif t.kind == 'punct' and t.text == '(' and depth_angle == 0:
                break
            j += 1
        p_open = j
        p_close = match_close(toks, p_open)
        # arrow
        arrow = None
        where_kw = None
        j = p_close + 1
        while j < bo:
            t = toks[j]
            if t.kind == 'punct' and t.text == '-' and toks[j + 1].text == '>' and arrow is None:
                arrow = j
            if t.kind == 'ident' and t.text == 'where':
                where_kw = j
                break
            if t.kind == 'punct' and t.text in '([':
                j = match_close(toks, j)
            j += 1
        # header modifiers up to fn keyword
        for k in range(self.s, fn_kw):
            t = toks[k]
            if t.kind == 'ident' and t.text == 'async' and 'R6' in rw:
                self.log.append({'rule': 'R6', 'fn': self.fnkey, 'what': 'async fn -> fn',
                                 'line': self.sf.line_of(t.start)})
                continue
            if t.kind == 'comment':
                out(_nl(t.text), k)
                continue
            if t.kind == 'ident' and t.text == 'pub':
                continue
            if t.kind == 'punct' and t.text in '()' or (t.kind == 'ident' and t.text in ('crate', 'super', 'in')):
                continue   # pub(crate) / pub(super)
            out(t.text, k)
        # fn name + generics
        for k in range(fn_kw, p_open):
            out(toks[k].text, k)
        # params (R4: tuple patterns; overlay 'params' replaces the whole list)
        if 'params' in self.ov:
            out('(', p_open)
            ptext, pline = self.ov['params']
            overlay_piece(ptext, pline, 'params')
            out(')' + _nl(''.join(x.text for x in toks[p_open:p_close + 1])), p_close)
            self.log.append({'rule': 'R8p', 'fn': self.fnkey, 'what': 'parameter list replaced by overlay',
                             'line': self.sf.line_of(toks[p_open].start)})
        else:
            self._emit_range(p_open, p_close + 1, out, rw, pathmap, in_body=False)
        ret_end = where_kw if where_kw is not None else bo
        if arrow is not None:
            for k in range(p_close + 1, arrow):
                out(toks[k].text, k)
            rtype = ''.join(x.text for x in toks[arrow + 2:ret_end])
            rtype_stripped = rtype.strip()
            trailing = rtype[len(rtype.rstrip()):]
            rtype_mapped = self._map_paths_text(rtype_stripped, pathmap)
            out('-> (%s: %s)%s' % (self.ov.get('ret', 'res'), rtype_mapped, trailing), arrow)
        else:
            for k in range(p_close + 1, ret_end):
                out(toks[k].text, k)
        if where_kw is not None:
            self._emit_range(where_kw, bo, out, rw, pathmap, in_body=False)
        # ---- spec
        if 'spec' in self.ov:
            text, line = self.ov['spec']
            overlay_piece('\n' + text, line - 1, 'spec')
        # ---- body
        out('{', bo)
        if 'entry' in self.ov:
            text, line = self.ov['entry']
            overlay_piece('\n' + text, line - 1, 'entry')
        if self.unit.get('_canary'):
            flush()
            pieces.append(Piece('\n proof { assert(false); }\n', ('gen', 'canary', self.fnkey)))
        self._loop_no = 0
        self._closure_no = 0
        self._emit_range(bo + 1, self.e + 1, out, rw, pathmap, in_body=True,
                         overlay_piece=overlay_piece)
        flush()
        # all overlay loop/closure anchors must have been consumed
        for n in self.ov['loops']:
            if n > self._loop_no:
                raise Undecided('%s: overlay names loop %d but the function has %d loops'
                                % (self.fnkey, n, self._loop_no))
        for n in self.ov['closures']:
            if n > self._closure_no:
                raise Undecided('%s: overlay names closure %d but the function has %d closures'
                                % (self.fnkey, n, self._closure_no))
        return pieces

    def _map_paths_text(self, text, pathmap):
        if not pathmap:
            return text
        ts = lex(text)
        return self._map_tokens(ts, pathmap)

    def _map_tokens(self, ts, pathmap):
        """Longest-match replacement of `a::b::C` sequences by pathmap."""
        out = []
        i = 0
        n = len(ts)
        keys = sorted(pathmap.keys(), key=lambda k: -len(k))
        while i < n:
            t = ts[i]
            if t.kind == 'ident':
                # only at a path start (previous significant token is not '::')
                prev_is_colon = False
                k = i - 1
                while k >= 0 and ts[k].kind == 'ws':
                    k -= 1
                if k >= 1 and ts[k].text == ':' and ts[k - 1].text == ':':
                    prev_is_colon = True
                if not prev_is_colon:
                    # collect path
                    j = i
                    path = [t.text]
                    ends = [i + 1]
                    while (j + 3 < n + 1 and j + 2 < n and ts[j + 1].text == ':' and ts[j + 2].text == ':'
                           and j + 3 < n and ts[j + 3].kind == 'ident'):
                        path.append(ts[j + 3].text)
                        j += 3
                        ends.append(j + 1)
                    hit = None
                    for L in range(len(path), 0, -1):
                        key = '::'.join(path[:L])
                        if key in pathmap:
                            hit = (key, ends[L - 1])
                            break
                    if hit:
                        out.append(pathmap[hit[0]])
                        i = hit[1]
                        continue
            out.append(t.text)
            i += 1
        return ''.join(out)

    def _emit_range(self, lo, hi, out, rw, pathmap, in_body, overlay_piece=None):
        toks = self.sf.toks
        j = lo
        keys = pathmap
        while j < hi:
            t = toks[j]
            # comments are dropped (newlines kept) so that overlay / canary
            # scans never see commented-out code
            if t.kind == 'comment':
                out(_nl(t.text) if not t.text.startswith('//') else '', j)
                j += 1
                continue
            if t.kind == 'ident' and t.text == 'pub':
                # R5: visibility qualifiers are dropped (single-module output)
                k = j + 1
                while k < hi and toks[k].kind == 'ws':
                    k += 1
                if k < hi and toks[k].kind == 'punct' and toks[k].text == '(':
                    k = match_close(toks, k) + 1
                    while k < hi and toks[k].kind == 'ws':
                        k += 1
                j = k
                continue
            # R3: statement `X.for_each(|PAT| BODY)`  ==>  `for PAT in X { BODY }`
            if (in_body and 'R3' in rw and t.kind not in ('ws', 'comment')
                    and self._stmt_start(j, lo)):
                fe = self._match_for_each(j, hi)
                if fe is not None:
                    j = self._emit_for_each(j, fe, out, rw, pathmap, overlay_piece)
                    continue
            if t.kind == 'ident':
                mo = is_macro_call(toks, j)
                if mo is not None and j + 1 < hi:
                    mc = match_close(toks, mo)
                    full = ''.join(x.text for x in toks[j:mc + 1])
                    line = self.sf.line_of(t.start)
                    if t.text in LOG_MACROS and 'R1' in rw:
                        self.log.append({'rule': 'R1', 'fn': self.fnkey, 'line': line,
                                         'what': 'dropped %s!(..)' % t.text})
                        out('()' + _nl(full), j)
                        j = mc + 1
                        continue
                    if t.text in FMT_MACROS and 'R2' in rw:
                        self.log.append({'rule': 'R2', 'fn': self.fnkey, 'line': line,
                                         'what': '%s!(..) -> fmt_opaque()' % t.text})
                        out('fmt_opaque()' + _nl(full), j)
                        j = mc + 1
                        continue
                    if t.text in WRITE_MACROS and 'R2' in rw:
                        sink = first_macro_arg(toks, mo + 1, mc)
                        self.log.append({'rule': 'R2', 'fn': self.fnkey, 'line': line,
                                         'what': '%s!(%s, ..) -> write_opaque(%s)' % (t.text, sink, sink)})
                        out('write_opaque(%s)' % self._map_paths_text(sink, pathmap) + _nl(full), j)
                        j = mc + 1
                        continue
                # async strip
                if t.text == 'await' and 'R6' in rw:
                    # drop preceding '.' already emitted?  handled below via lookahead
                    pass
                # loop anchors
                if in_body and t.text in ('loop', 'while', 'for') and self._is_loop_kw(j):
                    self._loop_no += 1
                    n = self._loop_no
                    if overlay_piece and n in self.ov['beforeloop']:
                        text, line = self.ov['beforeloop'][n]
                        overlay_piece(text, line, 'beforeloop%d' % n)
                    # find the body '{'
                    b = self._loop_body_open(j, hi)
                    des = self._for_mut_iter(j, b) if (t.text == 'for' and 'R9' in rw) else None
                    if des is not None:
                        # R9: `for PAT in &mut IT { B }`  ==>  `loop { match IT.next() { Some(PAT) => { B } None => break, } }`
                        pat, itname = des
                        e = match_close(toks, b)
                        self.log.append({'rule': 'R9', 'fn': self.fnkey, 'line': self.sf.line_of(t.start),
                                         'what': 'for %s in &mut %s desugared to loop/match %s.next()' % (pat, itname, itname)})
                        out('loop' + _nl(''.join(x.text for x in toks[j:b])), j)
                        if overlay_piece and n in self.ov['loops']:
                            text, line = self.ov['loops'][n]
                            overlay_piece('\n' + text, line - 1, 'loop%d' % n)
                        out('{', b)
                        if overlay_piece and n in self.ov['loopentry']:
                            text, line = self.ov['loopentry'][n]
                            overlay_piece('\n' + text, line - 1, 'loopentry%d' % n)
                        out(' match %s.next() { Some(%s) => {' % (itname, pat), b)
                        self._emit_range(b + 1, e, out, rw, pathmap, in_body, overlay_piece)
                        out('} None => break, } }', e)
                        j = e + 1
                        continue
                    self._emit_range(j, j + 1, lambda tx, k: out(tx, k), set(), {}, False)
                    if t.text == 'for' and n in self.ov.get('loopvar', {}):
                        # R8: name the ghost iterator  `for PAT in it: EXPR`
                        q = j + 1
                        while q < b:
                            tq = toks[q]
                            if tq.kind == 'punct' and tq.text in '([':
                                q = match_close(toks, q)
                            elif tq.kind == 'ident' and tq.text == 'in':
                                break
                            q += 1
                        self._emit_range(j + 1, q + 1, out, rw, pathmap, in_body, overlay_piece)
                        out(' %s:' % self.ov['loopvar'][n], q)
                        self._emit_range(q + 1, b, out, rw, pathmap, in_body, overlay_piece)
                    else:
                        self._emit_range(j + 1, b, out, rw, pathmap, in_body, overlay_piece)
                    if overlay_piece and n in self.ov['loops']:
                        text, line = self.ov['loops'][n]
                        overlay_piece('\n' + text, line - 1, 'loop%d' % n)
                    out('{', b)
                    if overlay_piece and n in self.ov['loopentry']:
                        text, line = self.ov['loopentry'][n]
                        overlay_piece('\n' + text, line - 1, 'loopentry%d' % n)
                    j = b + 1
                    continue
                # path mapping
                if pathmap:
                    prev = j - 1
                    while prev >= lo and toks[prev].kind in ('ws', 'comment'):
                        prev -= 1
                    prev_colon = prev >= 1 and toks[prev].text == ':' and toks[prev - 1].text == ':'
                    if not prev_colon:
                        k = j
                        path = [t.text]
                        ends = [j + 1]
                        while (k + 3 < hi and toks[k + 1].text == ':' and toks[k + 2].text == ':'
                               and toks[k + 3].kind == 'ident'):
                            path.append(toks[k + 3].text)
                            k += 3
                            ends.append(k + 1)
                        hit = None
                        for L in range(len(path), 0, -1):
                            key = '::'.join(path[:L])
                            if key in pathmap:
                                hit = (key, ends[L - 1])
                                break
                        if hit:
                            out(pathmap[hit[0]], j)
                            j = hit[1]
                            continue
            # R6: `.await`
            if (t.kind == 'punct' and t.text == '.' and 'R6' in rw and j + 1 < hi
                    and toks[j + 1].kind == 'ident' and toks[j + 1].text == 'await'):
                self.log.append({'rule': 'R6', 'fn': self.fnkey, 'line': self.sf.line_of(t.start),
                                 'what': '.await dropped'})
                j += 2
                continue
            # closure literal anchors:  |args| or move |args|
            if in_body and t.kind == 'punct' and t.text == '|' and self._is_closure_start(j, lo):
                # find closing '|'
                k = j + 1
                if toks[k].kind == 'punct' and toks[k].text == '|':
                    ce = k
                else:
                    depth = 0
                    while k < hi:
                        tk = toks[k]
                        if tk.kind == 'punct' and tk.text in '([<':
                            depth += 1
                        elif tk.kind == 'punct' and tk.text in ')]>':
                            depth -= 1
                        elif tk.kind == 'punct' and tk.text == '|' and depth <= 0:
                            break
                        k += 1
                    ce = k
                self._closure_no += 1
                n = self._closure_no
                if overlay_piece and n in self.ov['closures']:
                    text, line = self.ov['closures'][n]
                    orig = ''.join(x.text for x in toks[j:ce + 1])
                    self.log.append({'rule': 'R8c', 'fn': self.fnkey, 'line': self.sf.line_of(t.start),
                                     'what': 'closure header %s replaced by annotated header' % orig})
                    overlay_piece(text, line, 'closure%d' % n)
                    out(_nl(orig), j)
                    j = ce + 1
                    # an annotated closure needs a block body: wrap a bare expression body
                    q = j
                    while q < hi and toks[q].kind in ('ws', 'comment'):
                        q += 1
                    if not (toks[q].kind == 'punct' and toks[q].text == '{'):
                        e = q
                        while e < hi:
                            te = toks[e]
                            if te.kind == 'punct' and te.text in rustlex.OPEN:
                                e = match_close(toks, e) + 1
                                continue
                            if te.kind == 'punct' and te.text in ',)]};':
                                break
                            e += 1
                        out('{', q)
                        self._emit_range(q, e, out, rw, pathmap, in_body, overlay_piece)
                        out('}', e - 1)
                        j = e
                    continue
                else:
                    for q in range(j, ce + 1):
                        out(toks[q].text, q)
                    j = ce + 1
                    continue
            out(t.text, j)
            j += 1

    # ---- R3 helpers (for_each) ------------------------------------------
    def _stmt_start(self, j, lo):
        """toks[j] is the first token of a statement / tail expression."""
        toks = self.sf.toks
        k = j - 1
        while k >= lo and toks[k].kind in ('ws', 'comment'):
            k -= 1
        if k < lo:
            return True
        return toks[k].kind == 'punct' and toks[k].text in '{;}'

    def _match_for_each(self, j, hi):
        """If the statement starting at toks[j] is exactly
        `X.for_each(|PAT| BODY)` (optionally followed by `;`), return
        (dot, pat_lo, pat_hi, body_lo, body_hi, close) token indices, else None."""
        toks = self.sf.toks
        t = toks[j]
        if t.kind == 'ident' and t.text in ('if', 'match', 'loop', 'while', 'for', 'let', 'return',
                                            'unsafe', 'break', 'continue', 'use', 'fn', 'else'):
            return None
        if not (t.kind == 'ident' or (t.kind == 'punct' and t.text in '(&*')):
            return None
        k = j
        last = None
        while k < hi:
            tk = toks[k]
            if tk.kind == 'punct' and tk.text in '([':
                k = match_close(toks, k) + 1
                continue
            if tk.kind == 'punct' and tk.text in '{}':
                break
            if tk.kind == 'punct' and tk.text in ';)]':
                break
            if (tk.kind == 'punct' and tk.text == '.' and k + 1 < hi and toks[k + 1].kind == 'ident'
                    and toks[k + 1].text == 'for_each'):
                q = k + 2
                while q < hi and toks[q].kind in ('ws', 'comment'):
                    q += 1
                if q < hi and toks[q].kind == 'punct' and toks[q].text == '(':
                    last = (k, q)
            k += 1
        if last is None:
            return None
        dot, po = last
        pc = match_close(toks, po)
        # the call must end the statement
        q = pc + 1
        while q < hi and toks[q].kind in ('ws', 'comment'):
            q += 1
        if q < hi and not (toks[q].kind == 'punct' and toks[q].text in ';}'):
            return None
        # single closure argument |PAT| BODY
        q = po + 1
        while q < pc and toks[q].kind in ('ws', 'comment'):
            q += 1
        if not (toks[q].kind == 'punct' and toks[q].text == '|'):
            return None
        pat_lo = q + 1
        k = pat_lo
        depth = 0
        while k < pc:
            tk = toks[k]
            if tk.kind == 'punct' and tk.text in '([<':
                depth += 1
            elif tk.kind == 'punct' and tk.text in ')]>':
                depth -= 1
            elif tk.kind == 'punct' and tk.text == ':' and depth <= 0:
                return None      # typed closure parameter: not a `for` pattern
            elif tk.kind == 'punct' and tk.text == ',' and depth <= 0:
                return None      # more than one parameter
            elif tk.kind == 'punct' and tk.text == '|' and depth <= 0:
                break
            k += 1
        if k >= pc or k == pat_lo:
            return None
        pat_hi = k
        body_lo = k + 1
        body_hi = pc
        # trailing comma of the argument list
        q = pc - 1
        while q > body_lo and toks[q].kind in ('ws', 'comment'):
            q -= 1
        if toks[q].kind == 'punct' and toks[q].text == ',':
            body_hi = q
        return dot, pat_lo, pat_hi, body_lo, body_hi, pc

    def _emit_for_each(self, j, fe, out, rw, pathmap, overlay_piece):
        toks = self.sf.toks
        dot, pat_lo, pat_hi, body_lo, body_hi, pc = fe
        self._loop_no += 1
        n = self._loop_no
        pat = ' '.join(''.join(x.text for x in toks[pat_lo:pat_hi] if x.kind != 'comment').split())
        self.log.append({'rule': 'R3', 'fn': self.fnkey, 'line': self.sf.line_of(toks[j].start),
                         'what': '%s.for_each(|%s| ..) rewritten to `for %s in %s { .. }`' % (
                             ''.join(x.text for x in toks[j:dot]).strip(), pat, pat,
                             ''.join(x.text for x in toks[j:dot]).strip())})
        if overlay_piece and n in self.ov['beforeloop']:
            text, line = self.ov['beforeloop'][n]
            overlay_piece(text, line, 'beforeloop%d' % n)
        out('for %s in ' % pat, j)
        if n in self.ov.get('loopvar', {}):
            out('%s: ' % self.ov['loopvar'][n], j)
        self._emit_range(j, dot, out, rw, pathmap, True, overlay_piece)
        out(_nl(''.join(x.text for x in toks[dot:body_lo])), dot)
        if overlay_piece and n in self.ov['loops']:
            text, line = self.ov['loops'][n]
            overlay_piece('\n' + text, line - 1, 'loop%d' % n)
        out(' {', body_lo)
        if overlay_piece and n in self.ov['loopentry']:
            text, line = self.ov['loopentry'][n]
            overlay_piece('\n' + text, line - 1, 'loopentry%d' % n)
        self._emit_range(body_lo, body_hi, out, rw, pathmap, True, overlay_piece)
        out(' }' + _nl(''.join(x.text for x in toks[body_hi:pc + 1])), pc)
        return pc + 1

    def _for_mut_iter(self, j, b):
        """`for PAT in &mut IDENT {` -> (PAT text, IDENT) else None."""
        toks = self.sf.toks
        k = j + 1
        depth = 0
        in_kw = None
        while k < b:
            t = toks[k]
            if t.kind == 'punct' and t.text in '([':
                k = match_close(toks, k)
            elif t.kind == 'ident' and t.text == 'in':
                in_kw = k
                break
            k += 1
        if in_kw is None:
            return None
        pat = ''.join(x.text for x in toks[j + 1:in_kw]).strip()
        rest = [x for x in toks[in_kw + 1:b] if x.kind not in ('ws', 'comment')]
        if len(rest) == 3 and rest[0].text == '&' and rest[1].text == 'mut' and rest[2].kind == 'ident':
            return pat, rest[2].text
        return None

    def _is_loop_kw(self, j):
        """`for` also appears in `impl Trait for`, HRTB `for<'a>`; inside a
        body only HRTB matters."""
        toks = self.sf.toks
        t = toks[j]
        # previous significant token must not be '.' (method named `loop`?) or '::'
        k = j - 1
        while k >= 0 and toks[k].kind in ('ws', 'comment'):
            k -= 1
        if k >= 0 and toks[k].kind == 'punct' and toks[k].text in '.:':
            if toks[k].text == '.':
                return False
            # label `'a: loop` has ':' preceded by lifetime
            if toks[k].text == ':' and k >= 1 and toks[k - 1].kind == 'lifetime':
                return True
            return False
        if t.text == 'for':
            k = j + 1
            while toks[k].kind == 'ws':
                k += 1
            if toks[k].kind == 'punct' and toks[k].text == '<':
                return False
        return True

    def _loop_body_open(self, j, hi):
        toks = self.sf.toks
        k = j + 1
        while k < hi:
            t = toks[k]
            if t.kind == 'punct' and t.text in '([':
                k = match_close(toks, k) + 1
                continue
            if t.kind == 'punct' and t.text == '{':
                # `match x { .. }` / closure bodies inside a loop header would be
                # mis-taken; detect `match`/`if` keyword before it
                p = k - 1
                while toks[p].kind in ('ws', 'comment'):
                    p -= 1
                return k
            k += 1
        raise Undecided('%s: loop body not found' % self.fnkey)

    def _is_closure_start(self, j, lo):
        """A '|' starts a closure when the previous significant token is one of
        ( , = { ; => return move  or an opening of an argument list."""
        toks = self.sf.toks
        k = j - 1
        while k >= lo and toks[k].kind in ('ws', 'comment'):
            k -= 1
        if k < lo:
            return True
        p = toks[k]
        if p.kind == 'punct' and p.text in '(,={;>[':
            # '>' covers '=>'  (a '>' comparison followed by '|' is not valid Rust anyway… `a > |x|` no)
            if p.text == '>':
                return k >= 1 and toks[k - 1].text == '='
            return True
        if p.kind == 'ident' and p.text in ('move', 'return', 'in', 'else'):
            return True
        return False


# ---------------------------------------------------------------- unit assembly

def load_unit(unit_dir, repo):
    u = json.load(open(os.path.join(unit_dir, 'unit.json')))
    u['dir'] = unit_dir
    u['repo'] = repo
    u['overlay_path'] = os.path.join(unit_dir, 'contracts.rs')
    u['env_path'] = os.path.join(unit_dir, 'env.rs')
    return u


def sha(text):
    return hashlib.sha256(text.encode()).hexdigest()


def strip_attrs_and_docs(sf, s, e):
    """Text of toks[s..e] with comments and #[...] attributes dropped (newlines kept)."""
    toks = sf.toks
    out = []
    j = s
    while j <= e:
        t = toks[j]
        if t.kind == 'comment':
            out.append(_nl(t.text))
            j += 1
            continue
        if t.kind == 'punct' and t.text == '#':
            k = j + 1
            while toks[k].kind == 'ws':
                k += 1
            if toks[k].kind == 'punct' and toks[k].text == '[':
                c = match_close(toks, k)
                out.append(_nl(''.join(x.text for x in toks[j:c + 1])))
                j = c + 1
                continue
        if t.kind == 'ident' and t.text == 'pub':
            k = j + 1
            while k <= e and toks[k].kind == 'ws':
                k += 1
            if k <= e and toks[k].kind == 'punct' and toks[k].text == '(':
                k = match_close(toks, k) + 1
                while k <= e and toks[k].kind == 'ws':
                    k += 1
            j = k
            continue
        out.append(t.text)
        j += 1
    return ''.join(out)


def build(unit_dir, repo, canary=False):
    """Return dict(text=..., linemap=[origin per line], log=[...], items=[...])."""
    unit = load_unit(unit_dir, repo)
    unit['_canary'] = canary
    ov = Overlay(unit['overlay_path'])
    log = []
    pieces = []
    items_info = []
    files = {}

    def sf_for(rel):
        p = os.path.join(repo, rel)
        if not os.path.exists(p):
            raise Undecided('source file %s not found' % rel)
        if p not in files:
            try:
                files[p] = rustlex.SourceFile(p)
            except rustlex.LexError as ex:
                raise Undecided('cannot tokenise %s: %s' % (rel, ex))
        return files[p]

    head = ['#![allow(unused_imports, unused_variables, dead_code, unused_mut, unused_parens, '
            'unreachable_code, unused_assignments, unused_braces, non_snake_case, irrefutable_let_patterns)]\n']
    for f in unit.get('features', []):
        head.insert(0, '#![feature(%s)]\n' % f)
    head.append('use vstd::prelude::*;\n')
    for u in unit.get('uses', []):
        head.append(u + '\n')
    head.append('verus! {\n')
    pieces.append(Piece(''.join(head), ('gen', 'header')))
    env = open(unit['env_path'], encoding='utf-8').read()
    if not env.endswith('\n'):
        env += '\n'
    pieces.append(Piece(env, ('env', unit['env_path'], 1)))
    for text, line in ov.prelude:
        pieces.append(Piece(text + '\n', ('overlay', unit['overlay_path'], line, None, 'prelude')))

    used_fnkeys = set()
    # group consecutive fn items of the same impl into one impl block
    open_impl = None
    for it in unit['items']:
        sf = sf_for(it['file'])
        mod = it.get('mod')
        if 'fn' in it:
            impl_key = it.get('impl')
            fnkey = (impl_key.split('<')[0] if impl_key and ' for ' not in impl_key else (impl_key or '')).strip()
            fnkey = it.get('key') or ((fnkey + '::' if fnkey else '') + it['fn'])
            if impl_key:
                found = sf.find_impl_fn(impl_key, it['fn'], mod)
                if len(found) != 1:
                    raise Undecided('%s: expected exactly one `fn %s` in `impl %s` of %s, found %d'
                                    % (unit['name'], it['fn'], impl_key, it['file'], len(found)))
                impl_item, fn_item = found[0]
                header = it.get('impl_header')
                if header is None:
                    raw = sf.text(impl_item[2], impl_item[4] - 1)
                    header = raw[raw.index('impl'):]
                header = FnRewriter(sf, fn_item, fnkey, None, unit, [])._map_paths_text(header, unit.get('pathmap', {}))
            else:
                found = sf.find_item('fn', it['fn'], mod)
                if len(found) != 1:
                    raise Undecided('%s: expected exactly one free `fn %s` in %s, found %d'
                                    % (unit['name'], it['fn'], it['file'], len(found)))
                fn_item = found[0]
                header = None
            if header != open_impl:
                if open_impl is not None:
                    pieces.append(Piece('}\n', ('gen', 'impl close')))
                if header is not None:
                    pieces.append(Piece(header.rstrip() + ' {\n', ('gen', 'impl header from ' + it['file'])))
                open_impl = header
            fov = ov.fns.get(fnkey)
            if fov is not None:
                used_fnkeys.add(fnkey)
            raw = sf.text(fn_item[2], fn_item[3])
            rw = FnRewriter(sf, fn_item, fnkey, fov, dict(unit, **{k: it[k] for k in ('rewrites', 'pathmap') if k in it}), log)
            fp = rw.emit()
            pieces.extend(fp)
            pieces.append(Piece('\n', ('gen', 'sep')))
            items_info.append({'fn': fnkey, 'file': it['file'],
                               'line': sf.line_of(sf.toks[fn_item[2]].start),
                               'endline': sf.line_of(sf.toks[fn_item[3]].start),
                               'sha256': sha(raw), 'props': it.get('props', unit.get('properties', [])),
                               'loops': rw._loop_no, 'closures': rw._closure_no,
                               'under_contract': fov is not None and 'spec' in fov})
        else:
            if open_impl is not None:
                pieces.append(Piece('}\n', ('gen', 'impl close')))
                open_impl = None
            kind = 'struct' if 'struct' in it else 'enum' if 'enum' in it else 'const' if 'const' in it else None
            if kind is None:
                raise Undecided('unit item not understood: %r' % it)
            found = sf.find_item(kind, it[kind], mod)
            if len(found) != 1:
                raise Undecided('%s: expected exactly one `%s %s` in %s, found %d'
                                % (unit['name'], kind, it[kind], it['file'], len(found)))
            ti = found[0]
            raw = sf.text(ti[2], ti[3])
            text = strip_attrs_and_docs(sf, ti[2], ti[3])
            text = FnRewriter(sf, ti, it[kind], None, unit, [])._map_paths_text(text, dict(unit.get('pathmap', {}), **it.get('pathmap', {})))
            for a in it.get('attrs', []):
                pieces.append(Piece(a + '\n', ('gen', 'attr')))
            pieces.append(Piece(text + '\n', ('repo', it['file'], sf.line_of(sf.toks[ti[2]].start))))
            log.append({'rule': 'R5', 'fn': it[kind], 'line': sf.line_of(sf.toks[ti[2]].start),
                        'what': 'attributes and doc comments dropped from %s' % kind})
            items_info.append({kind: it[kind], 'file': it['file'],
                               'line': sf.line_of(sf.toks[ti[2]].start), 'sha256': sha(raw)})
    if open_impl is not None:
        pieces.append(Piece('}\n', ('gen', 'impl close')))
    for k in ov.fns:
        if k not in used_fnkeys:
            raise Undecided('overlay has contracts for `%s` but the unit extracts no such function' % k)
    for text, line in ov.globals:
        pieces.append(Piece(text + '\n', ('overlay', unit['overlay_path'], line, None, 'global')))
    pieces.append(Piece('} // verus!\nfn main() {}\n', ('gen', 'footer')))

    # assemble + line map: a line belongs to the piece holding its first
    # non-blank character; an overlay piece with text on the line wins.
    text = ''.join(p.text for p in pieces)
    starts = []
    off = 0
    for p in pieces:
        starts.append(off)
        off += len(p.text)
    linemap = []
    lines = text.split('\n')
    if lines and lines[-1] == '':
        lines.pop()
    import bisect
    pos = 0
    for ln in lines:
        lo, hi = pos, pos + len(ln)
        stripped = len(ln) - len(ln.lstrip())
        first = lo + (stripped if ln.strip() else 0)
        pi = bisect.bisect_right(starts, first) - 1
        chosen = pi
        # overlay priority
        k = bisect.bisect_right(starts, lo) - 1
        while k < len(pieces) and starts[k] <= hi:
            p = pieces[k]
            if p.origin[0] in ('overlay',) or (p.origin[0] == 'gen' and len(p.origin) > 1 and p.origin[1] == 'canary'):
                a0 = max(starts[k], lo)
                b0 = min(starts[k] + len(p.text), hi)
                if b0 > a0 and text[a0:b0].strip():
                    chosen = k
                    first = a0 + (len(text[a0:b0]) - len(text[a0:b0].lstrip()))
                    break
            k += 1
        p = pieces[chosen]
        idx = text.count('\n', starts[chosen], first)
        linemap.append(_origin_at(p.origin, idx))
        pos = hi + 1
    return {'text': text, 'linemap': linemap, 'log': log, 'items': items_info, 'unit': unit}


def _origin_at(origin, idx):
    if origin[0] in ('repo', 'env'):
        return (origin[0], origin[1], origin[2] + idx) + tuple(origin[3:])
    if origin[0] == 'overlay':
        return ('overlay', origin[1], origin[2] + idx, origin[3], origin[4])
    return origin


if __name__ == '__main__':
    import argparse
    ap = argparse.ArgumentParser()
    ap.add_argument('unit_dir')
    ap.add_argument('--repo', default='/repo')
    ap.add_argument('--canary', action='store_true')
    ap.add_argument('-o', default='-')
    a = ap.parse_args()
    try:
        r = build(a.unit_dir, a.repo, a.canary)
    except Undecided as ex:
        print('UNDECIDED:', ex, file=sys.stderr)
        sys.exit(2)
    if a.o == '-':
        sys.stdout.write(r['text'])
    else:
        open(a.o, 'w').write(r['text'])
    for l in r['log']:
        print(json.dumps(l), file=sys.stderr)
