"""Mechanical extraction of real functions from /repo into one Verus file.

Input: a unit directory (unit.json, env.rs, contracts.rs).
Output: a generated .rs file plus a line map (generated line -> origin) and a
log of every rewrite that fired.  See DESIGN.md section 1.2 for the rules.

Nothing here looks at statement text to place an overlay clause: contracts go
between signature and body, loop clauses on the n-th loop keyword, ghost
blocks at function entry, closure headers on the n-th closure literal.
"""
import hashlib
import json
import os
import re
import sys

sys.path.insert(0, os.path.dirname(os.path.abspath(__file__)))
import rustlex
from rustlex import Tok, lex, match_close


class Undecided(Exception):
    """Extraction could not be performed => the check is undecided (exit 2)."""


LOG_MACROS = ('debug', 'info', 'warn', 'error', 'trace')
FMT_MACROS = ('format', 'format_args')
WRITE_MACROS = ('write', 'writeln')


# ---------------------------------------------------------------- overlay

class Overlay:
    """Parsed contracts.rs."""

    def __init__(self, path):
        self.path = path
        self.fns = {}       # key -> {'spec': (text,line), 'loops': {n:(text,line)}, 'entry':..., 'closures': {n:..}, 'ret': name}
        self.globals = []   # [(text, line)]
        self.prelude = []   # [(text, line)]  placed before the extracted items
        if not os.path.exists(path):
            return
        cur_fn = None
        cur_sec = None
        buf = []
        buf_line = 0
        lines = open(path, encoding='utf-8').read().split('\n')

        def flush():
            nonlocal buf
            text = '\n'.join(buf)
            if cur_sec is None:
                buf = []
                return
            if cur_sec[0] == 'global':
                self.globals.append((text, buf_line))
            elif cur_sec[0] == 'prelude':
                self.prelude.append((text, buf_line))
            else:
                d = self.fns[cur_fn]
                if cur_sec[0] == 'spec':
                    d['spec'] = (text, buf_line)
                elif cur_sec[0] == 'entry':
                    d['entry'] = (text, buf_line)
                elif cur_sec[0] == 'exit':
                    d['exit'] = (text, buf_line)
                elif cur_sec[0] == 'tail':
                    d['tail'] = (text, buf_line)
                elif cur_sec[0] == 'loop':
                    d['loops'][cur_sec[1]] = (text, buf_line)
                elif cur_sec[0] == 'closure':
                    d['closures'][cur_sec[1]] = (text.strip(), buf_line)
                elif cur_sec[0] == 'closure_named':
                    d.setdefault('closures_named', {})[cur_sec[1]] = (text.strip(), buf_line)
                elif cur_sec[0] == 'beforeloop':
                    d['beforeloop'][cur_sec[1]] = (text, buf_line)
                elif cur_sec[0] == 'loopentry':
                    d['loopentry'][cur_sec[1]] = (text, buf_line)
                elif cur_sec[0] == 'afterinit':
                    d.setdefault('afterinit', {})[cur_sec[1]] = (text, buf_line)
                elif cur_sec[0] == 'loopend':
                    d.setdefault('loopend', {})[cur_sec[1]] = (text, buf_line)
                elif cur_sec[0] == 'afterloop':
                    d.setdefault('afterloop', {})[cur_sec[1]] = (text, buf_line)
                elif cur_sec[0] == 'closurecall':
                    d.setdefault('closurecall', {})[cur_sec[1]] = (text, buf_line)
                elif cur_sec[0] == 'params':
                    d['params'] = (text.strip(), buf_line)
                elif cur_sec[0] == 'beforecall':
                    d.setdefault('beforecall', {})[cur_sec[1]] = (text, buf_line)
            buf = []

        for ln, line in enumerate(lines, 1):
            m = re.match(r'\s*//@\s*(\S+)\s*(.*)$', line)
            if not m:
                buf.append(line)
                continue
            flush()
            d, arg = m.group(1), m.group(2).strip()
            buf_line = ln + 1
            if d == 'fn':
                cur_fn = arg
                self.fns.setdefault(cur_fn, {'loops': {}, 'closures': {}, 'beforeloop': {},
                                             'loopentry': {}, 'loopvar': {}, 'ret': 'res', 'line': ln})
                cur_sec = None
            elif d == 'ret':
                self.fns[cur_fn]['ret'] = arg
                cur_sec = None
            elif d in ('spec', 'entry', 'params', 'exit', 'tail'):
                cur_sec = (d,)
            elif d == 'envcall':
                # `//@ envcall METHOD ENVFN [RECV ...]`: R16, see FnRewriter._emit_range
                parts = arg.split()
                if len(parts) < 2:
                    raise Undecided('overlay %s:%d: envcall needs METHOD ENVFN [RECV ...]' % (path, ln))
                self.fns[cur_fn].setdefault('envcall', {})[parts[0]] = (parts[1], set(parts[2:]))
                cur_sec = None
            elif d == 'loopvar':
                n, name = arg.split()
                self.fns[cur_fn]['loopvar'][int(n)] = name
                cur_sec = None
            elif d == 'closureopaque':
                # `//@ closureopaque N <env expression>` (R17): see FnRewriter._emit_range
                parts = arg.split(None, 1)
                if len(parts) != 2:
                    raise Undecided('overlay %s:%d: closureopaque needs an ordinal and an expression' % (path, ln))
                self.fns[cur_fn].setdefault('closureopaque', {})[int(parts[0])] = (parts[1], ln)
                cur_sec = None
            elif d in ('loop', 'closure', 'beforeloop', 'loopentry', 'afterinit', 'loopend', 'closurecall', 'afterloop'):
                parts = arg.split()
                if d == 'closure' and parts and not parts[0].isdigit():
                    # `//@ closure METHOD K`: header of the K-th closure literal that is the first argument
                    # of a call `.METHOD(`/`METHOD(` (robust against closures inserted elsewhere)
                    opt = len(parts) == 3 and parts[2] == 'optional'
                    if (len(parts) != 2 and not opt) or not parts[1].isdigit():
                        raise Undecided('overlay %s:%d: closure needs N or METHOD K [optional]' % (path, ln))
                    cur_sec = ('closure_named', (parts[0], int(parts[1])))
                    if opt:
                        # `//@ closure METHOD K optional`: if the code no longer passes such a closure the
                        # annotation is simply not used (an annotation only ADDS knowledge; without it the
                        # function verifies on what the environment says about the replacement, or fails)
                        self.fns[cur_fn].setdefault('optional_named', set()).add((parts[0], int(parts[1])))
                    continue
                cur_sec = (d, int(parts[0]))
                if d == 'closurecall' and len(parts) >= 3 and parts[1] == 'via':
                    # `//@ closurecall N via FN`: the call becomes `FN(__iN, <closure>)` (FN: a verified
                    # wrapper in the overlay whose body is the method call itself)
                    self.fns[cur_fn].setdefault('closurecall_via', {})[int(parts[0])] = parts[2]
                if d == 'loop' and 'optional' in parts[1:]:
                    # `//@ loop N optional`: the N-th loop may be absent (a loop that only a
                    # candidate repair adds); its absence is not an extraction failure
                    self.fns[cur_fn].setdefault('optional_loops', set()).add(int(parts[0]))
            elif d == 'beforecall':
                # `//@ beforecall NAME K`: ghost statements in front of the STATEMENT that contains the K-th call
                # `NAME(` / `.NAME(` of the function body (textual order). A proof hint that must precede a
                # particular call (e.g. a trigger term for the callee's precondition) without depending on which
                # statements happen to stand before it. A missing call is exit 2.
                parts = arg.split()
                if len(parts) != 2 or not parts[1].isdigit():
                    raise Undecided('overlay %s:%d: beforecall needs NAME K' % (path, ln))
                cur_sec = ('beforecall', (parts[0], int(parts[1])))
            elif d in ('global', 'prelude'):
                cur_fn = None
                cur_sec = (d,)
            elif d == 'end':
                cur_sec = None
            else:
                raise Undecided('overlay %s:%d: unknown directive %s' % (path, ln, d))
        flush()


# ---------------------------------------------------------------- rewriting

class Piece:
    """A piece of output text with its origin for the line map."""
    __slots__ = ('text', 'origin')

    def __init__(self, text, origin):
        self.text = text
        self.origin = origin   # ('repo', file, line) | ('overlay', file, line, fnkey, section) | ('env', file, line) | ('gen', note)


def _nl(text):
    return '\n' * text.count('\n')


def is_macro_call(toks, k):
    """toks[k] ident, followed by '!' and an opening bracket. Return index of
    the opening bracket or None."""
    j = k + 1
    if j < len(toks) and toks[j].kind == 'punct' and toks[j].text == '!':
        j += 1
        while j < len(toks) and toks[j].kind == 'ws':
            j += 1
        if j < len(toks) and toks[j].kind == 'punct' and toks[j].text in '([{':
            return j
    return None


def first_macro_arg(toks, lo, hi):
    """Text of the first comma-separated argument in toks[lo:hi]."""
    out = []
    j = lo
    while j < hi:
        t = toks[j]
        if t.kind == 'punct' and t.text in rustlex.OPEN:
            e = match_close(toks, j)
            out.append(''.join(x.text for x in toks[j:e + 1]))
            j = e + 1
            continue
        if t.kind == 'punct' and t.text == ',':
            break
        out.append(t.text)
        j += 1
    return ''.join(out).strip()


class FnRewriter:
    def __init__(self, sf, item, fnkey, ov, unit, log):
        self.sf = sf
        self.kind, self.name, self.s, self.e, self.bo = item
        self.fnkey = fnkey
        self.ov = ov or {'loops': {}, 'closures': {}, 'beforeloop': {}, 'loopentry': {}, 'loopvar': {}, 'ret': 'res'}
        self.unit = unit
        self.log = log
        self.relpath = os.path.relpath(sf.path, unit['repo'])
        self._brk = []     # R10: stack of value variables of the enclosing value loops

    def origin(self, tokidx):
        return ('repo', self.relpath, self.sf.line_of(self.sf.toks[tokidx].start))

    def emit(self):
        """Return list of Piece for this function."""
        toks = self.sf.toks
        rw = set(self.unit.get('rewrites', ['R1', 'R2', 'R3', 'R4', 'R8', 'R9']))
        pathmap = self.unit.get('pathmap', {})
        pieces = []
        cur = []          # accumulating repo text
        cur_origin = [None]

        def out(text, tokidx):
            if cur_origin[0] is None:
                cur_origin[0] = self.origin(tokidx)
            cur.append(text)

        def flush():
            if cur:
                pieces.append(Piece(''.join(cur), cur_origin[0]))
                cur.clear()
            cur_origin[0] = None

        def overlay_piece(text, line, section):
            flush()
            pieces.append(Piece(text if text.endswith('\n') else text + '\n',
                                ('overlay', self.unit['overlay_path'], line, self.fnkey, section)))

        # ---- header: from s to bo (exclusive)
        bo = self.bo
        if bo is None:
            raise Undecided('%s has no body' % self.fnkey)
        if self.unit.get('_sig') is not None:
            # R7 closure-lift: the header comes from unit.json ("sig"), the body is the closure's block
            return self._emit_lifted(out, flush, overlay_piece, pieces, rw, pathmap)
        # locate params '(' ... ')' and the return arrow at depth 0
        j = self.s
        # find 'fn'
        while not (toks[j].kind == 'ident' and toks[j].text == 'fn'):
            j += 1
        fn_kw = j
        # find param list: first '(' after the name, skipping generics <...>
        j = fn_kw + 1
        depth_angle = 0
        while True:
            t = toks[j]
            if t.kind == 'punct' and t.text == '<':
                depth_angle += 1
            elif t.kind == 'punct' and t.text == '>' and depth_angle:
                depth_angle -= 1
            elif t.kind == 'punct' and t.text == '(' and depth_angle == 0:
                break
            j += 1
        p_open = j
        p_close = match_close(toks, p_open)
        # arrow
        arrow = None
        where_kw = None
        j = p_close + 1
        while j < bo:
            t = toks[j]
            if t.kind == 'punct' and t.text == '-' and toks[j + 1].text == '>' and arrow is None:
                arrow = j
            if t.kind == 'ident' and t.text == 'where':
                where_kw = j
                break
            if t.kind == 'punct' and t.text in '([':
                j = match_close(toks, j)
            j += 1
        # header modifiers up to fn keyword
        for k in range(self.s, fn_kw):
            t = toks[k]
            if t.kind == 'ident' and t.text == 'async' and 'R6' in rw:
                self.log.append({'rule': 'R6', 'fn': self.fnkey, 'what': 'async fn -> fn',
                                 'line': self.sf.line_of(t.start)})
                continue
            if t.kind == 'comment':
                out(_nl(t.text), k)
                continue
            if t.kind == 'ident' and t.text == 'pub':
                continue
            if t.kind == 'punct' and t.text in '()' or (t.kind == 'ident' and t.text in ('crate', 'super', 'in')):
                continue   # pub(crate) / pub(super)
            out(t.text, k)
        # fn name + generics
        for k in range(fn_kw, p_open):
            out(toks[k].text, k)
        # params (R4: tuple patterns; overlay 'params' replaces the whole list)
        if 'params' in self.ov:
            out('(', p_open)
            ptext, pline = self.ov['params']
            overlay_piece(ptext, pline, 'params')
            out(')' + _nl(''.join(x.text for x in toks[p_open:p_close + 1])), p_close)
            self.log.append({'rule': 'R8p', 'fn': self.fnkey, 'what': 'parameter list replaced by overlay',
                             'line': self.sf.line_of(toks[p_open].start)})
        elif 'R4' in rw:
            # R4: tuple-pattern parameter `(a, b): T` -> `__pN: T` + `let (a, b) = __pN;` at body entry
            r4_lets = []
            k = p_open + 1
            out('(', p_open)
            seg_start = k
            angle = 0
            while k <= p_close:
                tk = toks[k]
                if k < p_close and tk.kind == 'punct' and tk.text in '([':
                    k = match_close(toks, k) + 1
                    continue
                if k < p_close and tk.kind == 'punct' and tk.text == '<':
                    angle += 1
                elif (k < p_close and tk.kind == 'punct' and tk.text == '>' and angle
                        and toks[k - 1].text not in ('-', '=')):
                    angle -= 1
                if k == p_close or (tk.kind == 'punct' and tk.text == ',' and angle == 0):
                    # one parameter: toks[seg_start:k]
                    q = seg_start
                    while q < k and toks[q].kind in ('ws', 'comment'):
                        q += 1
                    if q < k and toks[q].kind == 'punct' and toks[q].text == '(':
                        pc2 = match_close(toks, q)
                        pat_text = ''.join(x.text for x in toks[q:pc2 + 1] if x.kind != 'comment')
                        name = '__p%d' % (len(r4_lets) + 1)
                        r4_lets.append('let %s = %s;' % (' '.join(pat_text.split()), name))
                        self.log.append({'rule': 'R4', 'fn': self.fnkey, 'line': self.sf.line_of(toks[q].start),
                                         'what': 'tuple-pattern parameter %s bound as %s and destructured at body entry'
                                                 % (' '.join(pat_text.split()), name)})
                        for z in range(seg_start, q):
                            out(toks[z].text if toks[z].kind != 'comment' else _nl(toks[z].text), z)
                        out(name + _nl(pat_text), q)
                        self._emit_range(pc2 + 1, k, out, rw, pathmap, in_body=False)
                    else:
                        self._emit_range(seg_start, k, out, rw, pathmap, in_body=False)
                    out(toks[k].text, k)
                    seg_start = k + 1
                k += 1
            self._r4_lets = r4_lets
        elif self.unit.get('_clock'):
            # R20 ghost-clock: the extracted fn gets a trailing ghost parameter `Tracked(clk)`
            self._emit_range(p_open, p_close, out, rw, pathmap, in_body=False)
            inner = [x for x in toks[p_open + 1:p_close] if x.kind not in ('ws', 'comment')]
            sep = '' if (not inner or inner[-1].text == ',') else ', '
            out('%sTracked(clk): Tracked<&mut Clock>)' % sep, p_close)
            self.log.append({'rule': 'R20', 'fn': self.fnkey, 'line': self.sf.line_of(toks[p_open].start),
                             'what': 'ghost parameter Tracked(clk): Tracked<&mut Clock> appended to the parameter list'})
        else:
            self._emit_range(p_open, p_close + 1, out, rw, pathmap, in_body=False)
        ret_end = where_kw if where_kw is not None else bo
        if arrow is not None:
            for k in range(p_close + 1, arrow):
                out(toks[k].text, k)
            rtype = ''.join(x.text for x in toks[arrow + 2:ret_end])
            rtype_stripped = rtype.strip()
            trailing = rtype[len(rtype.rstrip()):]
            rtype_mapped = self._map_paths_text(rtype_stripped, pathmap)
            out('-> (%s: %s)%s' % (self.ov.get('ret', 'res'), rtype_mapped, trailing), arrow)
        else:
            for k in range(p_close + 1, ret_end):
                out(toks[k].text, k)
        if where_kw is not None:
            self._emit_range(where_kw, bo, out, rw, pathmap, in_body=False)
        # ---- spec
        if 'spec' in self.ov:
            text, line = self.ov['spec']
            overlay_piece('\n' + text, line - 1, 'spec')
        # ---- body
        out('{', bo)
        for r4 in getattr(self, '_r4_lets', []):
            flush()
            pieces.append(Piece(' ' + r4, ('gen', 'R4 destructuring of a tuple-pattern parameter')))
        if getattr(self, '_mut_self', False):
            flush()
            pieces.append(Piece(' let mut self_ = self;', ('gen', 'R12 mutable rebinding of a `mut self` receiver')))
        for mp in getattr(self, '_mut_params', []):
            flush()
            pieces.append(Piece(' let mut %s_ = %s;' % (mp, mp), ('gen', 'R12 mutable rebinding of a `mut` parameter')))
        if 'entry' in self.ov:
            text, line = self.ov['entry']
            overlay_piece('\n' + text, line - 1, 'entry')
        if self.unit.get('_canary'):
            flush()
            pieces.append(Piece('\n proof { assert(false); }\n', ('gen', 'canary', self.fnkey)))
        self._loop_no = 0
        self._closure_no = 0
        if 'tail' in self.ov:
            # R8t: `//@ tail`: ghost statements immediately before the tail expression of the body,
            # i.e. behind trailing block statements (`if ..{..}`, `match ..{..}`) that carry no `;`
            # (`//@ exit` lands before those); both may be present
            points = []
            if 'exit' in self.ov:
                points.append((self._exit_point(bo, self.e), 'exit'))
            points.append((self._tail_point(bo, self.e), 'tail'))
            at = bo + 1
            for x, tag in points:
                self._emit_range(at, x, out, rw, pathmap, in_body=True, overlay_piece=overlay_piece)
                text, line = self.ov[tag]
                overlay_piece('\n' + text, line - 1, tag)
                at = x
            self._emit_range(at, self.e + 1, out, rw, pathmap, in_body=True, overlay_piece=overlay_piece)
        elif 'exit' in self.ov:
            # R8x: ghost statements at the fall-through exit of the function:
            # after the last top-level `;` of the body (before a tail expression)
            x = self._exit_point(bo, self.e)
            self._emit_range(bo + 1, x, out, rw, pathmap, in_body=True,
                             overlay_piece=overlay_piece)
            text, line = self.ov['exit']
            overlay_piece('\n' + text, line - 1, 'exit')
            self._emit_range(x, self.e + 1, out, rw, pathmap, in_body=True,
                             overlay_piece=overlay_piece)
        else:
            self._emit_range(bo + 1, self.e + 1, out, rw, pathmap, in_body=True,
                             overlay_piece=overlay_piece)
        flush()
        # all overlay loop/closure anchors must have been consumed
        for n in self.ov['loops']:
            if n > self._loop_no and n in self.ov.get('optional_loops', ()):
                self.log.append({'rule': 'R8', 'fn': self.fnkey, 'line': 0,
                                 'what': 'optional loop %d absent: its overlay clauses are not used' % n})
                continue
            if n > self._loop_no:
                raise Undecided('%s: overlay names loop %d but the function has %d loops'
                                % (self.fnkey, n, self._loop_no))
        for key in self.ov.get('closures_named', {}):
            if key not in getattr(self, '_named_used', set()) and key in self.ov.get('optional_named', ()):
                self.log.append({'rule': 'R8c', 'fn': self.fnkey, 'line': 0,
                                 'what': 'optional closure annotation `%s %d` not used: no such closure argument' % key})
                continue
            if key not in getattr(self, '_named_used', set()):
                raise Undecided('%s: overlay names closure `%s %d` but no such closure argument exists'
                                % (self.fnkey, key[0], key[1]))
        for n in self.ov['closures']:
            if n > self._closure_no:
                raise Undecided('%s: overlay names closure %d but the function has %d closures'
                                % (self.fnkey, n, self._closure_no))
        return pieces

    def _emit_lifted(self, out, flush, overlay_piece, pieces, rw, pathmap):
        """R7: emit `SIG SPEC { closure body }` for a closure literal lifted to a fn."""
        bo = self.bo
        wrap = self.unit.get('_wrap')
        out(self.unit['_sig'].rstrip() + ' ', bo)
        if 'spec' in self.ov:
            text, line = self.ov['spec']
            overlay_piece('\n' + text, line - 1, 'spec')
        out('{', bo)
        if wrap:
            # R7b: the lifted block's value is wrapped (e.g. `Ok(` .. `)`); `return` keeps its meaning
            out(' %s {' % wrap[0], bo)
        if 'entry' in self.ov:
            text, line = self.ov['entry']
            overlay_piece('\n' + text, line - 1, 'entry')
        if self.unit.get('_canary'):
            flush()
            pieces.append(Piece('\n proof { assert(false); }\n', ('gen', 'canary', self.fnkey)))
        self._loop_no = 0
        self._closure_no = 0
        if 'exit' in self.ov:
            x = self._exit_point(bo, self.e)
            self._emit_range(bo + 1, x, out, rw, pathmap, in_body=True, overlay_piece=overlay_piece)
            text, line = self.ov['exit']
            overlay_piece('\n' + text, line - 1, 'exit')
            self._emit_range(x, self.e + 1, out, rw, pathmap, in_body=True, overlay_piece=overlay_piece)
        else:
            self._emit_range(bo + 1, self.e + 1, out, rw, pathmap, in_body=True, overlay_piece=overlay_piece)
        if wrap:
            out(' %s }' % wrap[1], self.e)
        flush()
        for n in self.ov['loops']:
            if n > self._loop_no:
                raise Undecided('%s: overlay names loop %d but the lifted closure has %d loops'
                                % (self.fnkey, n, self._loop_no))
        for n in self.ov['closures']:
            if n > self._closure_no:
                raise Undecided('%s: overlay names closure %d but the lifted closure has %d closures'
                                % (self.fnkey, n, self._closure_no))
        return pieces

    def find_block_of_loop(self, n, up=1):
        """R7b: (open, close) token indices of the `up`-th brace block enclosing the n-th loop
        keyword of this fn (loops counted in textual order like the overlay anchors)."""
        toks = self.sf.toks
        cnt = 0
        pos = None
        for j in range(self.bo + 1, self.e):
            t = toks[j]
            if t.kind == 'ident' and t.text in ('loop', 'while', 'for') and self._is_loop_kw(j):
                cnt += 1
                if cnt == n:
                    pos = j
                    break
        if pos is None:
            raise Undecided('%s: loop %d not found (function has %d loops)' % (self.fnkey, n, cnt))
        depth = 0
        k = pos - 1
        while k >= self.bo:
            t = toks[k]
            if t.kind == 'punct' and t.text in rustlex.CLOSE:
                depth += 1
            elif t.kind == 'punct' and t.text in rustlex.OPEN:
                if depth == 0:
                    if t.text == '{':
                        up -= 1
                        if up == 0:
                            return k, match_close(toks, k)
                else:
                    depth -= 1
            k -= 1
        raise Undecided('%s: no enclosing block for loop %d' % (self.fnkey, n))

    def find_block_of_field(self, name):
        """R7c: (open, close) of the brace block in `NAME: { .. }` (struct-literal field initialiser)."""
        toks = self.sf.toks
        hits = []
        sig = [j for j in range(self.bo + 1, self.e) if toks[j].kind not in ('ws', 'comment')]
        for a in range(len(sig) - 2):
            t0, t1, t2 = toks[sig[a]], toks[sig[a + 1]], toks[sig[a + 2]]
            if (t0.kind == 'ident' and t0.text == name and t1.text == ':' and t2.text == '{'
                    and (a == 0 or toks[sig[a - 1]].text not in (':', '.'))):
                hits.append(sig[a + 2])
        if len(hits) != 1:
            raise Undecided('%s: expected exactly one field initialiser block `%s: {`, found %d'
                            % (self.fnkey, name, len(hits)))
        return hits[0], match_close(toks, hits[0])

    def find_block_of_if(self, cond):
        """R7c: (open, close) of the body block of `if COND {` (plain if, not `if let`)."""
        toks = self.sf.toks
        want = re.sub(r'\s+', '', cond)
        hits = []
        for j in range(self.bo + 1, self.e):
            t = toks[j]
            if t.kind == 'ident' and t.text == 'if':
                k = j + 1
                while toks[k].kind in ('ws', 'comment'):
                    k += 1
                if toks[k].kind == 'ident' and toks[k].text == 'let':
                    continue
                b = k
                while b < self.e and not (toks[b].kind == 'punct' and toks[b].text == '{'):
                    if toks[b].kind == 'punct' and toks[b].text in '([':
                        b = match_close(toks, b)
                    b += 1
                text = ''.join(x.text for x in toks[k:b] if x.kind not in ('ws', 'comment'))
                if text == want:
                    hits.append(b)
        if len(hits) != 1:
            raise Undecided('%s: expected exactly one `if %s {`, found %d' % (self.fnkey, cond, len(hits)))
        return hits[0], match_close(toks, hits[0])

    def find_block_of_if_let(self, scrutinee):
        """R7c: (open, close) of the body block of `if let PAT = SCRUTINEE {`."""
        toks = self.sf.toks
        want = re.sub(r'\s+', '', scrutinee)
        hits = []
        j = self.bo + 1
        while j < self.e:
            t = toks[j]
            if t.kind == 'ident' and t.text == 'if':
                k = j + 1
                while toks[k].kind in ('ws', 'comment'):
                    k += 1
                if toks[k].kind == 'ident' and toks[k].text == 'let':
                    # find '=' at depth 0, then the body '{'
                    q = k + 1
                    eq = None
                    while q < self.e:
                        tq = toks[q]
                        if tq.kind == 'punct' and tq.text in '([':
                            q = match_close(toks, q) + 1
                            continue
                        if tq.kind == 'punct' and tq.text == '=' and toks[q + 1].text != '=':
                            eq = q
                            break
                        if tq.kind == 'punct' and tq.text == '{':
                            break
                        q += 1
                    if eq is not None:
                        b = eq + 1
                        while b < self.e and not (toks[b].kind == 'punct' and toks[b].text == '{'):
                            if toks[b].kind == 'punct' and toks[b].text in '([':
                                b = match_close(toks, b)
                            b += 1
                        text = ''.join(x.text for x in toks[eq + 1:b] if x.kind not in ('ws', 'comment'))
                        if text == want:
                            hits.append(b)
            j += 1
        if len(hits) != 1:
            raise Undecided('%s: expected exactly one `if let .. = %s {`, found %d'
                            % (self.fnkey, scrutinee, len(hits)))
        return hits[0], match_close(toks, hits[0])

    def find_closure(self, n):
        """R7: (start_tok, body_open, body_close) of the n-th closure literal of this fn
        (textual order, same counting as the `closure` overlay anchors); block bodies only."""
        toks = self.sf.toks
        cnt = 0
        j = self.bo + 1
        while j < self.e:
            t = toks[j]
            if t.kind == 'punct' and t.text == '|' and self._is_closure_start(j, self.bo + 1):
                k = j + 1
                if not (toks[k].kind == 'punct' and toks[k].text == '|'):
                    depth = 0
                    while k < self.e:
                        tk = toks[k]
                        if tk.kind == 'punct' and tk.text in '([<':
                            depth += 1
                        elif tk.kind == 'punct' and tk.text in ')]>':
                            depth -= 1
                        elif tk.kind == 'punct' and tk.text == '|' and depth <= 0:
                            break
                        k += 1
                cnt += 1
                if cnt == n:
                    q = k + 1
                    while q < self.e and toks[q].kind in ('ws', 'comment'):
                        q += 1
                    if not (toks[q].kind == 'punct' and toks[q].text == '{'):
                        raise Undecided('%s: closure %d has no block body' % (self.fnkey, n))
                    return j, q, match_close(toks, q)
                j = k + 1
                continue
            j += 1
        raise Undecided('%s: closure %d not found (function has %d closures)' % (self.fnkey, n, cnt))

    def _exit_point(self, bo, e):
        """Token index right after the last `;` at nesting depth 0 of the body
        toks[bo..e] (bo+1 if the body has no top-level `;`)."""
        toks = self.sf.toks
        x = bo + 1
        j = bo + 1
        while j < e:
            t = toks[j]
            if t.kind == 'punct' and t.text in rustlex.OPEN:
                j = match_close(toks, j) + 1
                continue
            if t.kind == 'punct' and t.text == ';':
                x = j + 1
            j += 1
        return x

    def _tail_point(self, bo, e):
        """Token index where the tail expression of the body toks[bo..e] starts: from the exit
        point, skip block statements (`if C {..} [else ..]`, `match X {..}`, `while/for/loop {..}`,
        `unsafe {..}`, `{..}`) that are followed by further tokens; a block expression that ends
        the body is itself the tail. Without a tail expression: the position of the closing brace."""
        toks = self.sf.toks

        def skip_ws(j):
            while j < e and toks[j].kind in ('ws', 'comment'):
                j += 1
            return j

        def block_end(j):
            # j at a block keyword or `{`: index right behind the whole block expression, or None
            t = toks[j]
            if t.kind == 'punct' and t.text == '{':
                return match_close(toks, j) + 1
            if t.kind != 'ident' or t.text not in ('if', 'match', 'while', 'for', 'loop', 'unsafe'):
                return None
            k = j + 1
            while k < e:
                u = toks[k]
                if u.kind == 'punct' and u.text == '{':
                    break
                if u.kind == 'punct' and u.text in rustlex.OPEN:
                    k = match_close(toks, k) + 1
                    continue
                if u.kind == 'punct' and u.text == ';':
                    return None
                k += 1
            if k >= e:
                return None
            end = match_close(toks, k) + 1
            if t.text == 'if':
                n = skip_ws(end)
                if n < e and toks[n].kind == 'ident' and toks[n].text == 'else':
                    n2 = skip_ws(n + 1)
                    if n2 < e:
                        return block_end(n2)
            return end

        x = skip_ws(self._exit_point(bo, e))
        while x < e:
            be = block_end(x)
            if be is None:
                return x
            nxt = skip_ws(be)
            if nxt >= e:
                return x        # the block expression is the tail expression
            if toks[nxt].kind == 'punct' and toks[nxt].text in ('.', '?'):
                return x        # `match .. {..}.method()` / `{..}?`: part of the tail expression
            x = nxt
        return x

    def _map_paths_text(self, text, pathmap):
        if not pathmap:
            return text
        ts = lex(text)
        return self._map_tokens(ts, pathmap)

    def _map_tokens(self, ts, pathmap):
        """Longest-match replacement of `a::b::C` sequences by pathmap."""
        out = []
        i = 0
        n = len(ts)
        keys = sorted(pathmap.keys(), key=lambda k: -len(k))
        while i < n:
            t = ts[i]
            if t.kind == 'ident':
                # only at a path start (previous significant token is not '::')
                prev_is_colon = False
                k = i - 1
                while k >= 0 and ts[k].kind == 'ws':
                    k -= 1
                if k >= 1 and ts[k].text == ':' and ts[k - 1].text == ':':
                    prev_is_colon = True
                if not prev_is_colon:
                    # collect path
                    j = i
                    path = [t.text]
                    ends = [i + 1]
                    while (j + 3 < n + 1 and j + 2 < n and ts[j + 1].text == ':' and ts[j + 2].text == ':'
                           and j + 3 < n and ts[j + 3].kind == 'ident'):
                        path.append(ts[j + 3].text)
                        j += 3
                        ends.append(j + 1)
                    hit = None
                    for L in range(len(path), 0, -1):
                        key = '::'.join(path[:L])
                        if key in pathmap:
                            hit = (key, ends[L - 1])
                            break
                    if hit:
                        out.append(pathmap[hit[0]])
                        i = hit[1]
                        continue
            out.append(t.text)
            i += 1
        return ''.join(out)

    def _emit_range(self, lo, hi, out, rw, pathmap, in_body, overlay_piece=None):
        toks = self.sf.toks
        j = lo
        keys = pathmap
        while j < hi:
            t = toks[j]
            if overlay_piece and in_body and self.ov.get('beforecall') and j in self._beforecall_map():
                key_bc = self._beforecall_map().pop(j)
                text, line = self.ov['beforecall'][key_bc]
                overlay_piece('\n' + text, line - 1, 'beforecall_%s_%d' % key_bc)
                self.__dict__.setdefault('_beforecall_used', set()).add(key_bc)
            if overlay_piece and j in getattr(self, '_afterloop_at', {}):
                n_aft = self._afterloop_at.pop(j)
                text, line = self.ov['afterloop'][n_aft]
                overlay_piece('\n' + text, line - 1, 'afterloop%d' % n_aft)
            if overlay_piece and j in getattr(self, '_loopend_at', {}):
                # `//@ loopend N`: ghost statements at the end of the n-th loop's body
                n_end = self._loopend_at.pop(j)
                text, line = self.ov['loopend'][n_end]
                overlay_piece('\n' + text, line - 1, 'loopend%d' % n_end)
            # comments are dropped (newlines kept) so that overlay / canary
            # scans never see commented-out code
            if t.kind == 'comment':
                out(_nl(t.text) if not t.text.startswith('//') else '', j)
                j += 1
                continue
            if t.kind == 'ident' and t.text == 'pub':
                # R5: visibility qualifiers are dropped (single-module output)
                k = j + 1
                while k < hi and toks[k].kind == 'ws':
                    k += 1
                if k < hi and toks[k].kind == 'punct' and toks[k].text == '(':
                    k = match_close(toks, k) + 1
                    while k < hi and toks[k].kind == 'ws':
                        k += 1
                j = k
                continue
            # R18: unit-level `"envcalls": {"method": "envfn"}`: any method call `RECV.method(ARGS)` whose
            #      receiver is a postfix chain  ==>  `envfn(RECV, ARGS)` (evaluation order unchanged).  For
            #      std methods Verus cannot specify (provided trait methods such as Iterator::eq); envfn is
            #      an assumed contract in env.rs.  A receiver/argument that does not fit envfn's parameter
            #      types is a compile error => undecided.
            if in_body and self.unit.get('envcalls') and j in self._r18_starts():
                j = self._emit_r18(j, out, rw, pathmap, overlay_piece)
                continue
            # R16: `IDENT.method()` (no arguments, plain identifier receiver) for a method named in an
            #      `//@ envcall method envfn [idents]` directive  ==>  `envfn(IDENT)`.  For std calls the
            #      verifier cannot express (tuple `clone`, `Iterator::cloned`); envfn is an assumed
            #      contract in env.rs stating the std semantics.
            if in_body and t.kind == 'ident' and self.ov.get('envcall'):
                r11 = self._match_envcall(j, lo, hi)
                if r11 is not None:
                    envfn, end = r11
                    self.log.append({'rule': 'R16', 'fn': self.fnkey, 'line': self.sf.line_of(t.start),
                                     'what': '%s -> %s(%s)' % (''.join(x.text for x in toks[j:end]), envfn, t.text)})
                    out('%s(%s)' % (envfn, t.text) + _nl(''.join(x.text for x in toks[j:end])), j)
                    j = end
                    continue
            # R15: `RECV.m(|..| B)` with a `//@ closurecall n` section  ==>
            #      `{ let __iN = RECV; let __rN = __iN.m(|..| B); <ghost> __rN }`
            if in_body and overlay_piece and j in self._r15_starts():
                j = self._emit_closurecall(j, self._r15_starts()[j], out, rw, pathmap, overlay_piece)
                continue
            # R3: statement `X.for_each(|PAT| BODY)`  ==>  `for PAT in X { BODY }`
            if (in_body and 'R3' in rw and t.kind not in ('ws', 'comment')
                    and self._stmt_start(j, lo)):
                fe = self._match_for_each(j, hi)
                if fe is not None:
                    j = self._emit_for_each(j, fe, out, rw, pathmap, overlay_piece)
                    continue
            if t.kind == 'ident' and t.text == 'mut' and not in_body and 'R12' in rw:
                # R12 mut-self: `mut self` receiver -> `self`; body gets `let mut self_ = self;`
                k = j + 1
                while k < hi and toks[k].kind == 'ws':
                    k += 1
                pv = j - 1
                while pv >= lo and toks[pv].kind in ('ws', 'comment'):
                    pv -= 1
                by_ref = pv >= lo and (toks[pv].text == '&' or toks[pv].kind == 'lifetime')   # `&mut self`, `&'a mut self`
                if (k < hi and toks[k].kind == 'ident' and toks[k].text != 'self' and not by_ref
                        and toks[k].text in self.unit.get('mut_params', [])):
                    # R12 (named by-value parameter): `mut x: T` -> `x: T`; body gets `let mut x_ = x;`
                    # and every `x` token of the body becomes `x_` (so that contracts and invariants can
                    # name the value at entry: `x`, and the current value: `x_`)
                    if not hasattr(self, '_mut_params'):
                        self._mut_params = []
                    self._mut_params.append(toks[k].text)
                    self.log.append({'rule': 'R12', 'fn': self.fnkey, 'line': self.sf.line_of(t.start),
                                     'what': '`mut %s` parameter -> `%s`; `let mut %s_ = %s;` at body entry, '
                                             '`%s` -> `%s_` in the body' % ((toks[k].text,) * 6)})
                    j = k
                    continue
                if k < hi and toks[k].kind == 'ident' and toks[k].text == 'self' and not by_ref:
                    self._mut_self = True
                    self.log.append({'rule': 'R12', 'fn': self.fnkey, 'line': self.sf.line_of(t.start),
                                     'what': '`mut self` receiver -> `self`; `let mut self_ = self;` at body entry, '
                                             '`self` -> `self_` in the body'})
                    j = k
                    continue
            if t.kind == 'ident' and in_body and 'R14' in rw:
                # R14 metric-increment: `<path>.metrics.<counter> += 1;` -> `<path>.metrics.<counter> =
                # metric_inc(<path>.metrics.<counter>);` (env function without contract: the new counter value
                # is unspecified, so nothing is claimed about metric counters and their overflow is not decided)
                pk = j - 1
                while pk >= lo and toks[pk].kind in ('ws', 'comment'):
                    pk -= 1
                if not (pk >= lo and toks[pk].kind == 'punct' and toks[pk].text in '.:'):
                    k = j
                    chain = [t.text]
                    while (k + 2 < hi and toks[k + 1].kind == 'punct' and toks[k + 1].text == '.'
                           and toks[k + 2].kind == 'ident'):
                        chain.append(toks[k + 2].text)
                        k += 2
                    q = k + 1
                    while q < hi and toks[q].kind == 'ws':
                        q += 1
                    if (len(chain) >= 2 and chain[-2] == 'metrics' and q + 1 < hi
                            and toks[q].kind == 'punct' and toks[q].text == '+'
                            and toks[q + 1].kind == 'punct' and toks[q + 1].text == '='):
                        q2 = q + 2
                        while q2 < hi and toks[q2].kind == 'ws':
                            q2 += 1
                        if q2 < hi and toks[q2].text == '1':
                            q3 = q2 + 1
                            while q3 < hi and toks[q3].kind == 'ws':
                                q3 += 1
                            if q3 < hi and toks[q3].kind == 'punct' and toks[q3].text in ';}':
                                if chain[0] == 'self' and getattr(self, '_mut_self', False):
                                    chain[0] = 'self_'
                                ctext = '.'.join(chain)
                                self.log.append({'rule': 'R14', 'fn': self.fnkey, 'line': self.sf.line_of(t.start),
                                                 'what': '%s += 1 -> %s = metric_inc(%s)' % (ctext, ctext, ctext)})
                                out('%s = metric_inc(%s)' % (ctext, ctext)
                                    + _nl(''.join(x.text for x in toks[j:q2 + 1])), j)
                                j = q2 + 1
                                continue
            if t.kind == 'ident' and in_body and t.text in getattr(self, '_mut_params', ()):
                pk = j - 1
                while pk >= lo and toks[pk].kind in ('ws', 'comment'):
                    pk -= 1
                if not (pk >= lo and toks[pk].kind == 'punct' and toks[pk].text in '.:'):
                    out(t.text + '_', j)
                    j += 1
                    continue
            if t.kind == 'ident' and t.text == 'self' and in_body and getattr(self, '_mut_self', False):
                out('self_', j)
                j += 1
                continue
            if t.kind == 'ident':
                mo = is_macro_call(toks, j)
                if mo is not None and j + 1 < hi:
                    mc = match_close(toks, mo)
                    full = ''.join(x.text for x in toks[j:mc + 1])
                    line = self.sf.line_of(t.start)
                    if t.text in LOG_MACROS and 'R1' in rw:
                        self.log.append({'rule': 'R1', 'fn': self.fnkey, 'line': line,
                                         'what': 'dropped %s!(..)' % t.text})
                        out('()' + _nl(full), j)
                        j = mc + 1
                        continue
                    if t.text == 'format' and 'R2a' in rw:
                        # R2a (opt-in): `format!("..{a:x}..{b}..")` with inline named arguments only
                        #   ==> `fmt_named("..{a:x}..{b}..", (&a, &b,))`  (env: result is an uninterpreted
                        #   function of the literal and the argument values)
                        inner = [x for x in toks[mo + 1:mc] if x.kind not in ('ws', 'comment')]
                        if len(inner) == 1 and inner[0].kind == 'str' and inner[0].text.startswith('"'):
                            lit = inner[0].text
                            names = re.findall(r'(?<!\{)\{([A-Za-z_][A-Za-z0-9_]*)(?::[^{}]*)?\}', lit.replace('{{', '').replace('}}', ''))
                            holes = re.findall(r'\{[^{}]*\}', lit.replace('{{', '').replace('}}', ''))
                            if names and len(names) == len(holes):
                                self.log.append({'rule': 'R2a', 'fn': self.fnkey, 'line': line,
                                                 'what': 'format!(%s) -> fmt_named(%s, (%s,))' % (lit, lit, ', '.join('&' + n for n in names))})
                                out('fmt_named(%s, (%s,))' % (lit, ', '.join('&' + n for n in names)) + _nl(full), j)
                                j = mc + 1
                                continue
                    if t.text in FMT_MACROS and 'R2' in rw:
                        self.log.append({'rule': 'R2', 'fn': self.fnkey, 'line': line,
                                         'what': '%s!(..) -> fmt_opaque()' % t.text})
                        out('fmt_opaque()' + _nl(full), j)
                        j = mc + 1
                        continue
                    if t.text in WRITE_MACROS and 'R2t' in rw:
                        # R2t (opt-in): `write!(sink, "LIT", args..)` ==> `write_tagged(sink, 0x<H>u64)` where H is
                        # the first 15 hex digits of SHA-256 of the format literal's source text (plus "\n" marker
                        # for writeln!).  The rendered text stays opaque, but a unit can pin WHICH literal is
                        # written where: an edited format string gets another tag.
                        sink = first_macro_arg(toks, mo + 1, mc)
                        rest = [x for x in toks[mo + 1:mc] if x.kind not in ('ws', 'comment')]
                        lit = None
                        depth = 0
                        for qi, x in enumerate(rest):
                            if x.kind == 'punct' and x.text in rustlex.OPEN:
                                depth += 1
                            elif x.kind == 'punct' and x.text in rustlex.CLOSE:
                                depth -= 1
                            elif x.kind == 'punct' and x.text == ',' and depth == 0:
                                if qi + 1 < len(rest) and rest[qi + 1].kind == 'str':
                                    lit = rest[qi + 1].text
                                break
                        if lit is None:
                            raise Undecided('%s: R2t needs a string literal as the format of %s! at line %d'
                                            % (self.fnkey, t.text, line))
                        tag = hashlib.sha256((lit + ('\n' if t.text == 'writeln' else '')).encode()).hexdigest()[:15]
                        self.log.append({'rule': 'R2t', 'fn': self.fnkey, 'line': line,
                                         'what': '%s!(%s, %s, ..) -> write_tagged(%s, 0x%su64)'
                                                 % (t.text, sink, ' '.join(lit.split())[:60], sink, tag)})
                        out('write_tagged(%s, 0x%su64)' % (self._map_paths_text(sink, pathmap), tag) + _nl(full), j)
                        j = mc + 1
                        continue
                    if t.text in WRITE_MACROS and 'R2' in rw:
                        sink = first_macro_arg(toks, mo + 1, mc)
                        self.log.append({'rule': 'R2', 'fn': self.fnkey, 'line': line,
                                         'what': '%s!(%s, ..) -> write_opaque(%s)' % (t.text, sink, sink)})
                        out('write_opaque(%s)' % self._map_paths_text(sink, pathmap) + _nl(full), j)
                        j = mc + 1
                        continue
                # async strip
                if t.text == 'await' and 'R6' in rw:
                    # drop preceding '.' already emitted?  handled below via lookahead
                    pass
                # R20 ghost-clock (opt-in): calls of the functions named in unit.json "clock_calls" get the
                # ghost argument `Tracked(clk)` appended (erased at run time; it only orders the calls)
                if in_body and 'R20' in rw and t.text in self.unit.get('clock_calls', []):
                    q = j + 1
                    while q < hi and toks[q].kind in ('ws', 'comment'):
                        q += 1
                    pk = j - 1
                    while pk >= lo and toks[pk].kind in ('ws', 'comment'):
                        pk -= 1
                    is_def = pk >= lo and toks[pk].kind == 'ident' and toks[pk].text == 'fn'
                    if q < hi and toks[q].kind == 'punct' and toks[q].text == '(' and not is_def:
                        c = match_close(toks, q)
                        inner = [x for x in toks[q + 1:c] if x.kind not in ('ws', 'comment')]
                        sep = '' if (not inner or inner[-1].text == ',') else ', '
                        self.log.append({'rule': 'R20', 'fn': self.fnkey, 'line': self.sf.line_of(t.start),
                                         'what': 'ghost argument Tracked(clk) appended to the call of %s' % t.text})
                        out(t.text, j)
                        self._emit_range(j + 1, c, out, rw, pathmap, in_body, overlay_piece)
                        out('%sTracked(clk))' % sep, c)
                        j = c + 1
                        continue
                # R10: `break VALUE` (always belongs to the innermost enclosing `loop`, which is a value loop)
                if in_body and t.text == 'break' and 'R10' in rw and self._brk:
                    q = j + 1
                    while q < hi and toks[q].kind in ('ws', 'comment'):
                        q += 1
                    if toks[q].kind == 'lifetime':
                        raise Undecided('%s: labelled break inside a value loop is not supported by R10' % self.fnkey)
                    if not (toks[q].kind == 'punct' and toks[q].text in ';,}'):
                        e2 = q
                        while e2 < hi:
                            te = toks[e2]
                            if te.kind == 'punct' and te.text in rustlex.OPEN:
                                e2 = match_close(toks, e2) + 1
                                continue
                            if te.kind == 'punct' and te.text in ',;)]}':
                                break
                            e2 += 1
                        out('{ %s = ' % self._brk[-1], j)
                        self._emit_range(q, e2, out, rw, pathmap, in_body, overlay_piece)
                        out('; break }', e2 - 1)
                        j = e2
                        continue
                # loop anchors
                if in_body and t.text in ('loop', 'while', 'for') and self._is_loop_kw(j):
                    self._loop_no += 1
                    n = self._loop_no
                    vb = None
                    if t.text == 'loop' and 'R10' in rw and self._has_value_break(self._loop_body_open(j, hi)):
                        # R10: `loop { .. break V .. }` ==> `{ let __brkN; loop { .. { __brkN = V; break } .. } __brkN }`
                        vb = '__brk%d' % n
                        self.log.append({'rule': 'R10', 'fn': self.fnkey, 'line': self.sf.line_of(t.start),
                                         'what': 'loop with `break VALUE` desugared: value carried in %s' % vb})
                        out('{ let %s; ' % vb, j)
                    if overlay_piece and n in self.ov['beforeloop']:
                        text, line = self.ov['beforeloop'][n]
                        overlay_piece(text, line, 'beforeloop%d' % n)
                    # find the body '{'
                    b = self._loop_body_open(j, hi)
                    if overlay_piece and n in self.ov.get('loopend', {}):
                        self.__dict__.setdefault('_loopend_at', {})[match_close(toks, b)] = n
                    if overlay_piece and n in self.ov.get('afterloop', {}):
                        # `//@ afterloop N`: ghost statements right after the closing brace of the n-th loop
                        self.__dict__.setdefault('_afterloop_at', {})[match_close(toks, b) + 1] = n
                    des = self._for_mut_iter(j, b) if (t.text == 'for' and 'R9' in rw) else None
                    if des is not None:
                        # R9: `for PAT in &mut IT { B }`  ==>  `loop { match IT.next() { Some(PAT) => { B } None => break, } }`
                        pat, itname = des
                        if itname in getattr(self, '_mut_params', ()):
                            itname = itname + '_'     # R12 renamed this by-value parameter
                        e = match_close(toks, b)
                        self.log.append({'rule': 'R9', 'fn': self.fnkey, 'line': self.sf.line_of(t.start),
                                         'what': 'for %s in &mut %s desugared to loop/match %s.next()' % (pat, itname, itname)})
                        out('loop' + _nl(''.join(x.text for x in toks[j:b])), j)
                        if overlay_piece and n in self.ov['loops']:
                            text, line = self.ov['loops'][n]
                            overlay_piece('\n' + text, line - 1, 'loop%d' % n)
                        out('{', b)
                        if overlay_piece and n in self.ov['loopentry']:
                            text, line = self.ov['loopentry'][n]
                            overlay_piece('\n' + text, line - 1, 'loopentry%d' % n)
                        out(' match %s.next() { Some(%s) => {' % (itname, pat), b)
                        self._emit_range(b + 1, e, out, rw, pathmap, in_body, overlay_piece)
                        out('} None => break, } }', e)
                        j = e + 1
                        continue
                    enu = self._for_enumerate(j, b) if (t.text == 'for' and 'R11' in rw) else None
                    if enu is not None:
                        # R11: `for (I, X) in E.enumerate() { B }`  ==>
                        #   `{ let mut __enum_n: usize = 0; for X in [it:] E { let I = __enum_n; __enum_n += 1; B } }`
                        # (the std definition of Enumerate::next: count is read, then incremented, per item)
                        ivar, xpat, in_kw, dot = enu
                        e = match_close(toks, b)
                        self.log.append({'rule': 'R11', 'fn': self.fnkey, 'line': self.sf.line_of(t.start),
                                         'what': 'for (%s, %s) in <E>.enumerate() desugared to a counter __enum_n over <E>' % (ivar, xpat)})
                        out('{ let mut __enum_n: usize = 0; for %s in' % xpat + _nl(''.join(x.text for x in toks[j:in_kw + 1])), j)
                        if n in self.ov.get('loopvar', {}):
                            out(' %s:' % self.ov['loopvar'][n], in_kw)
                        self._emit_range(in_kw + 1, dot, out, rw, pathmap, in_body, overlay_piece)
                        out(_nl(''.join(x.text for x in toks[dot:b])), dot)
                        if overlay_piece and n in self.ov['loops']:
                            text, line = self.ov['loops'][n]
                            overlay_piece('\n' + text, line - 1, 'loop%d' % n)
                        out('{ let %s = __enum_n; __enum_n += 1;' % ivar, b)
                        if overlay_piece and n in self.ov['loopentry']:
                            text, line = self.ov['loopentry'][n]
                            overlay_piece('\n' + text, line - 1, 'loopentry%d' % n)
                        self._emit_range(b + 1, e, out, rw, pathmap, in_body, overlay_piece)
                        if overlay_piece and e in getattr(self, '_loopend_at', {}):
                            n_end = self._loopend_at.pop(e)
                            text, line = self.ov['loopend'][n_end]
                            overlay_piece('\n' + text, line - 1, 'loopend%d' % n_end)
                        out('} }', e)
                        j = e + 1
                        continue
                    if t.text == 'for' and 'R13' in rw and n not in self.ov.get('loopvar', {}):
                        # R13: `for PAT in EXPR { B }`  ==>
                        #   `{ let mut iter_N = EXPR; loop { match iter_N.next() { Some(PAT) => { B } None => break, } } }`
                        # (std desugaring of `for` with IntoIterator::into_iter being the identity on
                        # an Iterator; if EXPR is not itself an Iterator the result does not type-check
                        # => undecided).  Needed because Verus rejects `continue` inside `for`.
                        q = j + 1
                        while q < b:
                            tq = toks[q]
                            if tq.kind == 'punct' and tq.text in '([':
                                q = match_close(toks, q)
                            elif tq.kind == 'ident' and tq.text == 'in':
                                break
                            q += 1
                        if q >= b:
                            raise Undecided('%s: R13 cannot find `in` of for-loop %d' % (self.fnkey, n))
                        pat = ''.join(x.text for x in toks[j + 1:q] if x.kind != 'comment').strip()
                        itname = 'iter_%d' % n
                        e = match_close(toks, b)
                        self.log.append({'rule': 'R13', 'fn': self.fnkey, 'line': self.sf.line_of(t.start),
                                         'what': 'for %s in EXPR desugared to let mut %s = EXPR; loop/match %s.next()'
                                                 % (pat, itname, itname)})
                        out('{ let mut %s = ' % itname, j)
                        self._emit_range(q + 1, b, out, rw, pathmap, in_body, overlay_piece)
                        out('; ', b)
                        if overlay_piece and n in self.ov.get('afterinit', {}):
                            text, line = self.ov['afterinit'][n]
                            overlay_piece('\n' + text, line - 1, 'afterinit%d' % n)
                        out('loop', b)
                        if overlay_piece and n in self.ov['loops']:
                            text, line = self.ov['loops'][n]
                            overlay_piece('\n' + text, line - 1, 'loop%d' % n)
                        out('{', b)
                        if overlay_piece and n in self.ov['loopentry']:
                            text, line = self.ov['loopentry'][n]
                            overlay_piece('\n' + text, line - 1, 'loopentry%d' % n)
                        out(' match %s.next() { Some(%s) => {' % (itname, pat), b)
                        self._emit_range(b + 1, e, out, rw, pathmap, in_body, overlay_piece)
                        out('} None => break, } } }', e)
                        j = e + 1
                        continue
                    self._emit_range(j, j + 1, lambda tx, k: out(tx, k), set(), {}, False)
                    if t.text == 'for' and n in self.ov.get('loopvar', {}):
                        # R8: name the ghost iterator  `for PAT in it: EXPR`
                        q = j + 1
                        while q < b:
                            tq = toks[q]
                            if tq.kind == 'punct' and tq.text in '([':
                                q = match_close(toks, q)
                            elif tq.kind == 'ident' and tq.text == 'in':
                                break
                            q += 1
                        self._emit_range(j + 1, q + 1, out, rw, pathmap, in_body, overlay_piece)
                        out(' %s:' % self.ov['loopvar'][n], q)
                        self._emit_range(q + 1, b, out, rw, pathmap, in_body, overlay_piece)
                    else:
                        self._emit_range(j + 1, b, out, rw, pathmap, in_body, overlay_piece)
                    if overlay_piece and n in self.ov['loops']:
                        text, line = self.ov['loops'][n]
                        overlay_piece('\n' + text, line - 1, 'loop%d' % n)
                    out('{', b)
                    if overlay_piece and n in self.ov['loopentry']:
                        text, line = self.ov['loopentry'][n]
                        overlay_piece('\n' + text, line - 1, 'loopentry%d' % n)
                    if vb is not None:
                        # R10: the body is emitted with `break V` rewritten, then the value is yielded
                        e = match_close(toks, b)
                        self._brk.append(vb)
                        self._emit_range(b + 1, e, out, rw, pathmap, in_body, overlay_piece)
                        self._brk.pop()
                        out('} %s }' % vb, e)
                        j = e + 1
                        continue
                    j = b + 1
                    continue
                # path mapping
                if pathmap:
                    prev = j - 1
                    while prev >= lo and toks[prev].kind in ('ws', 'comment'):
                        prev -= 1
                    prev_colon = prev >= 1 and toks[prev].text == ':' and toks[prev - 1].text == ':'
                    if not prev_colon:
                        k = j
                        path = [t.text]
                        ends = [j + 1]
                        while (k + 3 < hi and toks[k + 1].text == ':' and toks[k + 2].text == ':'
                               and toks[k + 3].kind == 'ident'):
                            path.append(toks[k + 3].text)
                            k += 3
                            ends.append(k + 1)
                        hit = None
                        for L in range(len(path), 0, -1):
                            key = '::'.join(path[:L])
                            if key in pathmap:
                                hit = (key, ends[L - 1])
                                break
                        if hit:
                            out(pathmap[hit[0]], j)
                            j = hit[1]
                            continue
            # R6: `.await`
            if (t.kind == 'punct' and t.text == '.' and 'R6' in rw and j + 1 < hi
                    and toks[j + 1].kind == 'ident' and toks[j + 1].text == 'await'):
                self.log.append({'rule': 'R6', 'fn': self.fnkey, 'line': self.sf.line_of(t.start),
                                 'what': '.await dropped'})
                j += 2
                continue
            # closure literal anchors:  |args| or move |args|
            if in_body and t.kind == 'punct' and t.text == '|' and self._is_closure_start(j, lo):
                # find closing '|'
                k = j + 1
                if toks[k].kind == 'punct' and toks[k].text == '|':
                    ce = k
                else:
                    depth = 0
                    while k < hi:
                        tk = toks[k]
                        if tk.kind == 'punct' and tk.text in '([<':
                            depth += 1
                        elif tk.kind == 'punct' and tk.text in ')]>':
                            depth -= 1
                        elif tk.kind == 'punct' and tk.text == '|' and depth <= 0:
                            break
                        k += 1
                    ce = k
                self._closure_no += 1
                n = self._closure_no
                if overlay_piece:
                    # named closure anchor: `RECV.METHOD(|..| ..)` -- the callee's name and a per-name ordinal
                    # (looks left of `lo` on purpose: inside a recursive emission, e.g. the argument list of an
                    # R20 clocked call, `lo` is the token after the `(`)
                    pk = j - 1
                    while pk >= 0 and toks[pk].kind in ('ws', 'comment'):
                        pk -= 1
                    callee = None
                    later_arg = False
                    if pk >= 0 and toks[pk].kind == 'punct' and toks[pk].text == ',':
                        # a later argument (`m.update_origin(v4, |m| ..)`): walk back to the call's `(`
                        depth = 0
                        qk = pk - 1
                        while qk >= 0:
                            tq = toks[qk]
                            if tq.kind == 'punct' and tq.text in rustlex.CLOSE:
                                depth += 1
                            elif tq.kind == 'punct' and tq.text in rustlex.OPEN:
                                if depth == 0:
                                    break
                                depth -= 1
                            elif tq.kind == 'punct' and tq.text in ';{}' and depth == 0:
                                qk = -1
                                break
                            qk -= 1
                        if qk >= 0 and toks[qk].text == '(':
                            pk = qk
                            later_arg = True
                    if pk >= 0 and toks[pk].kind == 'punct' and toks[pk].text == '(':
                        pk -= 1
                        while pk >= 0 and toks[pk].kind in ('ws', 'comment'):
                            pk -= 1
                        if pk >= 0 and toks[pk].kind == 'ident':
                            # later-argument closures are named `METHOD:n` (own ordinal space, so the
                            # ordinals of first-argument closures of the same METHOD do not move)
                            callee = toks[pk].text + (':n' if later_arg else '')
                    if callee is not None:
                        cnt = self.__dict__.setdefault('_closure_by_callee', {})
                        cnt[callee] = cnt.get(callee, 0) + 1
                        key = (callee, cnt[callee])
                        self.log.append({'rule': 'closure-map', 'fn': self.fnkey, 'line': self.sf.line_of(t.start),
                                         'what': 'closure %d is `%s %d`' % (n, callee, cnt[callee])})
                        if key in self.ov.get('closures_named', {}) and key in self.ov.get('optional_named', set()) \
                                and not self._closure_params_match(j, ce, self.ov['closures_named'][key][0]):
                            # an OPTIONAL named annotation whose parameter names differ from the closure literal's:
                            # the code now passes a different closure to this callee; the annotated header would not
                            # bind the names its body uses, so the annotation is not applied (it only adds knowledge)
                            self.log.append({'rule': 'R8c', 'fn': self.fnkey, 'line': self.sf.line_of(t.start),
                                             'what': 'optional closure annotation `%s %d` not applied: parameter names differ' % key})
                            self.__dict__.setdefault('_named_used', set()).add(key)
                        elif key in self.ov.get('closures_named', {}):
                            if n in self.ov['closures']:
                                raise Undecided('%s: closure %d is annotated both by ordinal and as %s %d'
                                                % (self.fnkey, n, callee, cnt[callee]))
                            self.ov['closures'][n] = self.ov['closures_named'][key]
                            self.__dict__.setdefault('_named_used', set()).add(key)
                if overlay_piece and n in self.ov.get('closureopaque', {}):
                    # R17 closure-opaque: the whole n-th closure literal (header and body) is replaced by
                    # the env expression given in `//@ closureopaque n EXPR` (an assumed `impl FnMut..`
                    # value).  The body is NOT verified in this unit and closures nested in it are not
                    # counted; only obligations that hold before the closure can first run (call-site
                    # preconditions of the function it is passed to) may be claimed from such a function.
                    expr, oline = self.ov['closureopaque'][n]
                    q = ce + 1
                    while q < hi and toks[q].kind in ('ws', 'comment'):
                        q += 1
                    if toks[q].kind == 'punct' and toks[q].text == '-' and toks[q + 1].text == '>':
                        while not (toks[q].kind == 'punct' and toks[q].text == '{'):
                            q += 1
                    if toks[q].kind == 'punct' and toks[q].text == '{':
                        end = match_close(toks, q) + 1
                    else:
                        end = q
                        while end < hi:
                            te = toks[end]
                            if te.kind == 'punct' and te.text in rustlex.OPEN:
                                end = match_close(toks, end) + 1
                                continue
                            if te.kind == 'punct' and te.text in ',)]};':
                                break
                            end += 1
                    orig = ''.join(x.text for x in toks[j:end])
                    self.log.append({'rule': 'R17', 'fn': self.fnkey, 'line': self.sf.line_of(t.start),
                                     'what': 'closure %d (%d lines) replaced by the env expression `%s`; its body is not '
                                             'part of this unit' % (n, orig.count('\n') + 1, expr)})
                    overlay_piece(expr, oline, 'closureopaque%d' % n)
                    out(_nl(orig), j)
                    j = end
                    continue
                if overlay_piece and n in self.ov['closures']:
                    text, line = self.ov['closures'][n]
                    orig = ''.join(x.text for x in toks[j:ce + 1])
                    self.log.append({'rule': 'R8c', 'fn': self.fnkey, 'line': self.sf.line_of(t.start),
                                     'what': 'closure header %s replaced by annotated header' % orig})
                    overlay_piece(text, line, 'closure%d' % n)
                    out(_nl(orig), j)
                    # R4c: a tuple-pattern parameter `(a, b)` of the ORIGINAL header (k-th parameter) is
                    # re-bound at the start of the closure body from the annotated header's `__cpK`
                    r4c = self._closure_tuple_params(j, ce)
                    for letstmt in r4c:
                        self.log.append({'rule': 'R4c', 'fn': self.fnkey, 'line': self.sf.line_of(t.start),
                                         'what': 'closure %d: tuple-pattern parameter destructured at body entry: %s'
                                                 % (n, letstmt)})
                    j = ce + 1
                    # an annotated closure needs a block body: wrap a bare expression body
                    q = j
                    while q < hi and toks[q].kind in ('ws', 'comment'):
                        q += 1
                    if r4c and toks[q].kind == 'punct' and toks[q].text == '{':
                        out('{ ' + ' '.join(r4c) + ' ', q)
                        j = q + 1
                        continue
                    if not (toks[q].kind == 'punct' and toks[q].text == '{'):
                        e = q
                        while e < hi:
                            te = toks[e]
                            if te.kind == 'punct' and te.text in rustlex.OPEN:
                                e = match_close(toks, e) + 1
                                continue
                            if te.kind == 'punct' and te.text in ',)]};':
                                break
                            e += 1
                        out('{' + (' ' + ' '.join(r4c) + ' ' if r4c else ''), q)
                        self._emit_range(q, e, out, rw, pathmap, in_body, overlay_piece)
                        out('}', e - 1)
                        j = e
                    continue
                else:
                    r22 = self._auto_closure(j, ce, hi, pathmap) if overlay_piece else None
                    orc = self.unit.get('_oracle') or {}
                    orc_here = r22 is None and overlay_piece and (callee or '?') in orc.get(self.fnkey, ())
                    if orc_here:
                        # oracle mode (vunit, second opinion on a failure in a function that has gained a closure
                        # without a contract): the CALL that receives the closure is followed by `.__orc()`, an
                        # assumed identity whose postcondition is `false`, so every path through that call is
                        # discharged vacuously; an obligation that STILL fails does not depend on what the closure
                        # returns. Never used for a result that is reported as proved.
                        k2 = j - 1
                        depth = 0
                        open_idx = None
                        while k2 >= lo:
                            tk = toks[k2]
                            if tk.kind == 'punct' and tk.text in ')]}':
                                depth += 1
                            elif tk.kind == 'punct' and tk.text in '([{':
                                if depth == 0:
                                    open_idx = k2 if tk.text == '(' else None
                                    break
                                depth -= 1
                            k2 -= 1
                        if open_idx is not None:
                            self.__dict__.setdefault('_orc_after', set()).add(match_close(toks, open_idx))
                            self.log.append({'rule': 'oracle', 'fn': self.fnkey, 'line': self.sf.line_of(t.start),
                                             'what': 'the call receiving closure %d is followed by .__orc() (oracle mode)' % n})
                    for q in range(j, ce + 1):
                        out(toks[q].text, q)
                    j = ce + 1
                    if r22 is None and overlay_piece:
                        # a closure the verifier knows nothing about (no annotation, no automatic postcondition):
                        # recorded so that vunit can compare with the unit's closure fingerprint
                        self.log.append({'rule': 'opaque-closure', 'fn': self.fnkey, 'line': self.sf.line_of(t.start),
                                         'callee': callee or '?', 'what': 'closure %d (argument of `%s`) has no contract' % (n, callee or '?')})
                    if r22 is not None:
                        # R22 auto-closure-ensures: an un-annotated closure whose body is one side-effect-free
                        # expression gets the postcondition "result == that expression", so that a combinator
                        # receiving it (map, map_or, unwrap_or_else, ..) knows what it computes.
                        marker, b_lo, b_hi, spec_text = r22
                        self.log.append({'rule': 'R22', 'fn': self.fnkey, 'line': self.sf.line_of(t.start),
                                         'what': 'closure %d: automatic postcondition `%s == %s`'
                                                 % (n, marker, ' '.join(spec_text.split())[:120])})
                        out(' -> (%s: _) ensures __same_val(%s, %s) {' % (marker, marker, ' '.join(spec_text.split())), j - 1)
                        self._emit_range(b_lo, b_hi, out, rw, pathmap, in_body, overlay_piece)
                        out('}', b_hi - 1)
                        j = b_hi
                    continue
            if (in_body and t.kind == 'punct' and t.text == '?' and self.unit.get('_try_convert')):
                # R21 try-convert (item key "try_convert": "<ErrType>"): `E?` -> `E.q_into::<ErrType>()?`.
                # `q_into` (declare the VERIFIED helper trait TryConvert in the overlay prelude) performs the
                # From conversion that `?` implies; Verus models `?` itself without it, so the converted error
                # would otherwise be unknown. The remaining `?` converts ErrType to itself.
                self.log.append({'rule': 'R21', 'fn': self.fnkey, 'line': self.sf.line_of(t.start),
                                 'what': '`?` -> `.q_into::<%s>()?`' % self.unit['_try_convert']})
                out('.q_into::<%s>()?' % self.unit['_try_convert'], j)
                j += 1
                continue
            out(t.text, j)
            if j in getattr(self, '_orc_after', ()):
                out('.__orc()', j)
            j += 1

    def _closure_params_match(self, bar_o, bar_c, header_text):
        """Do the plain-identifier parameters of the closure literal toks[bar_o..bar_c] carry the same names, in order,
        as the annotated header text `|a: T, b: U| -> ..`?  Pattern parameters (tuples, `_`) count as matching."""
        toks = self.sf.toks
        def names(seq):
            out, depth, expect = [], 0, True
            for kind, text in seq:
                if kind in ('ws', 'comment'):
                    continue
                if kind == 'punct' and text in '([<':
                    if expect:
                        out.append(None); expect = False
                    depth += 1
                elif kind == 'punct' and text in ')]>':
                    depth -= 1
                elif depth == 0 and kind == 'punct' and text == ',':
                    expect = True
                elif expect and kind == 'ident':
                    if text in ('mut', 'ref'):
                        continue
                    out.append(None if text.startswith('_') else text); expect = False
                elif expect and kind == 'punct' and text == '&':
                    continue
                elif expect:
                    out.append(None); expect = False
            return out
        orig = names([(x.kind, x.text) for x in toks[bar_o + 1:bar_c]])
        m = re.match(r'\s*(?:move\s+)?\|(.*?)\|', header_text, re.S)
        if not m:
            return True
        try:
            ann = names([(x.kind, x.text) for x in lex(m.group(1))])
        except Exception:
            return True
        if len(orig) != len(ann):
            return False
        return all(a is None or b is None or a == b for a, b in zip(orig, ann))

    def _auto_closure(self, bar_o, bar_c, hi, pathmap):
        """R22: (marker, body_lo, body_hi, spec_text) if the closure literal whose header is toks[bar_o..bar_c]
        qualifies for an automatic postcondition, else None.  Qualifies: every parameter is a plain identifier
        (optionally typed), no declared return type, and the body is a single expression without statements,
        loops, jumps, `?`, `.await`, macros, nested closures, assignments or `&mut`."""
        toks = self.sf.toks
        off = self.unit.get('_auto_off')
        if off == 'ALL':
            return None
        # parameters
        params = [x for x in toks[bar_o + 1:bar_c] if x.kind not in ('ws', 'comment')]
        depth = 0
        expect_name = True
        for x in params:
            if x.kind == 'punct' and x.text in '(<[':
                if expect_name:
                    return None          # pattern parameter
                depth += 1
            elif x.kind == 'punct' and x.text in ')>]':
                depth -= 1
            elif depth == 0 and x.kind == 'punct' and x.text == ',':
                expect_name = True
            elif expect_name:
                if x.kind != 'ident' or x.text in ('mut', 'ref', '_') or x.text.startswith('_'):
                    return None
                expect_name = False
            elif depth == 0 and x.kind == 'punct' and x.text not in (':', '&', "'"):
                if x.text not in ('::',):
                    return None
        q = bar_c + 1
        while q < hi and toks[q].kind in ('ws', 'comment'):
            q += 1
        if q >= hi:
            return None
        if toks[q].kind == 'punct' and toks[q].text == '-':
            return None                  # declared return type: leave alone
        if toks[q].kind == 'punct' and toks[q].text == '{':
            e = match_close(toks, q) + 1
        else:
            e = q
            while e < hi:
                te = toks[e]
                if te.kind == 'punct' and te.text in rustlex.OPEN:
                    e = match_close(toks, e) + 1
                    continue
                if te.kind == 'punct' and te.text in ',)]};':
                    break
                e += 1
        body = toks[q:e]
        sig = [x for x in body if x.kind not in ('ws', 'comment')]
        if not sig or len(sig) > 120:
            return None
        for i, x in enumerate(sig):
            nxt = sig[i + 1] if i + 1 < len(sig) else None
            prv = sig[i - 1] if i else None
            if x.kind == 'ident' and x.text in ('for', 'while', 'loop', 'return', 'break', 'continue', 'let',
                                                 'unsafe', 'async', 'await', 'move', 'mut', 'fn', 'static', 'const'):
                return None
            if x.kind == 'ident' and nxt is not None and nxt.kind == 'punct' and nxt.text == '!' \
                    and i + 2 < len(sig) and sig[i + 2].kind == 'punct' and sig[i + 2].text in '([{':
                return None              # macro call
            if x.kind == 'punct' and x.text in (';', '?'):
                return None
            if x.kind == 'punct' and x.text == '|':
                return None              # nested closure or `|`/`||`: Verus rejects `|` on bools; keep out
            if x.kind == 'punct' and x.text == '=':
                # only as part of == <= >= != =>
                ok = False
                if nxt is not None and nxt.kind == 'punct' and nxt.text in ('=', '>') and nxt.start == x.start + 1:
                    ok = True
                if prv is not None and prv.kind == 'punct' and prv.text in ('=', '<', '>', '!') and prv.start + 1 == x.start:
                    ok = True
                if not ok:
                    return None
        self.unit['_auto_seq'][0] += 1
        marker = '__ar_%s_%d' % (re.sub(r'\W+', '_', self.fnkey), self._closure_no)
        if isinstance(off, (set, frozenset, list)) and marker in off:
            return None
        spec_text = self._map_tokens(list(body), pathmap)
        return marker, q, e, spec_text

    def _closure_tuple_params(self, bar_o, bar_c):
        """`let PAT = __cpK;` for every parameter K of the closure header toks[bar_o..bar_c]
        that is a tuple pattern."""
        toks = self.sf.toks
        lets = []
        k = bar_o + 1
        seg = k
        idx = 0
        angle = 0
        while k <= bar_c:
            tk = toks[k]
            if k < bar_c and tk.kind == 'punct' and tk.text in '([':
                k = match_close(toks, k) + 1
                continue
            if k < bar_c and tk.kind == 'punct' and tk.text == '<':
                angle += 1
            elif k < bar_c and tk.kind == 'punct' and tk.text == '>' and angle and toks[k - 1].text not in ('-', '='):
                angle -= 1
            if k == bar_c or (tk.kind == 'punct' and tk.text == ',' and angle == 0):
                idx += 1
                q = seg
                while q < k and toks[q].kind in ('ws', 'comment'):
                    q += 1
                if q < k and toks[q].kind == 'punct' and toks[q].text == '(':
                    pc = match_close(toks, q)
                    pat = ' '.join(''.join(x.text for x in toks[q:pc + 1] if x.kind != 'comment').split())
                    lets.append('let %s = __cp%d;' % (pat, idx))
                seg = k + 1
            k += 1
        return lets

    # ---- R3 helpers (for_each) ------------------------------------------
    def _beforecall_map(self):
        """token index of a statement start -> (NAME, K) for every `//@ beforecall NAME K` section."""
        if hasattr(self, '_bc_map'):
            return self._bc_map
        toks = self.sf.toks
        lo, hi = self.bo + 1, self.e
        counts = {}
        res = {}
        want = self.ov.get('beforecall', {})
        j = lo
        while j < hi:
            t = toks[j]
            if t.kind == 'ident' and any(t.text == nm for nm, _ in want):
                q = j + 1
                while q < hi and toks[q].kind in ('ws', 'comment'):
                    q += 1
                if q < hi and toks[q].kind == 'punct' and toks[q].text == '(':
                    counts[t.text] = counts.get(t.text, 0) + 1
                    key = (t.text, counts[t.text])
                    if key in want:
                        # walk left to the start of the enclosing statement
                        k = j - 1
                        depth = 0
                        while k >= lo:
                            tk = toks[k]
                            if tk.kind == 'punct' and tk.text in ')]':
                                depth += 1
                            elif tk.kind == 'punct' and tk.text in '([':
                                depth -= 1
                                if depth < 0:
                                    depth = 0    # the call sits inside an argument list: keep walking left
                            elif tk.kind == 'punct' and tk.text == '}' and depth == 0:
                                break
                            elif tk.kind == 'punct' and tk.text in '{;' and depth == 0:
                                break
                            k -= 1
                        st = k + 1
                        while st < j and toks[st].kind in ('ws', 'comment'):
                            st += 1
                        res[st] = key
            j += 1
        missing = [k for k in want if k not in res.values()]
        if missing:
            raise Undecided('%s: overlay names call `%s %d` but the function has no such call (lost anchor)'
                            % (self.fnkey, missing[0][0], missing[0][1]))
        self._bc_map = res
        return res

    def _stmt_start(self, j, lo):
        """toks[j] is the first token of a statement / tail expression."""
        toks = self.sf.toks
        k = j - 1
        while k >= lo and toks[k].kind in ('ws', 'comment'):
            k -= 1
        if k < lo:
            return True
        return toks[k].kind == 'punct' and toks[k].text in '{;}'

    def _match_for_each(self, j, hi):
        """If the statement starting at toks[j] is exactly
        `X.for_each(|PAT| BODY)` (optionally followed by `;`), return
        (dot, pat_lo, pat_hi, body_lo, body_hi, close) token indices, else None."""
        toks = self.sf.toks
        t = toks[j]
        if t.kind == 'ident' and t.text in ('if', 'match', 'loop', 'while', 'for', 'let', 'return',
                                            'unsafe', 'break', 'continue', 'use', 'fn', 'else'):
            return None
        if not (t.kind == 'ident' or (t.kind == 'punct' and t.text in '(&*')):
            return None
        k = j
        last = None
        while k < hi:
            tk = toks[k]
            if tk.kind == 'punct' and tk.text in '([':
                k = match_close(toks, k) + 1
                continue
            if tk.kind == 'punct' and tk.text in '{}':
                break
            if tk.kind == 'punct' and tk.text in ';)]':
                break
            if (tk.kind == 'punct' and tk.text == '.' and k + 1 < hi and toks[k + 1].kind == 'ident'
                    and toks[k + 1].text == 'for_each'):
                q = k + 2
                while q < hi and toks[q].kind in ('ws', 'comment'):
                    q += 1
                if q < hi and toks[q].kind == 'punct' and toks[q].text == '(':
                    last = (k, q)
            k += 1
        if last is None:
            return None
        dot, po = last
        pc = match_close(toks, po)
        # the call must end the statement
        q = pc + 1
        while q < hi and toks[q].kind in ('ws', 'comment'):
            q += 1
        if q < hi and not (toks[q].kind == 'punct' and toks[q].text in ';}'):
            return None
        # single closure argument |PAT| BODY
        q = po + 1
        while q < pc and toks[q].kind in ('ws', 'comment'):
            q += 1
        if not (toks[q].kind == 'punct' and toks[q].text == '|'):
            return None
        pat_lo = q + 1
        k = pat_lo
        depth = 0
        while k < pc:
            tk = toks[k]
            if tk.kind == 'punct' and tk.text in '([<':
                depth += 1
            elif tk.kind == 'punct' and tk.text in ')]>':
                depth -= 1
            elif tk.kind == 'punct' and tk.text == ':' and depth <= 0:
                return None      # typed closure parameter: not a `for` pattern
            elif tk.kind == 'punct' and tk.text == ',' and depth <= 0:
                return None      # more than one parameter
            elif tk.kind == 'punct' and tk.text == '|' and depth <= 0:
                break
            k += 1
        if k >= pc or k == pat_lo:
            return None
        pat_hi = k
        body_lo = k + 1
        body_hi = pc
        # trailing comma of the argument list
        q = pc - 1
        while q > body_lo and toks[q].kind in ('ws', 'comment'):
            q -= 1
        if toks[q].kind == 'punct' and toks[q].text == ',':
            body_hi = q
        return dot, pat_lo, pat_hi, body_lo, body_hi, pc

    def _emit_for_each(self, j, fe, out, rw, pathmap, overlay_piece):
        toks = self.sf.toks
        dot, pat_lo, pat_hi, body_lo, body_hi, pc = fe
        self._loop_no += 1
        n = self._loop_no
        pat = ' '.join(''.join(x.text for x in toks[pat_lo:pat_hi] if x.kind != 'comment').split())
        self.log.append({'rule': 'R3', 'fn': self.fnkey, 'line': self.sf.line_of(toks[j].start),
                         'what': '%s.for_each(|%s| ..) rewritten to `for %s in %s { .. }`' % (
                             ''.join(x.text for x in toks[j:dot]).strip(), pat, pat,
                             ''.join(x.text for x in toks[j:dot]).strip())})
        if overlay_piece and n in self.ov['beforeloop']:
            text, line = self.ov['beforeloop'][n]
            overlay_piece(text, line, 'beforeloop%d' % n)
        out('for %s in ' % pat, j)
        if n in self.ov.get('loopvar', {}):
            out('%s: ' % self.ov['loopvar'][n], j)
        self._emit_range(j, dot, out, rw, pathmap, True, overlay_piece)
        out(_nl(''.join(x.text for x in toks[dot:body_lo])), dot)
        if overlay_piece and n in self.ov['loops']:
            text, line = self.ov['loops'][n]
            overlay_piece('\n' + text, line - 1, 'loop%d' % n)
        out(' {', body_lo)
        if overlay_piece and n in self.ov['loopentry']:
            text, line = self.ov['loopentry'][n]
            overlay_piece('\n' + text, line - 1, 'loopentry%d' % n)
        self._emit_range(body_lo, body_hi, out, rw, pathmap, True, overlay_piece)
        out(' }' + _nl(''.join(x.text for x in toks[body_hi:pc + 1])), pc)
        return pc + 1

    # ------------------------------------------------------------ R18 unit-level env calls
    _R18_KW = ('if', 'match', 'while', 'return', 'in', 'let', 'else', 'for', 'loop', 'move', 'as', 'mut',
               'ref', 'break', 'continue', 'where', 'unsafe', 'dyn', 'impl', 'fn')

    def _r18_starts(self):
        """receiver start token index -> list of (dot, name_idx, po, pc, envfn), outermost call first."""
        if hasattr(self, '_r18_cache'):
            return self._r18_cache
        res = {}
        toks = self.sf.toks
        lo, hi = self.bo + 1, self.e
        calls = self.unit.get('envcalls', {})
        sig = [k for k in range(lo, hi) if toks[k].kind not in ('ws', 'comment')]
        pos = {k: n for n, k in enumerate(sig)}

        def prev(k):
            n = pos[k] - 1
            return sig[n] if n >= 0 else None

        def open_of(k):
            depth = 0
            q = k
            while q is not None:
                tq = toks[q]
                if tq.kind == 'punct' and tq.text in ')]}':
                    depth += 1
                elif tq.kind == 'punct' and tq.text in '([{':
                    depth -= 1
                    if depth == 0:
                        return q
                q = prev(q)
            return None

        for n, k in enumerate(sig):
            t = toks[k]
            if not (t.kind == 'punct' and t.text == '.' and n + 2 < len(sig)):
                continue
            nm, po = sig[n + 1], sig[n + 2]
            if not (toks[nm].kind == 'ident' and toks[nm].text in calls and toks[po].text == '('):
                continue
            if n + 3 < len(sig) and toks[sig[n + 3]].text == '&':
                continue    # `a.eq(&b)`: PartialEq-style call by reference, not an iterator method
            # walk the receiver back
            q = prev(k)
            start = None
            need_operand = True
            while q is not None:
                tq = toks[q]
                if need_operand:
                    if tq.kind == 'punct' and tq.text in ')]':
                        o = open_of(q)
                        if o is None:
                            break
                        start = o
                        p2 = prev(o)
                        if (tq.text == ')' and p2 is not None and toks[p2].kind == 'ident'
                                and toks[p2].text not in self._R18_KW):
                            q = p2          # `name(args)`: the callee name is the operand
                            continue
                        if tq.text == ']' and p2 is not None:
                            q = p2          # indexing: the indexed expression continues the operand
                            continue
                        need_operand = False
                        q = p2
                        continue
                    if tq.kind == 'ident' and tq.text not in self._R18_KW:
                        start = q
                        need_operand = False
                        q = prev(q)
                        continue
                    if tq.kind == 'punct' and tq.text == '?':
                        q = prev(q)
                        continue
                    start = None if start is None else start
                    break
                else:
                    if tq.kind == 'punct' and tq.text == '.':
                        need_operand = True
                        q = prev(q)
                        continue
                    if (tq.kind == 'punct' and tq.text == ':' and prev(q) is not None
                            and toks[prev(q)].text == ':'):
                        need_operand = True
                        q = prev(prev(q))
                        continue
                    break
            if start is None or need_operand and q is not None and start is None:
                continue
            res.setdefault(start, []).append((k, nm, po, match_close(toks, po), calls[toks[nm].text]))
        for st in res:
            res[st].sort(key=lambda c: -c[0])
        self._r18_cache = res
        return res

    def _emit_r18(self, j, out, rw, pathmap, overlay_piece):
        toks = self.sf.toks
        lst = self._r18_cache[j]
        dot, nm, po, pc, envfn = lst.pop(0)
        if not lst:
            del self._r18_cache[j]
        self.log.append({'rule': 'R18', 'fn': self.fnkey, 'line': self.sf.line_of(toks[dot].start),
                         'what': '%s.%s(..) -> %s(%s, ..)' % (' '.join(''.join(x.text for x in toks[j:dot]).split())[:60],
                                                              toks[nm].text, envfn,
                                                              ' '.join(''.join(x.text for x in toks[j:dot]).split())[:60])})
        out('%s(' % envfn, j)
        self._emit_range(j, dot, out, rw, pathmap, True, overlay_piece)
        args = [q for q in range(po + 1, pc) if toks[q].kind not in ('ws', 'comment')]
        out(_nl(''.join(x.text for x in toks[dot:po + 1])) + (', ' if args else ''), dot)
        self._emit_range(po + 1, pc, out, rw, pathmap, True, overlay_piece)
        out(')', pc)
        return pc + 1

    # ------------------------------------------------------------ R16 env call
    def _match_envcall(self, j, lo, hi):
        """toks[j] is an identifier that starts an expression `IDENT . METHOD ( )`."""
        toks = self.sf.toks
        k = j - 1
        while k >= lo and toks[k].kind in ('ws', 'comment'):
            k -= 1
        if k >= lo and toks[k].kind == 'punct' and toks[k].text in '.:':
            return None          # a field / path segment, not a plain variable
        seq = []
        q = j + 1
        while q < hi and len(seq) < 4:
            if toks[q].kind not in ('ws', 'comment'):
                seq.append(q)
            q += 1
        if len(seq) < 4:
            return None
        a, b, c, d = seq
        if not (toks[a].text == '.' and toks[b].kind == 'ident' and toks[c].text == '(' and toks[d].text == ')'):
            return None
        ent = self.ov['envcall'].get(toks[b].text)
        if ent is None:
            return None
        envfn, idents = ent
        if idents and toks[j].text not in idents:
            return None
        return envfn, d + 1

    # ------------------------------------------------------------ R15 closure-call naming
    def _r15_starts(self):
        """token index of the receiver start -> (n, dot, name_idx, paren_open, paren_close, bar_open)
        for every closure n that has a `//@ closurecall n` section."""
        if hasattr(self, '_r15_cache'):
            return self._r15_cache
        res = {}
        toks = self.sf.toks
        lo = self.bo + 1
        for n in sorted(self.ov.get('closurecall', {})):
            bar_o, bar_c, b_lo, b_hi, is_block = self._find_closure(n)
            # the closure must be the sole argument of a method call: `. name ( |..| B )`
            k = bar_o - 1
            while k >= lo and toks[k].kind in ('ws', 'comment'):
                k -= 1
            if not (toks[k].kind == 'punct' and toks[k].text == '('):
                raise Undecided('%s: closurecall %d: the closure is not the first argument of a call' % (self.fnkey, n))
            po = k
            pc = match_close(toks, po)
            q = (b_hi + 1) if is_block else b_hi
            while q < pc and toks[q].kind in ('ws', 'comment'):
                q += 1
            if q < pc and toks[q].kind == 'punct' and toks[q].text == ',':
                q += 1
                while q < pc and toks[q].kind in ('ws', 'comment'):
                    q += 1
            if q != pc:
                raise Undecided('%s: closurecall %d: the closure is not the sole argument of the call' % (self.fnkey, n))
            k = po - 1
            while k >= lo and toks[k].kind in ('ws', 'comment'):
                k -= 1
            if toks[k].kind != 'ident':
                raise Undecided('%s: closurecall %d: callee is not a method name' % (self.fnkey, n))
            name_idx = k
            k -= 1
            while k >= lo and toks[k].kind in ('ws', 'comment'):
                k -= 1
            if not (toks[k].kind == 'punct' and toks[k].text == '.'):
                raise Undecided('%s: closurecall %d: callee is not a method call' % (self.fnkey, n))
            dot = k
            # receiver: a postfix chain of identifiers, fields and argument lists  a.b(..).c  that
            # contains no closure literal (hoisting the closure literal in front of it then cannot
            # change behaviour: creating a closure has no effect)
            k = dot - 1
            start = None
            expect_operand = True
            while k >= lo:
                tk = toks[k]
                if tk.kind in ('ws', 'comment'):
                    k -= 1
                    continue
                if expect_operand and tk.kind == 'punct' and tk.text == ')':
                    depth = 0
                    q = k
                    while q >= lo:
                        tq = toks[q]
                        if tq.kind == 'punct' and tq.text in ')]}':
                            depth += 1
                        elif tq.kind == 'punct' and tq.text in '([{':
                            depth -= 1
                            if depth == 0:
                                break
                        q -= 1
                    if q < lo or toks[q].text != '(':
                        break
                    if any(x.kind == 'punct' and x.text == '|' for x in toks[q:k + 1]):
                        raise Undecided('%s: closurecall %d: receiver contains a closure' % (self.fnkey, n))
                    k = q - 1          # the callee name must follow (going left)
                    continue
                if expect_operand and tk.kind == 'ident':
                    start = k
                    expect_operand = False
                    k -= 1
                    continue
                if (not expect_operand) and tk.kind == 'punct' and tk.text == '.':
                    expect_operand = True
                    k -= 1
                    continue
                break
            if start is None or expect_operand:
                raise Undecided('%s: closurecall %d: receiver is not a postfix chain of names and calls' % (self.fnkey, n))
            res[start] = (n, dot, name_idx, po, pc, bar_o)
        self._r15_cache = res
        return res

    def _emit_closurecall(self, j, info, out, rw, pathmap, overlay_piece):
        toks = self.sf.toks
        n, dot, name_idx, po, pc, bar_o = info
        recv = ''.join(x.text for x in toks[j:dot] if x.kind != 'comment').strip()
        meth = toks[name_idx].text
        self.log.append({'rule': 'R15', 'fn': self.fnkey, 'line': self.sf.line_of(toks[j].start),
                         'what': '%s.%s(<closure %d>) rewritten to { let __i%d = %s; let __r%d = __i%d.%s(<closure %d>); '
                                 '<ghost> __r%d }' % (recv, meth, n, n, recv, n, n, meth, n, n)})
        out('{ let __i%d = ' % n, j)
        self._emit_range(j, dot, out, set(), pathmap, False)
        via = self.ov.get('closurecall_via', {}).get(n)
        if via:
            self.log.append({'rule': 'R15', 'fn': self.fnkey, 'line': self.sf.line_of(toks[j].start),
                             'what': '__i%d.%s(<closure %d>) called through the overlay wrapper %s(__i%d, <closure %d>)'
                                     % (n, meth, n, via, n, n)})
            out('; let __r%d = %s(__i%d, ' % (n, via, n) + _nl(''.join(x.text for x in toks[dot:po + 1])), dot)
        else:
            out('; let __r%d = __i%d' % (n, n), dot)
            self._emit_range(dot, po + 1, out, set(), pathmap, False)
        # the closure literal itself goes through the normal path (R8c header replacement, numbering)
        self._emit_range(po + 1, pc, out, rw, pathmap, True, overlay_piece)
        out('); ', pc)
        text, line = self.ov['closurecall'][n]
        overlay_piece('\n' + text, line - 1, 'closurecall%d' % n)
        out(' __r%d }' % n, pc)
        return pc + 1

    # ------------------------------------------------------------ R7 closure-lift
    def closure_ordinal(self, spec):
        """`"closure": N` or `"closure": "CALLEE K"` (the K-th closure literal that is the first argument of a
        call of CALLEE; robust against closures inserted elsewhere) -> textual ordinal N."""
        if isinstance(spec, int) or str(spec).isdigit():
            return int(spec)
        parts = str(spec).split()
        if len(parts) != 2 or not parts[1].isdigit():
            raise Undecided('%s: "closure" must be N or "CALLEE K"' % self.fnkey)
        want, k = parts[0], int(parts[1])
        toks = self.sf.toks
        seen = 0
        n = 1
        while True:
            try:
                bar_o = self._find_closure(n)[0]
            except Undecided:
                raise Undecided('%s: no closure `%s %d` (lost anchor)' % (self.fnkey, want, k))
            pk = bar_o - 1
            while pk >= 0 and toks[pk].kind in ('ws', 'comment'):
                pk -= 1
            if pk >= 0 and toks[pk].kind == 'ident' and toks[pk].text == 'move':
                pk -= 1
                while pk >= 0 and toks[pk].kind in ('ws', 'comment'):
                    pk -= 1
            callee = '?'       # `?`: not the first argument of a call
            if pk >= 0 and toks[pk].kind == 'punct' and toks[pk].text == '(':
                pk -= 1
                while pk >= 0 and toks[pk].kind in ('ws', 'comment'):
                    pk -= 1
                if pk >= 0 and toks[pk].kind == 'ident':
                    callee = toks[pk].text
            if callee == want:
                seen += 1
                if seen == k:
                    return n
            n += 1

    def _find_closure(self, n):
        """Locate the n-th closure literal of this function's body (same textual
        order and the same skipping of dropped macro calls as _emit_range).
        Returns (bar_open, bar_close, body_lo, body_hi, is_block): the header is
        toks[bar_open..bar_close], the body is toks[body_lo:body_hi]."""
        toks = self.sf.toks
        rw = set(self.unit.get('rewrites', ['R1', 'R2', 'R3', 'R4', 'R8', 'R9']))
        lo, hi = self.bo + 1, self.e
        j = lo
        count = 0
        while j < hi:
            t = toks[j]
            if t.kind == 'ident':
                mo = is_macro_call(toks, j)
                if mo is not None and ((t.text in LOG_MACROS and 'R1' in rw) or
                                       (t.text in FMT_MACROS + WRITE_MACROS and 'R2' in rw)):
                    j = match_close(toks, mo) + 1
                    continue
            if t.kind == 'punct' and t.text == '|' and self._is_closure_start(j, lo):
                k = j + 1
                if toks[k].kind == 'punct' and toks[k].text == '|':
                    ce = k
                else:
                    depth = 0
                    while k < hi:
                        tk = toks[k]
                        if tk.kind == 'punct' and tk.text in '([<':
                            depth += 1
                        elif tk.kind == 'punct' and tk.text in ')]>':
                            depth -= 1
                        elif tk.kind == 'punct' and tk.text == '|' and depth <= 0:
                            break
                        k += 1
                    ce = k
                count += 1
                if count == n:
                    q = ce + 1
                    while q < hi and toks[q].kind in ('ws', 'comment'):
                        q += 1
                    if toks[q].kind == 'punct' and toks[q].text == '-' and toks[q + 1].text == '>':
                        # explicit return type: the body is the next block
                        while not (toks[q].kind == 'punct' and toks[q].text == '{'):
                            q += 1
                    if toks[q].kind == 'punct' and toks[q].text == '{':
                        return j, ce, q + 1, match_close(toks, q), True
                    e = q
                    while e < hi:
                        te = toks[e]
                        if te.kind == 'punct' and te.text in rustlex.OPEN:
                            e = match_close(toks, e) + 1
                            continue
                        if te.kind == 'punct' and te.text in ',)]};':
                            break
                        e += 1
                    return j, ce, q, e, False
                j = ce + 1
                continue
            j += 1
        raise Undecided('%s: closure %d not found (the function has %d closures)' % (self.fnkey, n, count))

    @staticmethod
    def _pattern_idents(text):
        """Binding names of a parameter list text `a, (b, c): T, mut d: U`."""
        ts = [x for x in lex(text) if x.kind not in ('ws', 'comment')]
        names = []
        depth = 0
        in_type = False
        for i, x in enumerate(ts):
            if x.kind == 'punct' and x.text in '<[':
                depth += 1 if in_type else 0
            elif x.kind == 'punct' and x.text in '>]' and in_type and depth:
                depth -= 1
            elif x.kind == 'punct' and x.text == ':' and depth == 0:
                nxt = ts[i + 1].text if i + 1 < len(ts) else ''
                prv = ts[i - 1].text if i else ''
                if nxt != ':' and prv != ':':
                    in_type = True
            elif x.kind == 'punct' and x.text == ',' and depth == 0:
                in_type = False
            elif x.kind == 'ident' and not in_type and x.text not in ('mut', 'ref', '_'):
                names.append(x.text)
        return names

    def emit_lifted(self, n, as_name, sig, subst):
        """R7: the body text of the n-th closure literal of this function becomes
        the body of a synthesized `fn as_name sig`.  `sig` ("(params) -> Ret") is
        declared in unit.json and lists the closure's own parameters plus the
        captured variables; `return` keeps its meaning (it returned from the
        closure, it returns from the lifted fn).  `subst` maps identifiers of
        captured-by-&mut locals to their replacement text (`x` -> `(*x)`)."""
        toks = self.sf.toks
        rw = set(self.unit.get('rewrites', ['R1', 'R2', 'R3', 'R4', 'R8', 'R9']))
        pathmap = self.unit.get('pathmap', {})
        bar_o, bar_c, b_lo, b_hi, is_block = self._find_closure(n)
        header = ''.join(x.text for x in toks[bar_o:bar_c + 1])
        # split sig into params and return type
        sig = sig.strip()
        st = lex(sig)
        k = 0
        while st[k].kind == 'ws':
            k += 1
        if not (st[k].kind == 'punct' and st[k].text == '('):
            raise Undecided('%s: "sig" must start with a parameter list' % self.fnkey)
        pc = match_close(st, k)
        params = ''.join(x.text for x in st[k:pc + 1])
        rest = ''.join(x.text for x in st[pc + 1:]).strip()
        ret = None
        if rest:
            if not rest.startswith('->'):
                raise Undecided('%s: "sig" has trailing text that is not a return type' % self.fnkey)
            ret = rest[2:].strip()
        # the closure's own parameters must all be parameters of the lifted fn
        own = self._pattern_idents(header.strip()[1:-1])
        declared = self._pattern_idents(params[1:-1])
        if 'self' in [x.text for x in lex(params) if x.kind == 'ident']:
            declared.append('self')
        missing = [x for x in own if x not in declared]
        if missing:
            raise Undecided('%s: closure parameter(s) %s of closure %d are not parameters of the declared sig'
                            % (self.fnkey, ', '.join(missing), n))
        line = self.sf.line_of(toks[bar_o].start)
        self.log.append({'rule': 'R7', 'fn': self.fnkey, 'line': line,
                         'what': 'closure %d (%s) lifted to fn %s%s' % (n, ' '.join(header.split()), as_name,
                                                                        ' '.join(self._map_paths_text(sig, pathmap).split()))})
        pieces = []
        cur = []
        cur_origin = [None]

        def raw_out(text, tokidx):
            if cur_origin[0] is None:
                cur_origin[0] = self.origin(tokidx)
            cur.append(text)

        def out(text, tokidx):
            t = toks[tokidx]
            if subst and t.kind == 'ident' and text == t.text and t.text in subst:
                p = tokidx - 1
                while p >= b_lo and toks[p].kind in ('ws', 'comment'):
                    p -= 1
                nx = tokidx + 1
                while nx < b_hi and toks[nx].kind in ('ws', 'comment'):
                    nx += 1
                is_field = p >= b_lo and toks[p].kind == 'punct' and toks[p].text == '.'
                is_path = (p >= b_lo and toks[p].text == ':') or (nx < b_hi and toks[nx].text == ':' and
                                                                   nx + 1 < b_hi and toks[nx + 1].text == ':')
                if not is_field and not is_path:
                    self.log.append({'rule': 'R7s', 'fn': self.fnkey, 'line': self.sf.line_of(t.start),
                                     'what': 'captured variable %s -> %s' % (t.text, subst[t.text])})
                    text = subst[t.text]
            raw_out(text, tokidx)

        def flush():
            if cur:
                pieces.append(Piece(''.join(cur), cur_origin[0]))
                cur.clear()
            cur_origin[0] = None

        def overlay_piece(text, oline, section):
            flush()
            pieces.append(Piece(text if text.endswith('\n') else text + '\n',
                                ('overlay', self.unit['overlay_path'], oline, self.fnkey, section)))

        head = 'fn %s%s' % (as_name, self._map_paths_text(params, pathmap))
        if ret is not None:
            head += ' -> (%s: %s)' % (self.ov.get('ret', 'res'), self._map_paths_text(ret, pathmap))
        flush()
        pieces.append(Piece(head + '\n', ('gen', 'R7 signature of lifted closure (declared in unit.json)')))
        if 'spec' in self.ov:
            text, oline = self.ov['spec']
            overlay_piece('\n' + text, oline - 1, 'spec')
        pieces.append(Piece('{', ('gen', 'R7 body open')))
        if 'entry' in self.ov:
            text, oline = self.ov['entry']
            overlay_piece('\n' + text, oline - 1, 'entry')
        if self.unit.get('_canary'):
            pieces.append(Piece('\n proof { assert(false); }\n', ('gen', 'canary', self.fnkey)))
        self._loop_no = 0
        self._closure_no = 0
        self._emit_range(b_lo, b_hi, out, rw, pathmap, in_body=True, overlay_piece=overlay_piece)
        flush()
        pieces.append(Piece('}\n', ('gen', 'R7 body close')))
        for m in self.ov['loops']:
            if m > self._loop_no:
                raise Undecided('%s: overlay names loop %d but the lifted closure has %d loops'
                                % (self.fnkey, m, self._loop_no))
        for m in self.ov['closures']:
            if m > self._closure_no:
                raise Undecided('%s: overlay names closure %d but the lifted closure has %d closures'
                                % (self.fnkey, m, self._closure_no))
        self.lifted_span = (bar_o, b_hi if not is_block else b_hi)
        return pieces

    def _has_value_break(self, b):
        """R10: does the loop body opened at toks[b] contain a `break EXPR` of its own
        (breaks of nested loops are skipped)?"""
        toks = self.sf.toks
        e = match_close(toks, b)
        j = b + 1
        while j < e:
            t = toks[j]
            if t.kind == 'ident' and t.text in ('loop', 'while', 'for') and self._is_loop_kw(j):
                j = match_close(toks, self._loop_body_open(j, e)) + 1
                continue
            if t.kind == 'ident' and t.text == 'break':
                q = j + 1
                while q < e and toks[q].kind in ('ws', 'comment'):
                    q += 1
                if toks[q].kind != 'lifetime' and not (toks[q].kind == 'punct' and toks[q].text in ';,}'):
                    return True
            j += 1
        return False

    def _for_mut_iter(self, j, b):
        """`for PAT in &mut IDENT {` -> (PAT text, IDENT) else None."""
        toks = self.sf.toks
        k = j + 1
        depth = 0
        in_kw = None
        while k < b:
            t = toks[k]
            if t.kind == 'punct' and t.text in '([':
                k = match_close(toks, k)
            elif t.kind == 'ident' and t.text == 'in':
                in_kw = k
                break
            k += 1
        if in_kw is None:
            return None
        pat = ''.join(x.text for x in toks[j + 1:in_kw]).strip()
        rest = [x for x in toks[in_kw + 1:b] if x.kind not in ('ws', 'comment')]
        if len(rest) == 3 and rest[0].text == '&' and rest[1].text == 'mut' and rest[2].kind == 'ident':
            return pat, rest[2].text
        return None

    def _for_enumerate(self, j, b):
        """`for (I, X) in EXPR.enumerate() {` -> (I, X text, index of `in`, index of the
        `.` before `enumerate`) else None.  I must be a plain identifier."""
        toks = self.sf.toks
        k = j + 1
        in_kw = None
        while k < b:
            t = toks[k]
            if t.kind == 'punct' and t.text in '([':
                k = match_close(toks, k)
            elif t.kind == 'ident' and t.text == 'in':
                in_kw = k
                break
            k += 1
        if in_kw is None:
            return None
        sig = [q for q in range(in_kw + 1, b) if toks[q].kind not in ('ws', 'comment')]
        if len(sig) < 5:
            return None
        tail = sig[-4:]
        if [toks[q].text for q in tail] != ['.', 'enumerate', '(', ')']:
            return None
        pat = [q for q in range(j + 1, in_kw) if toks[q].kind not in ('ws', 'comment')]
        if len(pat) < 5 or toks[pat[0]].text != '(' or match_close(toks, pat[0]) != pat[-1]:
            return None
        if toks[pat[1]].kind != 'ident' or toks[pat[2]].text != ',':
            return None
        ivar = toks[pat[1]].text
        xpat = ''.join(toks[q].text for q in range(pat[3], pat[-1])).strip()
        return ivar, xpat, in_kw, tail[0]

    def _is_loop_kw(self, j):
        """`for` also appears in `impl Trait for`, HRTB `for<'a>`; inside a
        body only HRTB matters."""
        toks = self.sf.toks
        t = toks[j]
        # previous significant token must not be '.' (method named `loop`?) or '::'
        k = j - 1
        while k >= 0 and toks[k].kind in ('ws', 'comment'):
            k -= 1
        if k >= 0 and toks[k].kind == 'punct' and toks[k].text in '.:':
            if toks[k].text == '.':
                return False
            # label `'a: loop` has ':' preceded by lifetime
            if toks[k].text == ':' and k >= 1 and toks[k - 1].kind == 'lifetime':
                return True
            return False
        if t.text == 'for':
            k = j + 1
            while toks[k].kind == 'ws':
                k += 1
            if toks[k].kind == 'punct' and toks[k].text == '<':
                return False
        return True

    def _loop_body_open(self, j, hi):
        toks = self.sf.toks
        k = j + 1
        while k < hi:
            t = toks[k]
            if t.kind == 'punct' and t.text in '([':
                k = match_close(toks, k) + 1
                continue
            if t.kind == 'punct' and t.text == '{':
                # `match x { .. }` / closure bodies inside a loop header would be
                # mis-taken; detect `match`/`if` keyword before it
                p = k - 1
                while toks[p].kind in ('ws', 'comment'):
                    p -= 1
                return k
            k += 1
        raise Undecided('%s: loop body not found' % self.fnkey)

    def _is_closure_start(self, j, lo):
        """A '|' starts a closure when the previous significant token is one of
        ( , = { ; => return move  or an opening of an argument list."""
        toks = self.sf.toks
        k = j - 1
        while k >= lo and toks[k].kind in ('ws', 'comment'):
            k -= 1
        if k < lo:
            return True
        p = toks[k]
        if p.kind == 'punct' and p.text in '(,={;>[':
            # '>' covers '=>'  (a '>' comparison followed by '|' is not valid Rust anyway… `a > |x|` no)
            if p.text == '>':
                return k >= 1 and toks[k - 1].text == '='
            return True
        if p.kind == 'ident' and p.text in ('move', 'return', 'in', 'else'):
            return True
        return False


# ---------------------------------------------------------------- unit assembly

def find_nested_fn(sf, parent, name, unit_name):
    """Locate `fn name` written inside the body of the fn item `parent`."""
    toks = sf.toks
    kind, pname, s, e, bo = parent
    if bo is None:
        raise Undecided('%s: fn %s has no body' % (unit_name, pname))
    hits = []
    j = bo + 1
    while j < e:
        t = toks[j]
        if t.kind == 'ident' and t.text == 'fn':
            k = j + 1
            while toks[k].kind in ('ws', 'comment'):
                k += 1
            if toks[k].kind == 'ident' and toks[k].text == name:
                b, ch = rustlex.find_body_open(toks, k + 1)
                if ch == '{':
                    hits.append(('fn', name, j, match_close(toks, b), b))
        j += 1
    if len(hits) != 1:
        raise Undecided('%s: expected exactly one `fn %s` nested in `fn %s`, found %d'
                        % (unit_name, name, pname, len(hits)))
    return hits[0]


def load_unit(unit_dir, repo):
    u = json.load(open(os.path.join(unit_dir, 'unit.json')))
    u['dir'] = unit_dir
    u['repo'] = repo
    u['overlay_path'] = os.path.join(unit_dir, 'contracts.rs')
    u['env_path'] = os.path.join(unit_dir, 'env.rs')
    return u


def sha(text):
    return hashlib.sha256(text.encode()).hexdigest()


def strip_attrs_and_docs(sf, s, e):
    """Text of toks[s..e] with comments and #[...] attributes dropped (newlines kept)."""
    toks = sf.toks
    out = []
    j = s
    while j <= e:
        t = toks[j]
        if t.kind == 'comment':
            out.append(_nl(t.text))
            j += 1
            continue
        if t.kind == 'punct' and t.text == '#':
            k = j + 1
            while toks[k].kind == 'ws':
                k += 1
            if toks[k].kind == 'punct' and toks[k].text == '[':
                c = match_close(toks, k)
                out.append(_nl(''.join(x.text for x in toks[j:c + 1])))
                j = c + 1
                continue
        if t.kind == 'ident' and t.text == 'pub':
            k = j + 1
            while k <= e and toks[k].kind == 'ws':
                k += 1
            if k <= e and toks[k].kind == 'punct' and toks[k].text == '(':
                k = match_close(toks, k) + 1
                while k <= e and toks[k].kind == 'ws':
                    k += 1
            j = k
            continue
        out.append(t.text)
        j += 1
    return ''.join(out)


ORACLE_FNS = '''
pub trait __OracleExt: Sized { fn __orc(self) -> (r: Self) ensures false; }
impl<T> __OracleExt for T { #[verifier::external_body] fn __orc(self) -> (r: Self) { self } }
'''


def _spec_keys(text):
    """Normalised names (`Option::map_or`, `cmp::max`) of the functions given an assume_specification in text."""
    keys = []
    for m in re.finditer(r'assume_specification\s*(?:<[^\[]*>)?\s*\[\s*([^\]]+?)\s*\]', text):
        path = re.sub(r'\s+', '', m.group(1))
        # drop generic argument lists
        out, depth = [], 0
        for ch in path:
            if ch == '<':
                depth += 1
            elif ch == '>':
                depth -= 1
            elif depth == 0:
                out.append(ch)
        segs = [x for x in ''.join(out).split('::') if x]
        keys.append('::'.join(segs[-2:]))
    return keys


def build(unit_dir, repo, canary=False, auto_off=None, oracle=None):
    """Return dict(text=..., linemap=[origin per line], log=[...], items=[...]).
    auto_off: set of R22 marker names whose automatic closure postcondition is to be left out, or 'ALL'."""
    unit = load_unit(unit_dir, repo)
    unit['_canary'] = canary
    unit['_auto_off'] = auto_off if auto_off is not None else set()
    unit['_auto_seq'] = [0]
    unit['_oracle'] = oracle or {}
    ov = Overlay(unit['overlay_path'])
    log = []
    pieces = []
    items_info = []
    files = {}

    def sf_for(rel):
        p = os.path.join(repo, rel)
        if not os.path.exists(p):
            raise Undecided('source file %s not found' % rel)
        if p not in files:
            try:
                files[p] = rustlex.SourceFile(p)
            except rustlex.LexError as ex:
                raise Undecided('cannot tokenise %s: %s' % (rel, ex))
        return files[p]

    head = ['#![allow(unused_imports, unused_variables, dead_code, unused_mut, unused_parens, '
            'unreachable_code, unused_assignments, unused_braces, non_snake_case, irrefutable_let_patterns)]\n']
    for f in unit.get('features', []):
        head.insert(0, '#![feature(%s)]\n' % f)
    head.append('use vstd::prelude::*;\n')
    for u in unit.get('uses', []):
        head.append(u + '\n')
    head.append('verus! {\n')
    # R22 helper: one type parameter, so that the closure's result type is inferred from its body
    head.append('pub open spec fn __same_val<T>(a: T, b: T) -> bool { a == b }\n')
    if unit['_oracle']:
        head.append(ORACLE_FNS)
    pieces.append(Piece(''.join(head), ('gen', 'header')))
    env = open(unit['env_path'], encoding='utf-8').read()
    if not env.endswith('\n'):
        env += '\n'
    pieces.append(Piece(env, ('env', unit['env_path'], 1)))
    # common environment (units/_common/std_combinators.rs): std combinators without a vstd specification;
    # an item is left out when env.rs or the overlay already declares the same function
    common_path = os.path.join(os.path.dirname(os.path.normpath(unit_dir)), '_common', 'std_combinators.rs')
    if os.path.exists(common_path) and not unit.get('no_common'):
        have = set(_spec_keys(env) + _spec_keys(open(unit['overlay_path'], encoding='utf-8').read()))
        ctext = open(common_path, encoding='utf-8').read().split('\n')
        i = 0
        while i < len(ctext):
            if ctext[i].startswith('pub assume_specification'):
                e = i
                while not ctext[e].rstrip().endswith(';'):
                    e += 1
                item = '\n'.join(ctext[i:e + 1]) + '\n'
                ks = _spec_keys(item)
                if ks and ks[0] not in have:
                    pieces.append(Piece(item, ('env', common_path, i + 1)))
                else:
                    log.append({'rule': 'common-env', 'fn': '', 'line': i + 1,
                                'what': 'common declaration of %s left out: the unit declares it itself' % (ks[0] if ks else '?')})
                i = e + 1
            else:
                i += 1
    for text, line in ov.prelude:
        pieces.append(Piece(text + '\n', ('overlay', unit['overlay_path'], line, None, 'prelude')))

    used_fnkeys = set()
    # group consecutive fn items of the same impl into one impl block
    open_impl = None
    for it in unit['items']:
        sf = sf_for(it['file'])
        mod = it.get('mod')
        if 'assoc_const' in it and 'impl' in it and 'fn' not in it:
            # associated const of an inherent impl (`const VERSION: u8 = 2;`): copied verbatim into
            # the impl block it shares with the fn items of the same impl
            hits = []
            for mods_, cand in sf.items():
                if cand[0] != 'impl' or cand[4] is None or (mod is not None and mods_ != mod):
                    continue
                if rustlex.impl_header_norm(cand[1]) != rustlex.norm(it['impl']):
                    continue
                for sub in rustlex.top_items(sf.toks, cand[4] + 1, cand[3]):
                    if sub[0] == 'const' and sub[1] == it['assoc_const']:
                        hits.append((cand, sub))
            if len(hits) != 1:
                raise Undecided('%s: expected exactly one `const %s` in `impl %s` of %s, found %d'
                                % (unit['name'], it['assoc_const'], it['impl'], it['file'], len(hits)))
            impl_item, c_item = hits[0]
            raw_h = sf.text(impl_item[2], impl_item[4] - 1)
            header = FnRewriter(sf, c_item, it['assoc_const'], None, unit, [])._map_paths_text(
                raw_h[raw_h.index('impl'):], unit.get('pathmap', {}))
            if header != open_impl:
                if open_impl is not None:
                    pieces.append(Piece('}\n', ('gen', 'impl close')))
                pieces.append(Piece(header.rstrip() + ' {\n', ('gen', 'impl header from ' + it['file'])))
                open_impl = header
            raw = sf.text(c_item[2], c_item[3])
            text = strip_attrs_and_docs(sf, c_item[2], c_item[3])
            text = FnRewriter(sf, c_item, it['assoc_const'], None, unit, [])._map_paths_text(text, unit.get('pathmap', {}))
            pieces.append(Piece(text + '\n', ('repo', it['file'], sf.line_of(sf.toks[c_item[2]].start))))
            items_info.append({'assoc_const': it['assoc_const'], 'file': it['file'],
                               'line': sf.line_of(sf.toks[c_item[2]].start), 'sha256': sha(raw)})
            continue
        if 'assoc_type' in it and 'impl' in it and 'fn' not in it:
            # associated type of a trait impl (`type X = ...;`): copied verbatim into the impl
            # block it shares with the fn items of the same impl that follow / precede it
            hits = []
            for mods_, cand in sf.items():
                if cand[0] != 'impl' or cand[4] is None or (mod is not None and mods_ != mod):
                    continue
                if rustlex.impl_header_norm(cand[1]) != rustlex.norm(it['impl']):
                    continue
                for sub in rustlex.top_items(sf.toks, cand[4] + 1, cand[3]):
                    if sub[0] == 'type' and sub[1] == it['assoc_type']:
                        hits.append((cand, sub))
            if len(hits) != 1:
                raise Undecided('%s: expected exactly one `type %s` in `impl %s` of %s, found %d'
                                % (unit['name'], it['assoc_type'], it['impl'], it['file'], len(hits)))
            impl_item, ty_item = hits[0]
            raw_h = sf.text(impl_item[2], impl_item[4] - 1)
            header = FnRewriter(sf, ty_item, it['assoc_type'], None, unit, [])._map_paths_text(
                raw_h[raw_h.index('impl'):], unit.get('pathmap', {}))
            if header != open_impl:
                if open_impl is not None:
                    pieces.append(Piece('}\n', ('gen', 'impl close')))
                pieces.append(Piece(header.rstrip() + ' {\n', ('gen', 'impl header from ' + it['file'])))
                open_impl = header
            raw = sf.text(ty_item[2], ty_item[3])
            text = strip_attrs_and_docs(sf, ty_item[2], ty_item[3])
            text = FnRewriter(sf, ty_item, it['assoc_type'], None, unit, [])._map_paths_text(text, unit.get('pathmap', {}))
            pieces.append(Piece(text + '\n', ('repo', it['file'], sf.line_of(sf.toks[ty_item[2]].start))))
            items_info.append({'assoc_type': it['assoc_type'], 'file': it['file'],
                               'line': sf.line_of(sf.toks[ty_item[2]].start), 'sha256': sha(raw)})
            continue
        if 'fn' in it:
            impl_key = it.get('impl')
            fnkey = (impl_key.split('<')[0] if impl_key and ' for ' not in impl_key else (impl_key or '')).strip()
            fnkey = it.get('key') or ((fnkey + '::' if fnkey else '') + (it['as'] if ('closure' in it and 'as' in it) else it['fn']))
            # R7 / nested fn: `lookup` is the enclosing top-level fn that is searched for
            lookup = it['within'] if 'within' in it else it['fn']
            if 'closure' in it and 'sig' not in it:
                raise Undecided('%s: a "closure" item needs "sig" (and "as" or "key")' % unit['name'])
            if impl_key:
                found = sf.find_impl_fn(impl_key, lookup, mod)
                if len(found) != 1:
                    raise Undecided('%s: expected exactly one `fn %s` in `impl %s` of %s, found %d'
                                    % (unit['name'], it['fn'], impl_key, it['file'], len(found)))
                impl_item, fn_item = found[0]
                header = it.get('impl_header')
                if header is None:
                    raw = sf.text(impl_item[2], impl_item[4] - 1)
                    header = raw[raw.index('impl'):]
                header = FnRewriter(sf, fn_item, fnkey, None, unit, [])._map_paths_text(header, unit.get('pathmap', {}))
            else:
                found = sf.find_item('fn', lookup, mod)
                if len(found) != 1:
                    raise Undecided('%s: expected exactly one free `fn %s` in %s, found %d'
                                    % (unit['name'], lookup, it['file'], len(found)))
                fn_item = found[0]
                header = None
            if 'within' in it:
                # a fn item nested in the body of `within`: it captures nothing and cannot
                # name Self, so it is emitted as a free function
                fn_item = find_nested_fn(sf, fn_item, it['fn'], unit['name'])
                header = None
                log.append({'rule': 'R7n', 'fn': fnkey, 'line': sf.line_of(sf.toks[fn_item[2]].start),
                            'what': 'fn %s nested in fn %s emitted as a free function' % (it['fn'], it['within'])})
            if header != open_impl:
                if open_impl is not None:
                    pieces.append(Piece('}\n', ('gen', 'impl close')))
                if header is not None:
                    pieces.append(Piece(header.rstrip() + ' {\n', ('gen', 'impl header from ' + it['file'])))
                open_impl = header
            lifted = None
            wrap = None
            if 'block_of_if' in it:
                # R7c (third form): the body block of the plain `if COND {` whose condition text (whitespace
                # removed) is COND becomes a fn; the lifted fn's contract may therefore assume COND.
                if 'sig' not in it or 'key' not in it:
                    raise Undecided('block item needs "sig" and "key": %r' % it)
                cbo, ce = FnRewriter(sf, fn_item, fnkey, None, unit, []).find_block_of_if(it['block_of_if'])
                fn_item = ('fn', it['key'], cbo, ce, cbo)
                lifted = it['sig']
                wrap = it.get('wrap')
                log.append({'rule': 'R7c', 'fn': fnkey, 'line': sf.line_of(sf.toks[cbo].start),
                            'what': 'body of `if %s` of %s::%s lifted to `%s`' % (
                                it['block_of_if'], it.get('impl', ''), it['fn'], it['sig'])})
            if 'block_of_field' in it or 'block_of_if_let' in it:
                # R7c block-lift by name: the brace block that initialises the struct-literal field NAME
                # (`NAME: { .. }`), resp. the body block of the `if let PAT = SCRUTINEE { .. }` whose scrutinee
                # text (whitespace removed) is SCRUTINEE, becomes a fn.  Exactly one match is required.
                if 'sig' not in it or 'key' not in it:
                    raise Undecided('block item needs "sig" and "key": %r' % it)
                fr = FnRewriter(sf, fn_item, fnkey, None, unit, [])
                if 'block_of_field' in it:
                    cbo, ce = fr.find_block_of_field(it['block_of_field'])
                    what = 'initialiser block of field `%s`' % it['block_of_field']
                else:
                    cbo, ce = fr.find_block_of_if_let(it['block_of_if_let'])
                    what = 'body of `if let .. = %s`' % it['block_of_if_let']
                fn_item = ('fn', it['key'], cbo, ce, cbo)
                lifted = it['sig']
                wrap = it.get('wrap')
                log.append({'rule': 'R7c', 'fn': fnkey, 'line': sf.line_of(sf.toks[cbo].start),
                            'what': '%s of %s::%s lifted to `%s`%s' % (
                                what, it.get('impl', ''), it['fn'], it['sig'],
                                (' with its value wrapped as %s<block>%s' % tuple(wrap)) if wrap else '')})
            if 'block_of_loop' in it:
                # R7b block-lift: the brace block enclosing the n-th loop of the function becomes a fn
                if 'sig' not in it or 'key' not in it:
                    raise Undecided('block item needs "sig" and "key": %r' % it)
                cbo, ce = FnRewriter(sf, fn_item, fnkey, None, unit, []).find_block_of_loop(
                    int(it['block_of_loop']), int(it.get('enclosing', 1)))
                fn_item = ('fn', it['key'], cbo, ce, cbo)
                lifted = it['sig']
                wrap = it.get('wrap')
                log.append({'rule': 'R7b', 'fn': fnkey, 'line': sf.line_of(sf.toks[cbo].start),
                            'what': 'block enclosing loop %s of %s::%s lifted to `%s`%s' % (
                                it['block_of_loop'], it.get('impl', ''), it['fn'], it['sig'],
                                (' with its value wrapped as %s<block>%s' % tuple(wrap)) if wrap else '')})
            if 'closure' in it and 'as' not in it:
                # R7 closure-lift (shape "closure"+"sig"+"key"; the shape with "as" is handled by emit_lifted below):
                # the n-th closure literal of the function becomes a fn
                if 'sig' not in it or 'key' not in it:
                    raise Undecided('closure item needs "sig" and "key": %r' % it)
                _fr = FnRewriter(sf, fn_item, fnkey, None, unit, [])
                cs, cbo, ce = _fr.find_closure(_fr.closure_ordinal(it['closure']))
                fn_item = ('fn', it['key'], cs, ce, cbo)
                lifted = it['sig']
                log.append({'rule': 'R7', 'fn': fnkey, 'line': sf.line_of(sf.toks[cs].start),
                            'what': 'closure %s of %s::%s lifted to `%s`' % (it['closure'], it.get('impl', ''), it['fn'], it['sig'])})
            fov = ov.fns.get(fnkey)
            if fov is not None:
                used_fnkeys.add(fnkey)
            raw = sf.text(fn_item[2], fn_item[3])
            # guard: occurrences of given token sequences (whitespace/comments ignored) in the item's text,
            # e.g. {".write()": 1}: a new lock section the contracts do not speak about => undecided
            if 'count' in it:
                flat = ''.join(x.text for x in sf.toks[fn_item[2]:fn_item[3] + 1] if x.kind not in ('ws', 'comment'))
                for pat, want in it['count'].items():
                    got = flat.count(re.sub(r'\s+', '', pat))
                    if got != want:
                        raise Undecided('%s: `%s` occurs %d times in %s, the unit expects %d '
                                        '(the contracts were written for that many)' % (unit['name'], pat, got, fnkey, want))
            rw = FnRewriter(sf, fn_item, fnkey, fov, dict(unit, _sig=lifted, _wrap=wrap, _clock=it.get('clock'), _try_convert=it.get('try_convert'), **{k: it[k] for k in ('rewrites', 'pathmap', 'mut_params') if k in it}), log)
            for a in it.get('attrs', []):
                # attributes for an extracted fn (e.g. #[verifier::exec_allows_no_decreases_clause]); logged
                pieces.append(Piece(a + '\n', ('gen', 'attr')))
                log.append({'rule': 'R8a', 'fn': fnkey, 'line': sf.line_of(sf.toks[fn_item[2]].start),
                            'what': 'attribute %s placed on the extracted fn' % a})
            if 'closure' in it and 'as' in it:
                fp = rw.emit_lifted(rw.closure_ordinal(it['closure']), it['as'], it['sig'], it.get('subst', {}))
                raw = sf.text(rw.lifted_span[0], rw.lifted_span[1])
                fn_item = (fn_item[0], fn_item[1], rw.lifted_span[0], rw.lifted_span[1], fn_item[4])
            else:
                fp = rw.emit()
            pieces.extend(fp)
            pieces.append(Piece('\n', ('gen', 'sep')))
            items_info.append({'fn': fnkey, 'file': it['file'],
                               'line': sf.line_of(sf.toks[fn_item[2]].start),
                               'endline': sf.line_of(sf.toks[fn_item[3]].start),
                               'sha256': sha(raw), 'props': it.get('props', unit.get('properties', [])),
                               'loops': rw._loop_no, 'closures': rw._closure_no,
                               'under_contract': fov is not None and 'spec' in fov})
        else:
            if open_impl is not None:
                pieces.append(Piece('}\n', ('gen', 'impl close')))
                open_impl = None
            kind = 'struct' if 'struct' in it else 'enum' if 'enum' in it else 'const' if 'const' in it else None
            if kind is None and 'trait' in it:
                kind = 'trait'   # trait declarations are extracted like types (default method bodies included)
            if kind is None:
                raise Undecided('unit item not understood: %r' % it)
            found = sf.find_item(kind, it[kind], mod)
            if len(found) != 1:
                raise Undecided('%s: expected exactly one `%s %s` in %s, found %d'
                                % (unit['name'], kind, it[kind], it['file'], len(found)))
            ti = found[0]
            raw = sf.text(ti[2], ti[3])
            text = strip_attrs_and_docs(sf, ti[2], ti[3])
            text = FnRewriter(sf, ti, it[kind], None, unit, [])._map_paths_text(text, dict(unit.get('pathmap', {}), **it.get('pathmap', {})))
            for a in it.get('attrs', []):
                pieces.append(Piece(a + '\n', ('gen', 'attr')))
            pieces.append(Piece(text + '\n', ('repo', it['file'], sf.line_of(sf.toks[ti[2]].start))))
            log.append({'rule': 'R5', 'fn': it[kind], 'line': sf.line_of(sf.toks[ti[2]].start),
                        'what': 'attributes and doc comments dropped from %s' % kind})
            items_info.append({kind: it[kind], 'file': it['file'],
                               'line': sf.line_of(sf.toks[ti[2]].start), 'sha256': sha(raw)})
    if open_impl is not None:
        pieces.append(Piece('}\n', ('gen', 'impl close')))
    for k in ov.fns:
        if k not in used_fnkeys:
            raise Undecided('overlay has contracts for `%s` but the unit extracts no such function' % k)
    for text, line in ov.globals:
        pieces.append(Piece(text + '\n', ('overlay', unit['overlay_path'], line, None, 'global')))
    pieces.append(Piece('} // verus!\nfn main() {}\n', ('gen', 'footer')))

    # assemble + line map: a line belongs to the piece holding its first
    # non-blank character; an overlay piece with text on the line wins.
    text = ''.join(p.text for p in pieces)
    starts = []
    off = 0
    for p in pieces:
        starts.append(off)
        off += len(p.text)
    linemap = []
    lines = text.split('\n')
    if lines and lines[-1] == '':
        lines.pop()
    import bisect
    pos = 0
    for ln in lines:
        lo, hi = pos, pos + len(ln)
        stripped = len(ln) - len(ln.lstrip())
        first = lo + (stripped if ln.strip() else 0)
        pi = bisect.bisect_right(starts, first) - 1
        chosen = pi
        # overlay priority
        k = bisect.bisect_right(starts, lo) - 1
        while k < len(pieces) and starts[k] <= hi:
            p = pieces[k]
            if p.origin[0] in ('overlay',) or (p.origin[0] == 'gen' and len(p.origin) > 1 and p.origin[1] == 'canary'):
                a0 = max(starts[k], lo)
                b0 = min(starts[k] + len(p.text), hi)
                if b0 > a0 and text[a0:b0].strip():
                    chosen = k
                    first = a0 + (len(text[a0:b0]) - len(text[a0:b0].lstrip()))
                    break
            k += 1
        p = pieces[chosen]
        idx = text.count('\n', starts[chosen], first)
        linemap.append(_origin_at(p.origin, idx))
        pos = hi + 1
    return {'text': text, 'linemap': linemap, 'log': log, 'items': items_info, 'unit': unit}


def _origin_at(origin, idx):
    if origin[0] in ('repo', 'env'):
        return (origin[0], origin[1], origin[2] + idx) + tuple(origin[3:])
    if origin[0] == 'overlay':
        return ('overlay', origin[1], origin[2] + idx, origin[3], origin[4])
    return origin


if __name__ == '__main__':
    import argparse
    ap = argparse.ArgumentParser()
    ap.add_argument('unit_dir')
    ap.add_argument('--repo', default='/repo')
    ap.add_argument('--canary', action='store_true')
    ap.add_argument('-o', default='-')
    a = ap.parse_args()
    try:
        r = build(a.unit_dir, a.repo, a.canary)
    except Undecided as ex:
        print('UNDECIDED:', ex, file=sys.stderr)
        sys.exit(2)
    if a.o == '-':
        sys.stdout.write(r['text'])
    else:
        open(a.o, 'w').write(r['text'])
    for l in r['log']:
        print(json.dumps(l), file=sys.stderr)
