#!/usr/bin/env python3
"""Render the as-built per-property table (markdown) from props/*.json, evidence/*.json and seeded/*/meta.json."""
import glob, json, os
R = os.path.dirname(os.path.dirname(os.path.abspath(__file__)))
claimed = set(json.load(open(R + '/claimed.json')))
print('| property | category | Verus units | Kani harnesses | obligations (last run) | bounded parts |')
print('|---|---|---|---|---|---|')
for f in sorted(glob.glob(R + '/props/C*.json')):
    p = os.path.basename(f)[:-5]
    if p not in claimed:
        continue
    d = json.load(open(f))
    ev = {}
    try:
        ev = json.load(open(R + '/evidence/%s.json' % p))
    except Exception:
        pass
    cov = ev.get('coverage', {})
    b = [k.get('bounded') for k in d.get('kani', []) if k.get('bounded')]
    print('| %s | %s | %s | %d | %s/%s | %s |' % (p, d.get('category'), ', '.join(d.get('units', [])) or '–', len(d.get('kani', [])),
          cov.get('discharged', '?'), cov.get('obligations', '?'), ('%d bounded harness(es)' % len(b)) if b else '–'))
print()
print('| seeded change | property | result | by |')
print('|---|---|---|---|')
for f in sorted(glob.glob(R + '/seeded/*/meta.json')):
    m = json.load(open(f))
    print('| %s | %s | %s | %s |' % (os.path.basename(os.path.dirname(f)), m.get('property'), m.get('detected'), (m.get('detected_by') or '').replace('_', ' ')[:200]))
