#!/usr/bin/env python3
"""Print the prompt for an independent seeding sub-agent (property text only; nothing from /verif)."""
import json, sys
pid, tag = sys.argv[1], sys.argv[2]
p = next(json.loads(l) for l in open('/verif/properties.jsonl') if json.loads(l)['id'] == pid)
wt = '/scratch/seed/%s' % tag
print(f"""You are given a scratch git worktree of the Rust project NLnetLabs/routinator (an RPKI relying-party validator) at {wt}/wt . Work only inside {wt}/ (use CARGO_TARGET_DIR={wt}/target for every cargo command, always pass --offline; there is no network). Do not read or write anything under /verif or /repo.

A semantic property of routinator that users rely on:

  {p['id']}: {p['title']}
  Statement: {p['statement']}
  It must hold for: {p['quantifier']['text']}
  Why the existing tests cannot settle it: {p['why_tests_cant']}
  Code it is anchored in: {', '.join(p['anchors']['files'])}

Your task: produce ONE realistic change to routinator's source (the kind of regression a maintainer could plausibly introduce in a refactoring, optimisation or bug fix) that BREAKS this property while the crate still compiles and the existing test suite (`cargo test --offline --workspace`, 31 tests) still passes. The change must need something specific to manifest — an unusual input or configuration, a particular multi-step sequence of operations, a particular interleaving, a crash or fault at a particular point, or two cooperating sites that each look fine alone — not something ordinary use would expose at once. Keep it small (a few lines) and confined to non-test code under src/. {sys.argv[3] if len(sys.argv) > 3 else ''}

Also write a demonstration: a test (added as a `#[cfg(test)]` module in the relevant source file, or a small program) that exercises the real code, FAILS with your change applied and PASSES without it. Run it both ways and the full existing test suite with your change applied, and report the actual outputs.

Deliver, in {wt}/out/ :
  patch.diff   — `git diff` of the source change ONLY (no demonstration code in it), applicable with `git apply` to a clean checkout
  demo.diff    — a separate diff that adds only the demonstration test (applicable on a clean checkout, with or without patch.diff)
  meta.json    — {{"property": "{p['id']}", "summary": "...what the change does...", "needs_to_manifest": "...the specific input/sequence/interleaving...", "demo_cmd": "...exact cargo command...", "ran": ["...commands you ran and their outcomes..."]}}
When done, leave the worktree clean (`git checkout -- . && git clean -fd` inside {wt}/wt is fine) and delete {wt}/target. Your final message: a short description of the change, what it needs in order to manifest, and the outputs of the demonstration with and without the change.""")
