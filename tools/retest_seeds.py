#!/usr/bin/env python3
"""retest_seeds.py <lanes> [tag ...]: regression run of the machinery over the kept seeded changes. Each seed whose
meta.json says it was detected is applied to a scratch worktree and the property's check is run again (for
yes-by-sibling-check seeds: the sibling's check). Prints every seed that no longer ends in VIOLATION."""
import glob, json, os, re, subprocess, sys
from concurrent.futures import ThreadPoolExecutor
lanes = int(sys.argv[1])
only = set(sys.argv[2:])
jobs = []
for f in sorted(glob.glob('/verif/seeded/*/meta.json')):
    tag = f.split('/')[-2]
    m = json.load(open(f))
    if only and tag not in only:
        continue
    if not m['detected'].startswith('yes'):
        continue
    prop = m['property']
    if m['detected'] == 'yes-by-sibling-check':
        mm = re.search(r'check_(C\d\d)_alarms|check_(C\d\d)_alarms', m['detected_by'])
        sib = re.findall(r'check_(C\d\d)_alarms', m['detected_by'])
        prop = sib[0] if sib else prop
    jobs.append((tag, prop))
import queue
q = queue.Queue()
for i in range(lanes):
    q.put(i)
def run(job):
    tag, prop = job
    lane = q.get()
    try:
        env = dict(os.environ, ST_DIR='/scratch/st_lane%d' % lane, ST_KANI='/verif/.cache/kani-target-lane%d' % lane)
        p = subprocess.run(['python3', '/verif/tools/test_seed.py', tag, prop], env=env, stdout=subprocess.PIPE, stderr=subprocess.STDOUT, text=True)
        m = re.search(r'exit (\d+)\s*$', p.stdout)
        rc = int(m.group(1)) if m else -1
        line = [l for l in p.stdout.split('\n') if l.startswith(('VIOLATION', 'UNDECIDED'))][:1]
        return tag, prop, rc, (line[0][:200] if line else '')
    finally:
        q.put(lane)
bad = []
with ThreadPoolExecutor(lanes) as ex:
    for tag, prop, rc, line in ex.map(run, jobs):
        print(tag, prop, rc, line, flush=True)
        if rc != 1:
            bad.append(tag)
print('NOT DETECTED ANY MORE:', bad)
