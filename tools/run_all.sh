#!/bin/sh
# run every registered property's quick check; print one line each
cd "$(dirname "$0")/.."
for f in props/C*.json; do p=$(basename $f .json); s=$(date +%s); out=$(timeout 2400 ./check $p 2>&1); rc=$?; e=$(date +%s); echo "$p rc=$rc $((e-s))s $(echo "$out" | grep -E '^(OK|VIOLATION|UNDECIDED|KNOWN)' | head -2 | cut -c1-200 | tr '\n' ' ')"; done
