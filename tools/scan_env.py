#!/usr/bin/env python3
"""Mechanical audit of every units/*/env.rs: exec fns must be external_body with an `unimplemented!()` body
(no hand-written repository logic in the environment). Prints offenders; exit 1 if any."""
import glob, os, re, sys
sys.path.insert(0, os.path.dirname(os.path.abspath(__file__)))
import rustlex
bad = 0
tot = 0
for env in sorted(glob.glob(os.path.join(os.path.dirname(__file__), '..', 'units', '*', 'env.rs'))):
    src = open(env).read()
    toks = rustlex.lex(src)
    i = 0
    n = len(toks)
    while i < n:
        t = toks[i]
        if t.kind == 'ident' and t.text == 'fn':
            # look back for 'spec' / 'proof' / 'uninterp' / assume_specification on the same item
            j = i - 1
            mods = []
            while j >= 0 and toks[j].kind in ('ws', 'comment', 'ident') or (j >= 0 and toks[j].kind == 'punct' and toks[j].text in '()'):
                if toks[j].kind == 'ident':
                    mods.append(toks[j].text)
                j -= 1
                if len(mods) > 6:
                    break
            is_spec = any(m in ('spec', 'proof', 'uninterp', 'axiom') for m in mods)
            # find body
            try:
                bo, ch = rustlex.find_body_open(toks, i + 1)
            except Exception:
                break
            if ch == '{' and not is_spec:
                # requires/ensures may contain braces `({ ... })`; the body is the LAST top-level brace group before next item:
                # walk brace groups until the one followed by non-(comma/ensures) token
                k = bo
                while True:
                    e = rustlex.match_close(toks, k)
                    q = e + 1
                    while q < n and toks[q].kind in ('ws', 'comment'):
                        q += 1
                    # if the next significant token starts another brace group or is ',' or ')' we are still in the spec
                    if q < n and toks[q].kind == 'punct' and toks[q].text in ',)&|=<>!':
                        # continue to the next '{' at depth 0
                        while q < n and not (toks[q].kind == 'punct' and toks[q].text == '{'):
                            if toks[q].kind == 'punct' and toks[q].text in '([':
                                q = rustlex.match_close(toks, q)
                            q += 1
                        if q >= n:
                            break
                        k = q
                        continue
                    break
                body = ''.join(x.text for x in toks[k:e + 1])
                tot += 1
                if re.sub(r'\s+', '', body) not in ('{unimplemented!()}', '{unimplemented!();}'):
                    name = next((x.text for x in toks[i + 1:i + 6] if x.kind == 'ident'), '?')
                    line = src.count('\n', 0, t.start) + 1
                    print('%s:%d fn %s has a body: %s' % (os.path.relpath(env), line, name, re.sub(r'\s+', ' ', body)[:100]))
                    bad += 1
                i = e
        i += 1
print('%d exec fns in environments, %d with a real body' % (tot, bad))
sys.exit(1 if bad else 0)
