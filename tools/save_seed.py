#!/usr/bin/env python3
"""save_seed.py <tag> <base-commit> <test-filter> <detected yes|no|undecided> <by-what>"""
import json, os, shutil, subprocess, sys
tag, base, filt, det, by = sys.argv[1:6]
src = '/scratch/seed/%s/out' % tag
dst = '/verif/seeded/%s' % tag
os.makedirs(dst, exist_ok=True)
for f in ('patch.diff', 'demo.diff'):
    shutil.copy(os.path.join(src, f), os.path.join(dst, f))
meta = json.load(open(os.path.join(src, 'meta.json')))
env = dict(os.environ, SEED_BASE=base)
conf = json.loads(subprocess.run(['python3', '/verif/tools/confirm_seed.py', tag, filt], env=env, stdout=subprocess.PIPE, text=True).stdout)
meta.update({'base_commit': base, 'demo_filter': filt, 'coordinator_confirmation': conf,
             'what_i_ran': ['tools/confirm_seed.py %s %s (SEED_BASE=%s): demo passes without patch, fails with patch, 31 baseline tests pass with patch' % (tag, filt, base)],
             'detected': det, 'detected_by': by})
json.dump(meta, open(os.path.join(dst, 'meta.json'), 'w'), indent=1)
print(dst, conf['confirmed'])
