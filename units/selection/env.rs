// Environment of unit `selection` (C21): rpki resource and payload types, all
// ASSUMED. Nothing here is repository logic. The Prefix/Asn/MaxLenPrefix part
// is the same as in units/validity/env.rs.

// ---- rpki::resources::Asn: `pub struct Asn(u32)` with derived (structural) Eq.
#[verifier::external_body] #[derive(Clone, Copy)] pub struct Asn { _opaque: u32 }

impl PartialEqSpecImpl for Asn {
    open spec fn obeys_eq_spec() -> bool { true }
    open spec fn eq_spec(&self, other: &Asn) -> bool { *self == *other }
}
impl PartialEq for Asn {
    #[verifier::external_body]
    fn eq(&self, other: &Self) -> bool { unimplemented!() }
}

// ---- rpki::resources::addr::Prefix (see units/validity/env.rs for the view).
#[verifier::external_body] #[derive(Clone, Copy)] pub struct Prefix { _opaque: u8 }

impl Prefix {
    pub uninterp spec fn is_v4_spec(&self) -> bool;
    pub uninterp spec fn len_spec(&self) -> u8;
    pub uninterp spec fn bits_spec(&self) -> u128;

    // ASSUMED contract of rpki's Prefix::covers (same as in unit validity).
    #[verifier::external_body]
    pub fn covers(self, other: Prefix) -> (r: bool)
        ensures r == prefix_covers(self, other),
    { unimplemented!() }
}

pub open spec fn top_bits(x: u128, n: u8) -> u128 {
    if n == 0 { 0u128 } else if n >= 128 { x } else { x >> ((128 - n) as u128) }
}

pub open spec fn prefix_covers(a: Prefix, b: Prefix) -> bool {
    &&& a.is_v4_spec() == b.is_v4_spec()
    &&& a.len_spec() <= b.len_spec()
    &&& top_bits(a.bits_spec(), a.len_spec()) == top_bits(b.bits_spec(), a.len_spec())
}

// ---- rpki::resources::addr::MaxLenPrefix
#[verifier::external_body] #[derive(Clone, Copy)] pub struct MaxLenPrefix { _opaque: u8 }

impl MaxLenPrefix {
    pub uninterp spec fn prefix_spec(&self) -> Prefix;

    #[verifier::external_body]
    pub fn prefix(self) -> (r: Prefix)
        ensures r == self.prefix_spec(),
    { unimplemented!() }
}

// ---- rpki::rtr::payload: plain structs with public fields.
#[derive(Clone, Copy)]
pub struct RouteOrigin {
    pub prefix: MaxLenPrefix,
    pub asn: Asn,
}

#[verifier::external_body] pub struct KeyIdentifier { _opaque: () }
#[verifier::external_body] pub struct RouterKeyInfo { _opaque: () }
#[verifier::external_body] pub struct ProviderAsns { _opaque: () }

pub struct RouterKey {
    pub key_identifier: KeyIdentifier,
    pub asn: Asn,
    pub key_info: RouterKeyInfo,
}

pub struct Aspa {
    pub customer: Asn,
    pub providers: ProviderAsns,
}
