// Environment of unit `selection` (C21): rpki resource and payload types, all
// ASSUMED. Nothing here is repository logic. The Prefix/Asn/MaxLenPrefix part
// is the same as in units/validity/env.rs.

// ---- rpki::resources::Asn: `pub struct Asn(u32)` with derived (structural) Eq.
#[verifier::external_body] #[derive(Clone, Copy)] pub struct Asn { _opaque: u32 }

impl PartialEqSpecImpl for Asn {
    open spec fn obeys_eq_spec() -> bool { true }
    open spec fn eq_spec(&self, other: &Asn) -> bool { *self == *other }
}
impl PartialEq for Asn {
    #[verifier::external_body]
    fn eq(&self, other: &Self) -> bool { unimplemented!() }
}

// ---- rpki::resources::addr::Prefix (see units/validity/env.rs for the view).
#[verifier::external_body] #[derive(Clone, Copy)] pub struct Prefix { _opaque: u8 }

impl Prefix {
    pub uninterp spec fn is_v4_spec(&self) -> bool;
    pub uninterp spec fn len_spec(&self) -> u8;
    pub uninterp spec fn bits_spec(&self) -> u128;

    // ASSUMED contract of rpki's Prefix::covers (same as in unit validity).
    #[verifier::external_body]
    pub fn covers(self, other: Prefix) -> (r: bool)
        ensures r == prefix_covers(self, other),
    { unimplemented!() }
}

pub open spec fn top_bits(x: u128, n: u8) -> u128 {
    if n == 0 { 0u128 } else if n >= 128 { x } else { x >> ((128 - n) as u128) }
}

pub open spec fn prefix_covers(a: Prefix, b: Prefix) -> bool {
    &&& a.is_v4_spec() == b.is_v4_spec()
    &&& a.len_spec() <= b.len_spec()
    &&& top_bits(a.bits_spec(), a.len_spec()) == top_bits(b.bits_spec(), a.len_spec())
}

// ---- rpki::resources::addr::MaxLenPrefix
#[verifier::external_body] #[derive(Clone, Copy)] pub struct MaxLenPrefix { _opaque: u8 }

impl MaxLenPrefix {
    pub uninterp spec fn prefix_spec(&self) -> Prefix;

    #[verifier::external_body]
    pub fn prefix(self) -> (r: Prefix)
        ensures r == self.prefix_spec(),
    { unimplemented!() }
}

// ---- rpki::rtr::payload: plain structs with public fields.
#[derive(Clone, Copy)]
pub struct RouteOrigin {
    pub prefix: MaxLenPrefix,
    pub asn: Asn,
}

#[verifier::external_body] pub struct KeyIdentifier { _opaque: () }
#[verifier::external_body] pub struct RouterKeyInfo { _opaque: () }
#[verifier::external_body] pub struct ProviderAsns { _opaque: () }

pub struct RouterKey {
    pub key_identifier: KeyIdentifier,
    pub asn: Asn,
    pub key_info: RouterKeyInfo,
}

pub struct Aspa {
    pub customer: Asn,
    pub providers: ProviderAsns,
}

// ---- further API of the rpki resource types (declared so that code using
// them still reaches the verifier; contracts as far as the abstract view goes)
#[verifier::external_body] pub struct IpAddr { _opaque: () }
#[verifier::external_body] pub struct PrefixError { _opaque: () }
#[verifier::external_body] pub struct MaxLenError { _opaque: () }

impl IpAddr {
    // the address left-aligned in 128 bits (IPv4 in the top 32 bits)
    pub uninterp spec fn bits_spec(&self) -> u128;
    pub uninterp spec fn is_ipv4_spec(&self) -> bool;
    #[verifier::external_body]
    pub fn is_ipv4(&self) -> (r: bool) ensures r == self.is_ipv4_spec(),
    { unimplemented!() }
    #[verifier::external_body]
    pub fn is_ipv6(&self) -> (r: bool) ensures r == !self.is_ipv4_spec(),
    { unimplemented!() }
}

impl Asn {
    // the AS number
    pub uninterp spec fn u32_spec(&self) -> u32;
    #[verifier::external_body]
    pub fn from_u32(value: u32) -> (r: Asn) ensures r.u32_spec() == value,
    { unimplemented!() }
    #[verifier::external_body]
    pub fn into_u32(self) -> (r: u32) ensures r == self.u32_spec(),
    { unimplemented!() }
}
// an Asn is determined by its number
pub broadcast axiom fn axiom_asn_ext(a: Asn, b: Asn)
    ensures (#[trigger] a.u32_spec() == #[trigger] b.u32_spec()) ==> a == b;
impl vstd::std_specs::convert::FromSpecImpl<u32> for Asn {
    open spec fn obeys_from_spec() -> bool { false }
    uninterp spec fn from_spec(v: u32) -> Asn;
}
impl From<u32> for Asn {
    #[verifier::external_body]
    fn from(value: u32) -> (r: Asn) ensures r.u32_spec() == value,
    { unimplemented!() }
}

impl PartialEqSpecImpl for Prefix {
    open spec fn obeys_eq_spec() -> bool { true }
    open spec fn eq_spec(&self, other: &Prefix) -> bool { *self == *other }
}
impl PartialEq for Prefix {
    #[verifier::external_body]
    fn eq(&self, other: &Self) -> bool { unimplemented!() }
}
impl Prefix {
    #[verifier::external_body]
    pub fn new(addr: IpAddr, len: u8) -> (r: Result<Prefix, PrefixError>)
        ensures r matches Ok(p) ==> p.len_spec() == len && p.bits_spec() == addr.bits_spec()
                    && p.is_v4_spec() == addr.is_ipv4_spec(),
    { unimplemented!() }
    #[verifier::external_body]
    pub fn new_relaxed(addr: IpAddr, len: u8) -> (r: Result<Prefix, PrefixError>)
        ensures r matches Ok(p) ==> p.len_spec() == len && p.is_v4_spec() == addr.is_ipv4_spec(),
    { unimplemented!() }
    #[verifier::external_body]
    pub fn is_v6(self) -> (r: bool) ensures r == !self.is_v4_spec(),
    { unimplemented!() }
    #[verifier::external_body]
    pub fn addr_and_len(self) -> (r: (IpAddr, u8))
        ensures r.0.bits_spec() == self.bits_spec(), r.1 == self.len_spec(),
    { unimplemented!() }
    #[verifier::external_body]
    pub fn min_addr(self) -> (r: IpAddr) ensures r.bits_spec() == self.bits_spec(),
    { unimplemented!() }
    #[verifier::external_body]
    pub fn max_addr(self) -> IpAddr
    { unimplemented!() }
}

impl PartialEqSpecImpl for MaxLenPrefix {
    open spec fn obeys_eq_spec() -> bool { true }
    open spec fn eq_spec(&self, other: &MaxLenPrefix) -> bool { *self == *other }
}
impl PartialEq for MaxLenPrefix {
    #[verifier::external_body]
    fn eq(&self, other: &Self) -> bool { unimplemented!() }
}
impl MaxLenPrefix {
    // the max-length as given (None: absent)
    pub uninterp spec fn max_len_spec(&self) -> Option<u8>;
    #[verifier::external_body]
    pub fn new(prefix: Prefix, max_len: Option<u8>) -> (r: Result<MaxLenPrefix, MaxLenError>)
        ensures r matches Ok(p) ==> p.prefix_spec() == prefix && p.max_len_spec() == max_len,
    { unimplemented!() }
    #[verifier::external_body]
    pub fn saturating_new(prefix: Prefix, max_len: Option<u8>) -> (r: MaxLenPrefix)
        ensures r.prefix_spec() == prefix,
    { unimplemented!() }
    #[verifier::external_body]
    pub fn addr(self) -> (r: IpAddr) ensures r.bits_spec() == self.prefix_spec().bits_spec(),
    { unimplemented!() }
    #[verifier::external_body]
    pub fn prefix_len(self) -> (r: u8) ensures r == self.prefix_spec().len_spec(),
    { unimplemented!() }
    #[verifier::external_body]
    pub fn max_len(self) -> (r: Option<u8>) ensures r == self.max_len_spec(),
    { unimplemented!() }
}

impl RouteOrigin {
    #[verifier::external_body]
    pub fn new(prefix: MaxLenPrefix, asn: Asn) -> (r: RouteOrigin) ensures r == (RouteOrigin { prefix, asn }),
    { unimplemented!() }
}

impl PartialEqSpecImpl for RouteOrigin {
    open spec fn obeys_eq_spec() -> bool { true }
    open spec fn eq_spec(&self, other: &RouteOrigin) -> bool { *self == *other }
}
impl PartialEq for RouteOrigin {
    #[verifier::external_body]
    fn eq(&self, other: &Self) -> bool { unimplemented!() }
}
impl RouteOrigin {
    #[verifier::external_body]
    pub fn is_v4(self) -> (r: bool) ensures r == self.prefix.prefix_spec().is_v4_spec(),
    { unimplemented!() }
}

impl Prefix {
    #[verifier::external_body]
    pub fn is_v4(self) -> (r: bool) ensures r == self.is_v4_spec(),
    { unimplemented!() }
    #[verifier::external_body]
    pub fn addr(self) -> (r: IpAddr) ensures r.bits_spec() == self.bits_spec(),
    { unimplemented!() }
    #[verifier::external_body]
    pub fn len(self) -> (r: u8) ensures r == self.len_spec(),
    { unimplemented!() }
}
impl MaxLenPrefix {
    // the max-length, or the prefix length if no max-length is given
    pub uninterp spec fn resolved_max_len_spec(&self) -> u8;
    #[verifier::external_body]
    pub fn resolved_max_len(self) -> (r: u8) ensures r == self.resolved_max_len_spec(),
    { unimplemented!() }
}
impl RouterKey {
    #[verifier::external_body]
    pub fn new(key_identifier: KeyIdentifier, asn: Asn, key_info: RouterKeyInfo) -> (r: RouterKey)
        ensures r == (RouterKey { key_identifier, asn, key_info }),
    { unimplemented!() }
}
impl Aspa {
    #[verifier::external_body]
    pub fn new(customer: Asn, providers: ProviderAsns) -> (r: Aspa) ensures r == (Aspa { customer, providers }),
    { unimplemented!() }
}

// ---- std functions without a vstd specification (ASSUMED; their documented meaning)
pub assume_specification<T, E> [std::result::Result::<T, E>::unwrap_or] (_0: std::result::Result<T, E>, _1: T) -> (r: T)
    where E: std::marker::Destruct, T: std::marker::Destruct,
    ensures r == (match _0 { Ok(v) => v, Err(_) => _1 }),
;
pub assume_specification<T, E> [std::result::Result::<T, E>::unwrap_or_default] (_0: std::result::Result<T, E>) -> (r: T)
    where E: std::marker::Destruct, T: std::default::Default + std::marker::Destruct,
    ensures _0 matches Ok(v) ==> r == v,
;
pub assume_specification<T> [std::cmp::min] (_0: T, _1: T) -> (r: T)
    where T: std::cmp::Ord + std::marker::Destruct,
    ensures T::obeys_cmp_spec() ==> r == (if _0.cmp_spec(&_1) == std::cmp::Ordering::Greater { _1 } else { _0 }),
;
pub assume_specification<T> [std::cmp::max] (_0: T, _1: T) -> (r: T)
    where T: std::cmp::Ord + std::marker::Destruct,
    ensures T::obeys_cmp_spec() ==> r == (if _0.cmp_spec(&_1) == std::cmp::Ordering::Greater { _0 } else { _1 }),
;
pub assume_specification<T> [<[T]>::contains] (_0: &[T], _1: &T) -> (r: bool)
    where T: std::cmp::PartialEq,
    ensures T::obeys_eq_spec() ==> r == exists|i: int| 0 <= i < _0@.len() && (#[trigger] _0@[i]).eq_spec(_1),
;
pub assume_specification<T, P> [std::option::Option::<T>::filter] (_0: std::option::Option<T>, _1: P) -> (r: std::option::Option<T>)
    where P: std::ops::FnOnce(&T,) -> bool + std::marker::Destruct, T: std::marker::Destruct,
    ensures _0 is None ==> r is None,
            r matches Some(v) ==> _0 == Some(v) && _1.ensures((&v,), true),
            (_0 is Some && r is None) ==> _1.ensures((&_0->Some_0,), false),
        // the predicate returned SOME boolean for the element, and the result follows it
        _0 is Some ==> exists|__b: bool| _1.ensures((&_0->Some_0,), __b) && r == (if __b { _0 } else { None::<T> });
pub assume_specification<'a, T> [std::option::Option::<&T>::copied] (_0: std::option::Option<&'a T>) -> (r: std::option::Option<T>)
    where T: std::marker::Copy,
    ensures r == (match _0 { Some(v) => Some(*v), None => None }),
;
pub assume_specification<T, U, F> [std::option::Option::<T>::map_or] (_0: std::option::Option<T>, _1: U, _2: F) -> (r: U)
    where F: std::ops::FnOnce(T,) -> U + std::marker::Destruct, U: std::marker::Destruct,
    ensures _0 is None ==> r == _1,
            _0 matches Some(v) ==> _2.ensures((v,), r),
;
pub assume_specification<T> [std::option::Option::<T>::or] (_0: std::option::Option<T>, _1: std::option::Option<T>) -> (r: std::option::Option<T>)
    where T: std::marker::Destruct,
    ensures r == (if _0 is Some { _0 } else { _1 }),
;

// ---- a decoded query-string value (really Cow<str> from form_urlencoded::parse); view:
// its pieces when split at a separator character
#[verifier::external_body] pub struct QStr { _opaque: () }
#[verifier::external_body] pub struct QSplit<'a> { _p: &'a QStr }
impl<'a> Iterator for QSplit<'a> {
    type Item = &'a str;
    #[verifier::external_body]
    fn next(&mut self) -> Option<&'a str> { unimplemented!() }
}
impl QStr {
    pub uninterp spec fn parts_spec(&self, sep: char) -> Seq<&str>;
    // (really str::split)
    #[verifier::external_body]
    pub fn split(&self, sep: char) -> (r: QSplit<'_>)
        ensures r.remaining() == self.parts_spec(sep), r.obeys_prophetic_iter_laws(), r.decrease() is Some,
    { unimplemented!() }
}
