//@ fn Selection::set_more_specifics
//@ spec
    ensures final(self).more_specifics == more_specifics, final(self).resources@ == old(self).resources@,
//@ fn Selection::push_asn
//@ spec
    ensures final(self).resources@ == old(self).resources@.push(SelectResource::Asn(asn)),
            final(self).more_specifics == old(self).more_specifics,
//@ fn Selection::push_prefix
//@ spec
    ensures final(self).resources@ == old(self).resources@.push(SelectResource::Prefix(prefix)),
            final(self).more_specifics == old(self).more_specifics,
//@ fn Selection::has_resources
//@ spec
    ensures res == (self.resources@.len() > 0),
//@ fn SelectResource::include_origin
//@ spec
    ensures res == rule_admits_origin(self, origin, more_specifics),
//@ fn SelectResource::include_router_key
//@ spec
    ensures res == rule_admits_asn(self, key.asn),
//@ fn SelectResource::include_aspa
//@ spec
    ensures res == rule_admits_asn(self, aspa.customer),
//@ fn Selection::include_origin
//@ spec
    ensures
        // C21: an origin is listed iff some selection rule admits it
        res == exists|i: int| 0 <= i < self.resources@.len()
                && rule_admits_origin(#[trigger] self.resources@[i], origin, self.more_specifics),
//@ loopvar 1 it
//@ loop 1
            invariant
                it.seq() == self.resources@.map_values(|a: SelectResource| &a),
                // C21
                forall|i: int| 0 <= i < it.index@ ==>
                    !rule_admits_origin(#[trigger] self.resources@[i], origin, self.more_specifics),
//@ fn Selection::include_router_key
//@ spec
    ensures
        // C21: a router key is listed iff some select-asn rule names its AS
        res == exists|i: int| 0 <= i < self.resources@.len()
                && rule_admits_asn(#[trigger] self.resources@[i], key.asn),
//@ loopvar 1 it
//@ loop 1
            invariant
                it.seq() == self.resources@.map_values(|a: SelectResource| &a),
                // C21
                forall|i: int| 0 <= i < it.index@ ==> !rule_admits_asn(#[trigger] self.resources@[i], key.asn),
//@ fn Selection::include_aspa
//@ spec
    ensures
        // C21: an ASPA is listed iff some select-asn rule names its customer AS
        res == exists|i: int| 0 <= i < self.resources@.len()
                && rule_admits_asn(#[trigger] self.resources@[i], aspa.customer),
//@ loopvar 1 it
//@ loop 1
            invariant
                it.seq() == self.resources@.map_values(|a: SelectResource| &a),
                // C21
                forall|i: int| 0 <= i < it.index@ ==> !rule_admits_asn(#[trigger] self.resources@[i], aspa.customer),
//@ fn Output::new
//@ spec
    ensures res.selection is None, res.route_origins, res.router_keys, res.aspas,
//@ fn Output::set_selection
//@ spec
    ensures final(self).selection == Some(selection),
            final(self).route_origins == old(self).route_origins,
            final(self).router_keys == old(self).router_keys, final(self).aspas == old(self).aspas,
//@ fn Output::no_route_origins
//@ spec
    ensures !final(self).route_origins, final(self).selection == old(self).selection,
            final(self).router_keys == old(self).router_keys, final(self).aspas == old(self).aspas,
//@ fn Output::no_router_keys
//@ spec
    ensures !final(self).router_keys, final(self).selection == old(self).selection,
            final(self).route_origins == old(self).route_origins, final(self).aspas == old(self).aspas,
//@ fn Output::no_aspas
//@ spec
    ensures !final(self).aspas, final(self).selection == old(self).selection,
            final(self).route_origins == old(self).route_origins, final(self).router_keys == old(self).router_keys,
//@ fn Output::include_origin
//@ spec
    ensures
        // C21: without a selection everything is listed, otherwise exactly what the selection admits
        res == match self.selection {
            None => true,
            Some(s) => exists|i: int| 0 <= i < s.resources@.len()
                && rule_admits_origin(#[trigger] s.resources@[i], origin, s.more_specifics),
        },
//@ fn Output::include_router_key
//@ spec
    ensures
        // C21
        res == match self.selection {
            None => true,
            Some(s) => exists|i: int| 0 <= i < s.resources@.len() && rule_admits_asn(#[trigger] s.resources@[i], key.asn),
        },
//@ fn Output::include_aspa
//@ spec
    ensures
        // C21
        res == match self.selection {
            None => true,
            Some(s) => exists|i: int| 0 <= i < s.resources@.len() && rule_admits_asn(#[trigger] s.resources@[i], aspa.customer),
        },
//@ fn Output::update_from_query#include
//@ spec
    ensures
        // C21: an `include` parameter switches more-specifics on iff one of its comma-separated
        // values is `more-specifics` - whatever selectors have or have not been seen so far
        // (parameter order does not matter) - and never switches it off
        final(selection).more_specifics == (old(selection).more_specifics
            || exists|i: int| 0 <= i < value.parts_spec(',').len() && #[trigger] value.parts_spec(',')[i] == "more-specifics"),
        // C21: the selectors are untouched
        final(selection).resources@ == old(selection).resources@,
//@ entry
        let ghost parts = value.parts_spec(',');
//@ loopvar 1 it
//@ loop 1
            invariant
                it.iter.obeys_prophetic_iter_laws(),
                it.seq() == parts,
                0 <= it.index@ <= parts.len(),
                // C21
                selection.more_specifics == (old(selection).more_specifics
                    || exists|i: int| 0 <= i < it.index@ && #[trigger] parts[i] == "more-specifics"),
                selection.resources@ == old(selection).resources@,
//@ fn Output::update_from_query#exclude
//@ spec
    ensures
        // C21: an `exclude` parameter switches a payload type off iff it names it, never on
        final(self).route_origins == (old(self).route_origins
            && !exists|i: int| 0 <= i < value.parts_spec(',').len() && #[trigger] value.parts_spec(',')[i] == "routeOrigins"),
        final(self).router_keys == (old(self).router_keys
            && !exists|i: int| 0 <= i < value.parts_spec(',').len() && #[trigger] value.parts_spec(',')[i] == "routerKeys"),
        final(self).aspas == (old(self).aspas
            && !exists|i: int| 0 <= i < value.parts_spec(',').len() && #[trigger] value.parts_spec(',')[i] == "aspas"),
        final(self).selection == old(self).selection,
//@ entry
        let ghost parts = value.parts_spec(',');
//@ loopvar 1 it
//@ loop 1
            invariant
                it.iter.obeys_prophetic_iter_laws(),
                it.seq() == parts,
                0 <= it.index@ <= parts.len(),
                self.route_origins == (old(self).route_origins
                    && !exists|i: int| 0 <= i < it.index@ && #[trigger] parts[i] == "routeOrigins"),
                self.router_keys == (old(self).router_keys
                    && !exists|i: int| 0 <= i < it.index@ && #[trigger] parts[i] == "routerKeys"),
                self.aspas == (old(self).aspas
                    && !exists|i: int| 0 <= i < it.index@ && #[trigger] parts[i] == "aspas"),
                self.selection == old(self).selection,
//@ global
// ---- written from the documented selection (manual: select-asn, select-prefix,
// more-specifics), not from the code ----

// select-asn N admits VRPs with origin AS N; select-prefix Q admits VRPs whose
// prefix covers Q and, with more-specifics, also VRPs whose prefix is covered by Q.
spec fn rule_admits_origin(r: SelectResource, o: RouteOrigin, more_specifics: bool) -> bool {
    match r {
        SelectResource::Asn(asn) => o.asn == asn,
        SelectResource::Prefix(q) =>
            prefix_covers(o.prefix.prefix_spec(), q)
            || (more_specifics && prefix_covers(q, o.prefix.prefix_spec())),
    }
}

// router keys and ASPAs are selected by AS only (key AS / customer AS);
// prefix rules never select them.
spec fn rule_admits_asn(r: SelectResource, a: Asn) -> bool {
    match r {
        SelectResource::Asn(asn) => a == asn,
        SelectResource::Prefix(_) => false,
    }
}
