// Environment of unit `snapshot_builder` (C08, C09): rpki resource / payload
// types, SLURM exceptions, payload info, metrics helper. All ASSUMED; nothing
// here is repository logic.

// ---- rpki::resources::Asn
#[verifier::external_body] #[derive(Clone, Copy)] pub struct Asn { _opaque: u32 }

// ---- rpki::resources::addr::Prefix (view as in units/validity/env.rs)
#[verifier::external_body] #[derive(Clone, Copy)] pub struct Prefix { _opaque: u8 }
#[verifier::external_body] pub struct IpAddr { _opaque: () }

impl IpAddr {
    // the address left-aligned in 128 bits (IPv4 in the top 32 bits)
    pub uninterp spec fn bits_spec(&self) -> u128;
}

impl Prefix {
    pub uninterp spec fn is_v4_spec(&self) -> bool;
    pub uninterp spec fn len_spec(&self) -> u8;
    pub uninterp spec fn bits_spec(&self) -> u128;

    #[verifier::external_body]
    pub fn is_v4(self) -> (r: bool) ensures r == self.is_v4_spec(),
    { unimplemented!() }

    #[verifier::external_body]
    pub fn len(self) -> (r: u8) ensures r == self.len_spec(),
    { unimplemented!() }

    #[verifier::external_body]
    pub fn addr(self) -> (r: IpAddr) ensures r.bits_spec() == self.bits_spec(),
    { unimplemented!() }
}

pub open spec fn top_bits(x: u128, n: u8) -> u128 {
    if n == 0 { 0u128 } else if n >= 128 { x } else { x >> ((128 - n) as u128) }
}

// the set of (left-aligned 128 bit) addresses whose first `len` bits are those of `bits`
pub open spec fn block_addrs(bits: u128, len: u8) -> ISet<u128> {
    ISet::new(|a: u128| top_bits(a, len) == top_bits(bits, len))
}

// the addresses covered by a prefix
pub open spec fn prefix_addrs(p: Prefix) -> ISet<u128> {
    block_addrs(p.bits_spec(), p.len_spec())
}

// ---- rpki::resources::addr::MaxLenPrefix
#[verifier::external_body] #[derive(Clone, Copy)] pub struct MaxLenPrefix { _opaque: u8 }

impl MaxLenPrefix {
    pub uninterp spec fn prefix_spec(&self) -> Prefix;

    #[verifier::external_body]
    pub fn prefix(self) -> (r: Prefix) ensures r == self.prefix_spec(),
    { unimplemented!() }
}

// ---- rpki::rtr::payload::RouteOrigin (two public fields; Hash + Eq keys)
#[derive(Clone, Copy)]
pub struct RouteOrigin {
    pub prefix: MaxLenPrefix,
    pub asn: Asn,
}

impl RouteOrigin {
    #[verifier::external_body]
    pub fn is_v4(self) -> (r: bool) ensures r == self.prefix.prefix_spec().is_v4_spec(),
    { unimplemented!() }
}

impl PartialEq for RouteOrigin {
    #[verifier::external_body]
    fn eq(&self, other: &Self) -> bool { unimplemented!() }
}
impl Eq for RouteOrigin {}
impl std::hash::Hash for RouteOrigin {
    #[verifier::external_body]
    fn hash<H: std::hash::Hasher>(&self, state: &mut H) { unimplemented!() }
}

// ASSUMED: RouteOrigin's Hash/Eq are consistent and Eq is structural equality
// of (prefix, max-len, asn), so it obeys vstd's key model for HashMap.
pub broadcast axiom fn axiom_route_origin_key_model()
    ensures #[trigger] obeys_key_model::<RouteOrigin>();

// ---- rpki::repository::resources (IP resources of certificates)
// A set of address blocks; its view is the set of covered addresses.
#[verifier::external_body] pub struct IpBlocks { _opaque: () }
#[verifier::external_body] pub struct RawPrefix { _opaque: () }

impl RawPrefix {
    pub uninterp spec fn addrs_spec(&self) -> ISet<u128>;

    #[verifier::external_body]
    pub fn new(addr: IpAddr, len: u8) -> (r: RawPrefix)
        ensures r.addrs_spec() == block_addrs(addr.bits_spec(), len),
    { unimplemented!() }
}

impl IpBlocks {
    pub uninterp spec fn addrs_spec(&self) -> ISet<u128>;

    // ASSUMED: intersects_block is set intersection of the covered addresses
    // (really `block: impl Into<IpBlock>`).
    #[verifier::external_body]
    pub fn intersects_block(&self, block: RawPrefix) -> (r: bool)
        ensures r == !self.addrs_spec().disjoint(block.addrs_spec()),
    { unimplemented!() }

    // ASSUMED (sibling API of intersects_block in rpki, declared so that code
    // switching to it is decided rather than rejected): containment of the
    // block's addresses; emptiness; containment of another block set.
    #[verifier::external_body]
    pub fn contains_block(&self, block: RawPrefix) -> (r: bool)
        ensures r == block.addrs_spec().subset_of(self.addrs_spec()),
    { unimplemented!() }

    #[verifier::external_body]
    pub fn is_empty(&self) -> (r: bool)
        ensures r == (self.addrs_spec() =~= ISet::<u128>::empty()),
    { unimplemented!() }

    #[verifier::external_body]
    pub fn contains(&self, other: &IpBlocks) -> (r: bool)
        ensures r == other.addrs_spec().subset_of(self.addrs_spec()),
    { unimplemented!() }
}

// ---- crate::payload::info, crate::slurm
#[verifier::external_body] pub struct PublishInfo { _opaque: () }
#[verifier::external_body] pub struct ExceptionInfo { _opaque: () }
#[verifier::external_body] pub struct SmallAsnSet { _opaque: () }

pub enum Src { Published(Arc<PublishInfo>), Local(Arc<ExceptionInfo>) }

// PayloadInfo: a non-empty list of sources; view: the multiset of sources.
#[verifier::external_body] pub struct PayloadInfo { _opaque: () }

impl PayloadInfo {
    pub uninterp spec fn srcs(&self) -> Multiset<Src>;

    #[verifier::external_body]
    pub fn add_published(&mut self, info: Arc<PublishInfo>)
        ensures final(self).srcs() == old(self).srcs().insert(Src::Published(info)),
    { unimplemented!() }

    #[verifier::external_body]
    pub fn add_local(&mut self, info: Arc<ExceptionInfo>)
        ensures final(self).srcs() == old(self).srcs().insert(Src::Local(info)),
    { unimplemented!() }
}

impl vstd::std_specs::convert::FromSpecImpl<Arc<PublishInfo>> for PayloadInfo {
    open spec fn obeys_from_spec() -> bool { true }
    open spec fn from_spec(v: Arc<PublishInfo>) -> PayloadInfo { info_published(v) }
}
impl From<Arc<PublishInfo>> for PayloadInfo {
    #[verifier::external_body]
    fn from(value: Arc<PublishInfo>) -> PayloadInfo { unimplemented!() }
}
// the info of an item seen once, in a published object
pub uninterp spec fn info_published(v: Arc<PublishInfo>) -> PayloadInfo;
pub broadcast axiom fn axiom_info_published(v: Arc<PublishInfo>)
    ensures (#[trigger] info_published(v)).srcs() == Multiset::<Src>::singleton(Src::Published(v));

#[verifier::external_body] pub struct LocalExceptions { _opaque: () }

impl LocalExceptions {
    // the SLURM prefix filters drop this origin
    pub uninterp spec fn drop_origin_spec(&self, origin: RouteOrigin) -> bool;

    #[verifier::external_body]
    pub fn drop_origin(&self, origin: RouteOrigin) -> (r: bool)
        ensures r == self.drop_origin_spec(origin),
    { unimplemented!() }
}

// ---- metrics helper (crate::payload::validation::AllVrpMetrics): applies
// the closure to the per-TAL, per-repository and global counters. Counter
// values are not part of C08/C09; nothing is claimed about them.
#[verifier::external_body] pub struct AllVrpMetrics<'a> { _p: &'a mut PayloadMetrics }

impl<'a> AllVrpMetrics<'a> {
    #[verifier::external_body]
    pub fn update(&mut self, op: impl Fn(&mut PayloadMetrics))
    { unimplemented!() }

    #[verifier::external_body]
    pub fn update_origin(&mut self, v4: bool, op: impl Fn(&mut VrpMetrics))
    { unimplemented!() }
}

// ---- router keys
#[verifier::external_body] #[derive(Clone, Copy)] pub struct KeyIdentifier { _opaque: u8 }
#[verifier::external_body] pub struct RouterKeyInfo { _opaque: () }
impl Clone for RouterKeyInfo {
    #[verifier::external_body]
    fn clone(&self) -> (r: Self) ensures r == *self,
    { unimplemented!() }
}

// rpki::rtr::payload::RouterKey (three public fields; Hash + Eq keys)
pub struct RouterKey {
    pub key_identifier: KeyIdentifier,
    pub asn: Asn,
    pub key_info: RouterKeyInfo,
}

impl RouterKey {
    #[verifier::external_body]
    pub fn new(key_identifier: KeyIdentifier, asn: Asn, key_info: RouterKeyInfo) -> (r: RouterKey)
        ensures r == (RouterKey { key_identifier, asn, key_info }),
    { unimplemented!() }
}
impl PartialEq for RouterKey {
    #[verifier::external_body]
    fn eq(&self, other: &Self) -> bool { unimplemented!() }
}
impl Eq for RouterKey {}
impl std::hash::Hash for RouterKey {
    #[verifier::external_body]
    fn hash<H: std::hash::Hasher>(&self, state: &mut H) { unimplemented!() }
}
// ASSUMED: derived Hash/Eq of RouterKey obey vstd's key model.
pub broadcast axiom fn axiom_router_key_key_model()
    ensures #[trigger] obeys_key_model::<RouterKey>();

impl PartialEq for Asn {
    #[verifier::external_body]
    fn eq(&self, other: &Self) -> bool { unimplemented!() }
}
impl Eq for Asn {}
impl std::hash::Hash for Asn {
    #[verifier::external_body]
    fn hash<H: std::hash::Hasher>(&self, state: &mut H) { unimplemented!() }
}
// ASSUMED: derived Hash/Eq of Asn obey vstd's key model.
pub broadcast axiom fn axiom_asn_key_model()
    ensures #[trigger] obeys_key_model::<Asn>();

// rpki::repository::resources::AsBlocks: the AS resources of a router certificate
#[verifier::external_body] pub struct AsBlocks { _opaque: () }
#[verifier::external_body] pub struct AsnIter<'a> { _p: &'a AsBlocks }
impl<'a> Iterator for AsnIter<'a> {
    type Item = Asn;
    #[verifier::external_body]
    fn next(&mut self) -> Option<Asn> { unimplemented!() }
}

impl AsBlocks {
    // the individual ASNs, in iteration order
    pub uninterp spec fn asns_spec(&self) -> Seq<Asn>;
    pub uninterp spec fn asn_count_spec(&self) -> u32;

    // (really `impl Iterator<Item = Asn> + '_`)
    #[verifier::external_body]
    pub fn iter_asns(&self) -> (r: AsnIter<'_>)
        ensures r.remaining() == self.asns_spec(), r.obeys_prophetic_iter_laws(), r.decrease() is Some,
    { unimplemented!() }

    #[verifier::external_body]
    pub fn asn_count(&self) -> (r: u32) ensures r == self.asn_count_spec(),
    { unimplemented!() }
}

impl LocalExceptions {
    // the SLURM BGPsec filters drop this router key
    pub uninterp spec fn drop_router_key_spec(&self, key: &RouterKey) -> bool;

    #[verifier::external_body]
    pub fn drop_router_key(&self, key: &RouterKey) -> (r: bool)
        ensures r == self.drop_router_key_spec(key),
    { unimplemented!() }
}

// ---- ASPA provider sets (rpki::resources::SmallAsnSet): view = set of ASNs
impl SmallAsnSet {
    pub uninterp spec fn asns(&self) -> ISet<Asn>;

    #[verifier::external_body]
    pub fn union<'a>(&'a self, other: &'a SmallAsnSet) -> (r: SmallSetUnion<'a>)
        ensures r.asns() == self.asns().union(other.asns()),
    { unimplemented!() }
}

// The iterator returned by SmallAsnSet::union. `collect` stands for
// Iterator::collect::<SmallAsnSet>() (FromIterator<Asn> for SmallAsnSet).
#[verifier::external_body] pub struct SmallSetUnion<'a> { _p: &'a SmallAsnSet }
impl<'a> SmallSetUnion<'a> {
    pub uninterp spec fn asns(&self) -> ISet<Asn>;

    #[verifier::external_body]
    pub fn collect(self) -> (r: SmallAsnSet)
        ensures r.asns() == self.asns(),
    { unimplemented!() }
}

// ---- the rest of crate::metrics::Metrics (opaque parts)
#[verifier::external_body] pub struct Utc { _opaque: () }
#[verifier::external_body] #[verifier::reject_recursive_types(T)] pub struct DateTime<T> { _t: T }
#[verifier::external_body] pub struct RsyncModuleMetrics { _opaque: () }
#[verifier::external_body] pub struct RrdpRepositoryMetrics { _opaque: () }
#[verifier::external_body] pub struct TalMetrics { _opaque: () }
#[verifier::external_body] pub struct RepositoryMetrics { _opaque: () }
#[verifier::external_body] pub struct PublicationMetrics { _opaque: () }
#[verifier::external_body] pub struct LogBook { _opaque: () }
#[verifier::external_body] pub struct UriRsync { _opaque: () }

// ---- SLURM assertions (crate::slurm::LocalExceptions)
impl vstd::std_specs::convert::FromSpecImpl<Arc<ExceptionInfo>> for PayloadInfo {
    open spec fn obeys_from_spec() -> bool { true }
    open spec fn from_spec(v: Arc<ExceptionInfo>) -> PayloadInfo { info_local(v) }
}
impl From<Arc<ExceptionInfo>> for PayloadInfo {
    #[verifier::external_body]
    fn from(value: Arc<ExceptionInfo>) -> PayloadInfo { unimplemented!() }
}
// the info of an item seen once, in a local exception file
pub uninterp spec fn info_local(v: Arc<ExceptionInfo>) -> PayloadInfo;
pub broadcast axiom fn axiom_info_local(v: Arc<ExceptionInfo>)
    ensures (#[trigger] info_local(v)).srcs() == Multiset::<Src>::singleton(Src::Local(v));

#[verifier::external_body] pub struct OriginAssertions<'a> { _p: &'a LocalExceptions }
impl<'a> Iterator for OriginAssertions<'a> {
    type Item = (RouteOrigin, Arc<ExceptionInfo>);
    #[verifier::external_body]
    fn next(&mut self) -> Option<(RouteOrigin, Arc<ExceptionInfo>)> { unimplemented!() }
}
#[verifier::external_body] pub struct RouterKeyAssertions<'a> { _p: &'a LocalExceptions }
impl<'a> Iterator for RouterKeyAssertions<'a> {
    type Item = (RouterKey, Arc<ExceptionInfo>);
    #[verifier::external_body]
    fn next(&mut self) -> Option<(RouterKey, Arc<ExceptionInfo>)> { unimplemented!() }
}

impl LocalExceptions {
    // the SLURM prefix assertions / BGPsec assertions, in file order
    pub uninterp spec fn origin_assertions_spec(&self) -> Seq<(RouteOrigin, Arc<ExceptionInfo>)>;
    pub uninterp spec fn router_key_assertions_spec(&self) -> Seq<(RouterKey, Arc<ExceptionInfo>)>;

    // (really `impl Iterator<Item = (RouteOrigin, Arc<ExceptionInfo>)> + '_`)
    #[verifier::external_body]
    pub fn origin_assertions(&self) -> (r: OriginAssertions<'_>)
        ensures r.remaining() == self.origin_assertions_spec(), r.obeys_prophetic_iter_laws(), r.decrease() is Some,
    { unimplemented!() }

    #[verifier::external_body]
    pub fn router_key_assertions(&self) -> (r: RouterKeyAssertions<'_>)
        ensures r.remaining() == self.router_key_assertions_spec(), r.obeys_prophetic_iter_laws(), r.decrease() is Some,
    { unimplemented!() }
}

// ---- rpki::repository::x509::Time: a point in time, totally ordered
#[verifier::external_body] #[derive(Clone, Copy)] pub struct Time { _opaque: u8 }
impl Time { pub uninterp spec fn secs(&self) -> int; }
pub open spec fn time_cmp(a: Time, b: Time) -> Ordering {
    if a.secs() < b.secs() { Ordering::Less }
    else if a.secs() == b.secs() { Ordering::Equal } else { Ordering::Greater }
}
impl PartialEqSpecImpl for Time {
    open spec fn obeys_eq_spec() -> bool { true }
    open spec fn eq_spec(&self, other: &Time) -> bool { self.secs() == other.secs() }
}
impl PartialEq for Time {
    #[verifier::external_body]
    fn eq(&self, other: &Self) -> bool { unimplemented!() }
}
impl Eq for Time {}
impl PartialOrdSpecImpl for Time {
    open spec fn obeys_partial_cmp_spec() -> bool { true }
    open spec fn partial_cmp_spec(&self, other: &Time) -> Option<Ordering> { Some(time_cmp(*self, *other)) }
}
impl PartialOrd for Time {
    #[verifier::external_body]
    fn partial_cmp(&self, other: &Time) -> Option<Ordering> { unimplemented!() }
}
impl OrdSpecImpl for Time {
    open spec fn obeys_cmp_spec() -> bool { true }
    open spec fn cmp_spec(&self, other: &Time) -> Ordering { time_cmp(*self, *other) }
}
impl Ord for Time {
    #[verifier::external_body]
    fn cmp(&self, other: &Time) -> Ordering { unimplemented!() }
}

pub assume_specification<T: Ord + core::marker::Destruct> [std::cmp::min] (a: T, b: T) -> (r: T)
    ensures
        T::obeys_cmp_spec() ==> r == (if a.cmp_spec(&b) == Ordering::Greater { b } else { a }),
;

impl<'a> AllVrpMetrics<'a> {
    // borrows the per-TAL, per-repository and global payload counters
    #[verifier::external_body]
    fn new(metrics: &'a mut Metrics, tal_index: usize, repo_index: Option<usize>) -> (r: AllVrpMetrics<'a>)
        requires
            tal_index < old(metrics).tals@.len(),
            repo_index matches Some(i) ==> i < old(metrics).repositories@.len(),
        ensures
            // whatever is done through the returned counter borrows, the lists keep their lengths
            final(metrics).tals@.len() == old(metrics).tals@.len(),
            final(metrics).repositories@.len() == old(metrics).repositories@.len(),
    { unimplemented!() }
}

// ---- rpki::repository::roa::RouteOriginAttestation
#[verifier::external_body] pub struct RouteOriginAttestation { _opaque: () }
#[verifier::external_body] pub struct RoaOrigins<'a> { _p: &'a RouteOriginAttestation }
impl<'a> Iterator for RoaOrigins<'a> {
    type Item = RouteOrigin;
    #[verifier::external_body]
    fn next(&mut self) -> Option<RouteOrigin> { unimplemented!() }
}
impl RouteOriginAttestation {
    // the route origins (prefix, max-len, asn) listed in the ROA, in order
    pub uninterp spec fn origins_spec(&self) -> Seq<RouteOrigin>;

    // (really `impl Iterator<Item = RouteOrigin> + '_`)
    #[verifier::external_body]
    pub fn iter_origins(&self) -> (r: RoaOrigins<'_>)
        ensures r.remaining() == self.origins_spec(), r.obeys_prophetic_iter_laws(), r.decrease() is Some,
    { unimplemented!() }
}

// ASSUMED: slice::sort_unstable_by permutes the slice (sortedness is not used).
pub assume_specification<T, F: FnMut(&T, &T) -> Ordering> [<[T]>::sort_unstable_by] (s: &mut [T], compare: F)
    ensures final(s)@.to_multiset() == old(s)@.to_multiset(),
;

// ---- crossbeam_queue::SegQueue: an unbounded MPMC queue with interior
// mutability. `pushed(q, x)` is a monotone ghost fact: x has been pushed to q.
#[verifier::external_body] #[verifier::reject_recursive_types(T)] pub struct SegQueue<T> { _t: T }
pub uninterp spec fn pushed<T>(q: &SegQueue<T>, item: T) -> bool;
// `push_allowed(q, x)` is a permission: a function may push x to q only if its
// precondition grants it. It gives `&self` pushes a negative frame ("nothing
// else is pushed"), which a monotone fact alone cannot express.
pub uninterp spec fn push_allowed<T>(q: &SegQueue<T>, item: T) -> bool;
pub uninterp spec fn observed_empty<T>(q: &SegQueue<T>) -> bool;
impl<T> SegQueue<T> {
    #[verifier::external_body]
    pub fn push(&self, item: T)
        requires push_allowed(self, item),
        ensures pushed(self, item),
    { unimplemented!() }

    // ASSUMED: only pushed items are popped; `observed_empty(q)` is a monotone fact:
    // a pop on q returned None (q has been drained by its owner)
    #[verifier::external_body]
    pub fn pop(&self) -> (r: Option<T>)
        ensures r matches Some(x) ==> pushed(self, x),
                r is None ==> observed_empty(self),
    { unimplemented!() }
}

#[verifier::external_body] pub struct IpBlock { _opaque: () }
#[verifier::external_body] pub struct AsBlock { _opaque: () }

// ---- certificates and signed objects (rpki::repository)
#[verifier::external_body] pub struct Cert { _opaque: () }
#[verifier::external_body] pub struct ResourceCert { _opaque: () }
#[verifier::external_body] pub struct CaCert { _opaque: () }
#[verifier::external_body] pub struct TalInfo { _opaque: () }
#[verifier::external_body] #[derive(Clone, Copy)] pub struct Validity { _opaque: u8 }
#[verifier::external_body] pub struct AsResources { _opaque: () }
#[verifier::external_body] pub struct PublicKey { _opaque: () }
#[verifier::external_body] pub struct Bytes { _opaque: () }
#[verifier::external_body] pub struct KeyInfoError { _opaque: () }
#[verifier::external_body] pub struct AsBlocksError { _opaque: () }
#[verifier::external_body] pub struct Failed { _opaque: () }
#[verifier::external_body] pub struct AsProviderAttestation { _opaque: () }

impl Validity {
    #[verifier::external_body]
    pub fn not_after(self) -> Time { unimplemented!() }
}
impl AsResources {
    pub uninterp spec fn blocks_spec(&self) -> Result<AsBlocks, AsBlocksError>;
    #[verifier::external_body]
    pub fn is_inherited(&self) -> bool { unimplemented!() }
    #[verifier::external_body]
    pub fn is_present(&self) -> bool { unimplemented!() }
    #[verifier::external_body]
    pub fn to_blocks(&self) -> (r: Result<AsBlocks, AsBlocksError>) ensures r == self.blocks_spec(),
    { unimplemented!() }
}
impl PublicKey {
    #[verifier::external_body]
    pub fn allow_router_cert(&self) -> bool { unimplemented!() }
    #[verifier::external_body]
    pub fn to_info_bytes(&self) -> Bytes { unimplemented!() }
}
impl RouterKeyInfo {
    #[verifier::external_body]
    pub fn new(bytes: Bytes) -> Result<RouterKeyInfo, KeyInfoError> { unimplemented!() }
}
impl Cert {
    pub uninterp spec fn as_resources_spec(&self) -> &AsResources;
    pub uninterp spec fn ski_spec(&self) -> KeyIdentifier;
    #[verifier::external_body]
    pub fn as_resources(&self) -> (r: &AsResources) ensures r == self.as_resources_spec(),
    { unimplemented!() }
    #[verifier::external_body]
    pub fn subject_key_identifier(&self) -> (r: KeyIdentifier) ensures r == self.ski_spec(),
    { unimplemented!() }
    #[verifier::external_body]
    pub fn subject_public_key_info(&self) -> &PublicKey { unimplemented!() }
    #[verifier::external_body]
    pub fn validity(&self) -> Validity { unimplemented!() }
    #[verifier::external_body]
    pub fn tal(&self) -> &Arc<TalInfo> { unimplemented!() }
}
impl ResourceCert {
    #[verifier::external_body]
    pub fn validity(&self) -> Validity { unimplemented!() }
}
impl CaCert {
    #[verifier::external_body]
    pub fn cert(&self) -> (r: &ResourceCert) ensures r == self.cert_spec(),
    { unimplemented!() }
}
impl ResourceCert {
    #[verifier::external_body]
    pub fn tal(&self) -> &Arc<TalInfo> { unimplemented!() }
}
impl PublishInfo {
    #[verifier::external_body]
    pub fn router_cert(cert: &Cert, uri: &UriRsync, tal: Arc<TalInfo>, validity: Validity, point_stale: Time) -> PublishInfo
    { unimplemented!() }
    #[verifier::external_body]
    pub fn signed_object(cert: &ResourceCert, validity: Validity, point_stale: Time) -> PublishInfo
    { unimplemented!() }
}
impl AsProviderAttestation {
    pub uninterp spec fn customer_spec(&self) -> Asn;
    pub uninterp spec fn providers_spec(&self) -> SmallAsnSet;
    #[verifier::external_body]
    pub fn customer_as(&self) -> (r: Asn) ensures r == self.customer_spec(),
    { unimplemented!() }
    #[verifier::external_body]
    pub fn provider_as_set(&self) -> (r: &ProviderAsSet) ensures r.to_set_spec() == self.providers_spec(),
    { unimplemented!() }
}
#[verifier::external_body] pub struct ProviderAsSet { _opaque: () }
impl ProviderAsSet {
    pub uninterp spec fn to_set_spec(&self) -> SmallAsnSet;
    #[verifier::external_body]
    pub fn to_set(&self) -> (r: SmallAsnSet) ensures r == self.to_set_spec(),
    { unimplemented!() }
}

// ---- IP / AS resources of a certificate as lists of blocks
impl IpBlock {
    pub uninterp spec fn addrs_spec(&self) -> ISet<u128>;
    // the block is the whole address family (prefix of length zero)
    pub uninterp spec fn is_slash_zero_spec(&self) -> bool;
    #[verifier::external_body]
    pub fn is_slash_zero(&self) -> (r: bool) ensures r == self.is_slash_zero_spec(),
    { unimplemented!() }
}
impl AsBlock {
    pub uninterp spec fn is_whole_range_spec(&self) -> bool;
    #[verifier::external_body]
    pub fn is_whole_range(&self) -> (r: bool) ensures r == self.is_whole_range_spec(),
    { unimplemented!() }
}

#[verifier::external_body] pub struct IpBlocksIter<'a> { _p: &'a IpBlocks }
impl<'a> Iterator for IpBlocksIter<'a> {
    type Item = IpBlock;
    #[verifier::external_body]
    fn next(&mut self) -> Option<IpBlock> { unimplemented!() }
}
#[verifier::external_body] pub struct AsBlocksIter<'a> { _p: &'a AsResources }
impl<'a> Iterator for AsBlocksIter<'a> {
    type Item = AsBlock;
    #[verifier::external_body]
    fn next(&mut self) -> Option<AsBlock> { unimplemented!() }
}
// ASSUMED model of std's Iterator::filter for these two iterators (declared as
// inherent methods because the vstd specification of Filter could not be
// inspected): the result yields exactly the items for which the predicate
// closure returns true.
#[verifier::external_body] #[verifier::reject_recursive_types(F)]
pub struct FilteredIpBlocks<'a, F> { _p: &'a IpBlocks, _f: F }
impl<'a, F: FnMut(&IpBlock) -> bool> Iterator for FilteredIpBlocks<'a, F> {
    type Item = IpBlock;
    #[verifier::external_body]
    fn next(&mut self) -> Option<IpBlock> { unimplemented!() }
}
#[verifier::external_body] #[verifier::reject_recursive_types(F)]
pub struct FilteredAsBlocks<'a, F> { _p: &'a AsResources, _f: F }
impl<'a, F: FnMut(&AsBlock) -> bool> Iterator for FilteredAsBlocks<'a, F> {
    type Item = AsBlock;
    #[verifier::external_body]
    fn next(&mut self) -> Option<AsBlock> { unimplemented!() }
}
impl<'a> IpBlocksIter<'a> {
    #[verifier::external_body]
    pub fn filter<F: FnMut(&IpBlock) -> bool>(self, f: F) -> (r: FilteredIpBlocks<'a, F>)
        ensures
            // only items on which the predicate can return true are yielded ...
            forall|x: IpBlock| #[trigger] r.remaining().contains(x)
                ==> (self.remaining().contains(x) && f.ensures((&x,), true)),
            // ... and every item on which it cannot return false is yielded
            forall|x: IpBlock| self.remaining().contains(x) && !f.ensures((&x,), false)
                ==> #[trigger] r.remaining().contains(x),
            r.obeys_prophetic_iter_laws(), r.decrease() is Some,
    { unimplemented!() }
}
impl<'a> AsBlocksIter<'a> {
    #[verifier::external_body]
    pub fn filter<F: FnMut(&AsBlock) -> bool>(self, f: F) -> (r: FilteredAsBlocks<'a, F>)
        ensures
            // only items on which the predicate can return true are yielded ...
            forall|x: AsBlock| #[trigger] r.remaining().contains(x)
                ==> (self.remaining().contains(x) && f.ensures((&x,), true)),
            // ... and every item on which it cannot return false is yielded
            forall|x: AsBlock| self.remaining().contains(x) && !f.ensures((&x,), false)
                ==> #[trigger] r.remaining().contains(x),
            r.obeys_prophetic_iter_laws(), r.decrease() is Some,
    { unimplemented!() }
}
impl IpBlocks {
    pub uninterp spec fn blocks_spec(&self) -> Seq<IpBlock>;
    #[verifier::external_body]
    pub fn iter(&self) -> (r: IpBlocksIter<'_>)
        ensures r.remaining() == self.blocks_spec(), r.obeys_prophetic_iter_laws(), r.decrease() is Some,
    { unimplemented!() }
}
impl AsResources {
    pub uninterp spec fn as_blocks_spec(&self) -> Seq<AsBlock>;
    #[verifier::external_body]
    pub fn iter(&self) -> (r: AsBlocksIter<'_>)
        ensures r.remaining() == self.as_blocks_spec(), r.obeys_prophetic_iter_laws(), r.decrease() is Some,
    { unimplemented!() }
}
impl ResourceCert {
    pub uninterp spec fn v4_spec(&self) -> &IpBlocks;
    pub uninterp spec fn v6_spec(&self) -> &IpBlocks;
    pub uninterp spec fn asres_spec(&self) -> &AsResources;
    #[verifier::external_body]
    pub fn v4_resources(&self) -> (r: &IpBlocks) ensures r == self.v4_spec(),
    { unimplemented!() }
    #[verifier::external_body]
    pub fn v6_resources(&self) -> (r: &IpBlocks) ensures r == self.v6_spec(),
    { unimplemented!() }
    #[verifier::external_body]
    pub fn as_resources(&self) -> (r: &AsResources) ensures r == self.asres_spec(),
    { unimplemented!() }
}
impl CaCert { pub uninterp spec fn cert_spec(&self) -> &ResourceCert; }

// ---- rpki::repository::resources::IpBlocksBuilder: view = covered addresses
#[verifier::external_body] pub struct IpBlocksBuilder { _opaque: () }
impl IpBlocksBuilder {
    pub uninterp spec fn addrs_spec(&self) -> ISet<u128>;
    #[verifier::external_body]
    pub fn new() -> (r: IpBlocksBuilder) ensures r.addrs_spec() == ISet::<u128>::empty(),
    { unimplemented!() }
    // (really `block: impl Into<IpBlock>`)
    #[verifier::external_body]
    pub fn push(&mut self, block: IpBlock)
        ensures final(self).addrs_spec() == old(self).addrs_spec().union(block.addrs_spec()),
    { unimplemented!() }
    #[verifier::external_body]
    pub fn finalize(self) -> (r: IpBlocks) ensures r.addrs_spec() == self.addrs_spec(),
    { unimplemented!() }
}

// ---- further API of the rpki resource types (declared so that code using
// them still reaches the verifier; contracts as far as the abstract view goes)
#[verifier::external_body] pub struct PrefixError { _opaque: () }
#[verifier::external_body] pub struct MaxLenError { _opaque: () }

impl IpAddr {
    pub uninterp spec fn is_ipv4_spec(&self) -> bool;
    #[verifier::external_body]
    pub fn is_ipv4(&self) -> (r: bool) ensures r == self.is_ipv4_spec(),
    { unimplemented!() }
    #[verifier::external_body]
    pub fn is_ipv6(&self) -> (r: bool) ensures r == !self.is_ipv4_spec(),
    { unimplemented!() }
}

impl Asn {
    // the AS number
    pub uninterp spec fn u32_spec(&self) -> u32;
    #[verifier::external_body]
    pub fn from_u32(value: u32) -> (r: Asn) ensures r.u32_spec() == value,
    { unimplemented!() }
    #[verifier::external_body]
    pub fn into_u32(self) -> (r: u32) ensures r == self.u32_spec(),
    { unimplemented!() }
}
// an Asn is determined by its number
pub broadcast axiom fn axiom_asn_ext(a: Asn, b: Asn)
    ensures (#[trigger] a.u32_spec() == #[trigger] b.u32_spec()) ==> a == b;
impl vstd::std_specs::convert::FromSpecImpl<u32> for Asn {
    open spec fn obeys_from_spec() -> bool { false }
    uninterp spec fn from_spec(v: u32) -> Asn;
}
impl From<u32> for Asn {
    #[verifier::external_body]
    fn from(value: u32) -> (r: Asn) ensures r.u32_spec() == value,
    { unimplemented!() }
}

impl PartialEqSpecImpl for Prefix {
    open spec fn obeys_eq_spec() -> bool { true }
    open spec fn eq_spec(&self, other: &Prefix) -> bool { *self == *other }
}
impl PartialEq for Prefix {
    #[verifier::external_body]
    fn eq(&self, other: &Self) -> bool { unimplemented!() }
}
impl Prefix {
    #[verifier::external_body]
    pub fn new(addr: IpAddr, len: u8) -> (r: Result<Prefix, PrefixError>)
        ensures r matches Ok(p) ==> p.len_spec() == len && p.bits_spec() == addr.bits_spec()
                    && p.is_v4_spec() == addr.is_ipv4_spec(),
    { unimplemented!() }
    #[verifier::external_body]
    pub fn new_relaxed(addr: IpAddr, len: u8) -> (r: Result<Prefix, PrefixError>)
        ensures r matches Ok(p) ==> p.len_spec() == len && p.is_v4_spec() == addr.is_ipv4_spec(),
    { unimplemented!() }
    #[verifier::external_body]
    pub fn is_v6(self) -> (r: bool) ensures r == !self.is_v4_spec(),
    { unimplemented!() }
    #[verifier::external_body]
    pub fn addr_and_len(self) -> (r: (IpAddr, u8))
        ensures r.0.bits_spec() == self.bits_spec(), r.1 == self.len_spec(),
    { unimplemented!() }
    #[verifier::external_body]
    pub fn min_addr(self) -> (r: IpAddr) ensures r.bits_spec() == self.bits_spec(),
    { unimplemented!() }
    #[verifier::external_body]
    pub fn max_addr(self) -> IpAddr
    { unimplemented!() }
}

impl PartialEqSpecImpl for MaxLenPrefix {
    open spec fn obeys_eq_spec() -> bool { true }
    open spec fn eq_spec(&self, other: &MaxLenPrefix) -> bool { *self == *other }
}
impl PartialEq for MaxLenPrefix {
    #[verifier::external_body]
    fn eq(&self, other: &Self) -> bool { unimplemented!() }
}
impl MaxLenPrefix {
    // the max-length as given (None: absent)
    pub uninterp spec fn max_len_spec(&self) -> Option<u8>;
    #[verifier::external_body]
    pub fn new(prefix: Prefix, max_len: Option<u8>) -> (r: Result<MaxLenPrefix, MaxLenError>)
        ensures r matches Ok(p) ==> p.prefix_spec() == prefix && p.max_len_spec() == max_len,
    { unimplemented!() }
    #[verifier::external_body]
    pub fn saturating_new(prefix: Prefix, max_len: Option<u8>) -> (r: MaxLenPrefix)
        ensures r.prefix_spec() == prefix,
    { unimplemented!() }
    #[verifier::external_body]
    pub fn addr(self) -> (r: IpAddr) ensures r.bits_spec() == self.prefix_spec().bits_spec(),
    { unimplemented!() }
    #[verifier::external_body]
    pub fn prefix_len(self) -> (r: u8) ensures r == self.prefix_spec().len_spec(),
    { unimplemented!() }
    #[verifier::external_body]
    pub fn max_len(self) -> (r: Option<u8>) ensures r == self.max_len_spec(),
    { unimplemented!() }
}

impl RouteOrigin {
    #[verifier::external_body]
    pub fn new(prefix: MaxLenPrefix, asn: Asn) -> (r: RouteOrigin) ensures r == (RouteOrigin { prefix, asn }),
    { unimplemented!() }
}

impl MaxLenPrefix {
    // the max-length, or the prefix length if no max-length is given
    pub uninterp spec fn resolved_max_len_spec(&self) -> u8;
    #[verifier::external_body]
    pub fn resolved_max_len(self) -> (r: u8) ensures r == self.resolved_max_len_spec(),
    { unimplemented!() }
}
impl Validity {
    #[verifier::external_body]
    pub fn not_before(self) -> Time { unimplemented!() }
    #[verifier::external_body]
    pub fn trim(self, other: Validity) -> Validity { unimplemented!() }
}
impl<T> SegQueue<T> {
    #[verifier::external_body]
    pub fn is_empty(&self) -> bool { unimplemented!() }
    #[verifier::external_body]
    pub fn len(&self) -> usize { unimplemented!() }
}
impl SmallAsnSet {
    #[verifier::external_body]
    pub fn len(&self) -> (r: usize) ensures r == self.count_spec(),
    { unimplemented!() }
    #[verifier::external_body]
    pub fn is_empty(&self) -> (r: bool) ensures r == (self.count_spec() == 0),
    { unimplemented!() }
    #[verifier::external_body]
    pub fn contains(&self, asn: Asn) -> (r: bool) ensures r == self.asns().contains(asn),
    { unimplemented!() }
}
impl LocalExceptions {
    #[verifier::external_body]
    pub fn empty() -> LocalExceptions { unimplemented!() }
}
// ---- std functions without a vstd specification (ASSUMED; their documented meaning)
pub assume_specification<T, E> [std::result::Result::<T, E>::unwrap_or] (_0: std::result::Result<T, E>, _1: T) -> (r: T)
    where E: std::marker::Destruct, T: std::marker::Destruct,
    ensures r == (match _0 { Ok(v) => v, Err(_) => _1 }),
;
pub assume_specification<T, E> [std::result::Result::<T, E>::unwrap_or_default] (_0: std::result::Result<T, E>) -> (r: T)
    where E: std::marker::Destruct, T: std::default::Default + std::marker::Destruct,
    ensures _0 matches Ok(v) ==> r == v,
;
pub assume_specification<T> [std::cmp::max] (_0: T, _1: T) -> (r: T)
    where T: std::cmp::Ord + std::marker::Destruct,
    ensures T::obeys_cmp_spec() ==> r == (if _0.cmp_spec(&_1) == std::cmp::Ordering::Greater { _0 } else { _1 }),
;
pub assume_specification<T> [<[T]>::contains] (_0: &[T], _1: &T) -> (r: bool)
    where T: std::cmp::PartialEq,
    ensures T::obeys_eq_spec() ==> r == exists|i: int| 0 <= i < _0@.len() && (#[trigger] _0@[i]).eq_spec(_1),
;
pub assume_specification<T, P> [std::option::Option::<T>::filter] (_0: std::option::Option<T>, _1: P) -> (r: std::option::Option<T>)
    where P: std::ops::FnOnce(&T,) -> bool + std::marker::Destruct, T: std::marker::Destruct,
    ensures _0 is None ==> r is None,
            r matches Some(v) ==> _0 == Some(v) && _1.ensures((&v,), true),
            (_0 is Some && r is None) ==> _1.ensures((&_0->Some_0,), false),
        // the predicate returned SOME boolean for the element, and the result follows it
        _0 is Some ==> exists|__b: bool| _1.ensures((&_0->Some_0,), __b) && r == (if __b { _0 } else { None::<T> });
pub assume_specification<'a, T> [std::option::Option::<&T>::copied] (_0: std::option::Option<&'a T>) -> (r: std::option::Option<T>)
    where T: std::marker::Copy,
    ensures r == (match _0 { Some(v) => Some(*v), None => None }),
;
pub assume_specification<T, U, F> [std::option::Option::<T>::map_or] (_0: std::option::Option<T>, _1: U, _2: F) -> (r: U)
    where F: std::ops::FnOnce(T,) -> U + std::marker::Destruct, U: std::marker::Destruct,
    ensures _0 is None ==> r == _1,
            _0 matches Some(v) ==> _2.ensures((v,), r),
;
pub assume_specification<T> [std::option::Option::<T>::or] (_0: std::option::Option<T>, _1: std::option::Option<T>) -> (r: std::option::Option<T>)
    where T: std::marker::Destruct,
    ensures r == (if _0 is Some { _0 } else { _1 }),
;

// ---- more of rpki's ASN set API (SmallAsnSet, its iterators, ProviderAsns),
// declared so that variants of the ASPA merge still reach the verifier.
// count_spec: the number of ASNs (the sets are finite in reality).
impl SmallAsnSet {
    pub uninterp spec fn count_spec(&self) -> nat;
    #[verifier::external_body]
    pub fn iter(&self) -> (r: SmallSetIter<'_>)
        ensures r.asns() == self.asns(), r.count_spec() == self.count_spec(),
    { unimplemented!() }
    #[verifier::external_body]
    pub fn intersection<'a>(&'a self, other: &'a SmallAsnSet) -> (r: SmallSetUnion<'a>)
        ensures r.asns() == self.asns().intersect(other.asns()),
    { unimplemented!() }
    #[verifier::external_body]
    pub fn difference<'a>(&'a self, other: &'a SmallAsnSet) -> (r: SmallSetUnion<'a>)
        ensures r.asns() == self.asns().difference(other.asns()),
                forall|a: Asn| #![trigger self.asns().contains(a)]
                    self.asns().contains(a) && !other.asns().contains(a) ==> r.asns().contains(a),
    { unimplemented!() }
}
#[verifier::external_body] pub struct SmallSetIter<'a> { _p: &'a SmallAsnSet }
impl<'a> Iterator for SmallSetIter<'a> {
    type Item = Asn;
    #[verifier::external_body]
    fn next(&mut self) -> Option<Asn> { unimplemented!() }
}
impl<'a> SmallSetIter<'a> {
    pub uninterp spec fn asns(&self) -> ISet<Asn>;
    pub uninterp spec fn count_spec(&self) -> nat;
}
// the set iterators (union, intersection, difference) truncated to their first n items:
// a subset of at most n ASNs, everything if there were no more than n
#[verifier::external_body] pub struct SmallSetTake<'a> { _p: &'a SmallAsnSet }
impl<'a> SmallSetTake<'a> {
    pub uninterp spec fn asns(&self) -> ISet<Asn>;
    pub uninterp spec fn count_spec(&self) -> nat;
    #[verifier::external_body]
    pub fn collect(self) -> (r: SmallAsnSet)
        ensures r.asns() == self.asns(), r.count_spec() == self.count_spec(),
    { unimplemented!() }
}
impl<'a> SmallSetUnion<'a> {
    pub uninterp spec fn count_spec(&self) -> nat;
    // stands for Iterator::take on the set iterator
    #[verifier::external_body]
    pub fn take(self, n: usize) -> (r: SmallSetTake<'a>)
        ensures
            r.asns().subset_of(self.asns()), r.count_spec() <= n, r.count_spec() <= self.count_spec(),
            self.count_spec() <= n ==> r.asns() == self.asns() && r.count_spec() == self.count_spec(),
    { unimplemented!() }
    // stands for Iterator::count
    #[verifier::external_body]
    pub fn count(self) -> (r: usize) ensures r == self.count_spec(),
    { unimplemented!() }
}

// rpki::rtr::pdu::ProviderAsns: the provider set in its RTR encoding, at most MAX_COUNT ASNs
#[verifier::external_body] pub struct ProviderAsns { _opaque: () }
#[verifier::external_body] pub struct ProviderAsnsError { _opaque: () }
impl ProviderAsns {
    pub const MAX_COUNT: usize = 16380;
    pub uninterp spec fn asns(&self) -> ISet<Asn>;
    pub uninterp spec fn count_spec(&self) -> nat;
    #[verifier::external_body]
    pub fn empty() -> (r: ProviderAsns) ensures r.asns() == ISet::<Asn>::empty(), r.count_spec() == 0,
    { unimplemented!() }
    // ASSUMED (rpki): fails iff the iterator yields more than MAX_COUNT ASNs; otherwise the same ASNs
    // (really `iter: impl IntoIterator<Item = Asn>`)
    #[verifier::external_body]
    pub fn try_from_iter(iter: SmallSetIter<'_>) -> (r: Result<ProviderAsns, ProviderAsnsError>)
        ensures
            r is Ok <==> iter.count_spec() <= 16380,
            r matches Ok(p) ==> p.asns() == iter.asns() && p.count_spec() == iter.count_spec(),
    { unimplemented!() }
    #[verifier::external_body]
    pub fn asn_count(&self) -> (r: u16) ensures r == self.count_spec(),
    { unimplemented!() }
    #[verifier::external_body]
    pub fn len(&self) -> usize { unimplemented!() }
    #[verifier::external_body]
    pub fn is_empty(&self) -> (r: bool) ensures r == (self.count_spec() == 0),
    { unimplemented!() }
}
// rpki::rtr::payload::Aspa (two public fields)
pub struct Aspa { pub customer: Asn, pub providers: ProviderAsns }
impl Aspa {
    #[verifier::external_body]
    pub fn new(customer: Asn, providers: ProviderAsns) -> (r: Aspa) ensures r == (Aspa { customer, providers }),
    { unimplemented!() }
}
impl Default for SmallAsnSet {
    #[verifier::external_body]
    fn default() -> SmallAsnSet { unimplemented!() }
}
impl Clone for SmallAsnSet {
    #[verifier::external_body]
    fn clone(&self) -> (r: Self) ensures r == *self,
    { unimplemented!() }
}
impl Clone for ProviderAsns {
    #[verifier::external_body]
    fn clone(&self) -> (r: Self) ensures r == *self,
    { unimplemented!() }
}

impl<T> Default for SegQueue<T> {
    #[verifier::external_body]
    fn default() -> SegQueue<T> { unimplemented!() }
}

// ---- crate::config::Config: only the fields ValidationReport::new reads (the real
// struct has some 60 fields of many types; it is declared here, not extracted)
pub struct Config {
    pub unsafe_vrps: FilterPolicy,
    pub enable_bgpsec: bool,
    pub enable_aspa: bool,
    pub limit_v4_len: Option<u8>,
    pub limit_v6_len: Option<u8>,
    pub log_level: LevelFilter,
}
// log::LevelFilter, ordered Off < Error < Warn < Info < Debug < Trace
#[derive(Clone, Copy)]
pub enum LevelFilter { Off, Error, Warn, Info, Debug, Trace }
pub open spec fn level_rank(l: LevelFilter) -> int {
    match l { LevelFilter::Off => 0, LevelFilter::Error => 1, LevelFilter::Warn => 2,
              LevelFilter::Info => 3, LevelFilter::Debug => 4, LevelFilter::Trace => 5 }
}
impl PartialEqSpecImpl for LevelFilter {
    open spec fn obeys_eq_spec() -> bool { true }
    open spec fn eq_spec(&self, other: &LevelFilter) -> bool { *self == *other }
}
impl PartialEq for LevelFilter {
    #[verifier::external_body]
    fn eq(&self, other: &Self) -> bool { unimplemented!() }
}
impl PartialOrdSpecImpl for LevelFilter {
    open spec fn obeys_partial_cmp_spec() -> bool { true }
    open spec fn partial_cmp_spec(&self, other: &LevelFilter) -> Option<Ordering> {
        if level_rank(*self) < level_rank(*other) { Some(Ordering::Less) }
        else if level_rank(*self) == level_rank(*other) { Some(Ordering::Equal) } else { Some(Ordering::Greater) }
    }
}
impl PartialOrd for LevelFilter {
    #[verifier::external_body]
    fn partial_cmp(&self, other: &LevelFilter) -> Option<Ordering> { unimplemented!() }
}

// ---- crate::payload::PayloadSnapshot: the served data set. `built_under` is the ghost
// record of the unsafe-VRP filter state (rejected resources, policy) it was built under.
#[verifier::external_body] pub struct PayloadSnapshot { _opaque: () }

// ---- the set-operation iterators of SmallAsnSet used as iterators (SmallSetUnion stands
// for rpki's SmallSetUnion / SmallSetIntersection / SmallSetDifference /
// SmallSetSymmetricDifference; view: the set of ASNs still to be yielded)
impl<'a> SmallSetUnion<'a> {
    // stands for Iterator::next: yields an element of the remaining set, None iff it is empty
    #[verifier::external_body]
    pub fn next(&mut self) -> (r: Option<Asn>)
        ensures
            r is None <==> (forall|a: Asn| !old(self).asns().contains(a)),
            r matches Some(a) ==> old(self).asns().contains(a) && final(self).asns() == old(self).asns().remove(a),
            r is None ==> final(self).asns() == old(self).asns(),
            (r is None <==> old(self).count_spec() == 0),
    { unimplemented!() }
    // stands for Iterator::any / Iterator::all with a closure: nothing is claimed
    #[verifier::external_body]
    pub fn any<F: FnMut(Asn) -> bool>(&mut self, f: F) -> bool { unimplemented!() }
    #[verifier::external_body]
    pub fn all<F: FnMut(Asn) -> bool>(&mut self, f: F) -> bool { unimplemented!() }
}
impl SmallAsnSet {
    #[verifier::external_body]
    pub fn symmetric_difference<'a>(&'a self, other: &'a SmallAsnSet) -> (r: SmallSetUnion<'a>)
        ensures r.asns() == self.asns().difference(other.asns()).union(other.asns().difference(self.asns())),
    { unimplemented!() }
}
