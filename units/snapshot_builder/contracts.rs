//@ prelude
// ASSUMED stand-in for SnapshotBuilder::finalize (not extractable: it ends in into_snapshot,
// which Verus rejects; insert_assertions and the ASPA closure are under contract separately).
pub uninterp spec fn built_under(s: &PayloadSnapshot) -> (RejectedResources, FilterPolicy);
impl<'a> SnapshotBuilder<'a> {
    #[verifier::external_body]
    fn finalize(self, metrics: &mut Metrics) -> (r: PayloadSnapshot)
        ensures built_under(&r) == (self.rejected, self.unsafe_vrps),
    { unimplemented!() }
}
//@ fn ValidationReport::new
//@ spec
    ensures
        // C08: the unsafe-VRP policy of the report is the configured one
        res.unsafe_vrps == config.unsafe_vrps,
        // C09: toggles and limits are the configured ones
        res.enable_bgpsec == config.enable_bgpsec, res.enable_aspa == config.enable_aspa,
        res.limit_v4_len == config.limit_v4_len, res.limit_v6_len == config.limit_v6_len,
        // (log_rejected is deliberately unconstrained: it may only influence logging;
        // no contract of this unit depends on it)
//@ fn ValidationReport::into_snapshot
//@ spec
    requires
        // the publication points' metric indexes are valid (as created by the engine)
        forall|p: PubPoint| #[trigger] pushed(&self.pub_points, p) ==> p.tal_index < old(metrics).tals@.len()
            && (p.repository_index matches Some(i) ==> i < old(metrics).repositories@.len()),
    ensures
        // C08: whatever log_rejected is, the snapshot is built under the rejected resources drained
        // from THIS report's collection of rejected-CA blocks and under the report's policy
        rejected_from(&self.rejected, &built_under(&res).0),
        // C08
        built_under(&res).1 == self.unsafe_vrps,
//@ loop 1
            invariant
                // C08
                rejected_from(&self.rejected, &builder.rejected),
                // C08
                builder.unsafe_vrps == self.unsafe_vrps,
                metrics.tals@.len() == old(metrics).tals@.len(),
                metrics.repositories@.len() == old(metrics).repositories@.len(),
                forall|p: PubPoint| #[trigger] pushed(&self.pub_points, p) ==> p.tal_index < old(metrics).tals@.len()
                    && (p.repository_index matches Some(i) ==> i < old(metrics).repositories@.len()),
//@ fn FilterPolicy::log
//@ spec
    ensures res == (self is Reject || self is Warn),
//@ fn RejectedResources::keep_prefix
//@ spec
    ensures
        // C08 + C09: a prefix is kept iff it shares no address with the rejected
        // resources of its own address family
        res == self.rejected_addrs(prefix.is_v4_spec()).disjoint(prefix_addrs(prefix)),
//@ fn SnapshotBuilder::process_origin
//@ spec
    ensures
        // C08 + C09: the origin map after the call, over the whole map.
        //   dropped   <=> (policy is reject and the prefix overlaps rejected resources) or a SLURM filter drops it
        //   otherwise  the origin is a key afterwards; all other keys and their infos are untouched
        ({
            let o = origin.origin;
            let dropped = (is_unsafe(&old(self).rejected, o) && old(self).unsafe_vrps is Reject)
                || old(self).exceptions.drop_origin_spec(o);
            &&& dropped ==> final(self).origins@ == old(self).origins@
            &&& !dropped && !old(self).origins@.contains_key(o) ==>
                    final(self).origins@ == old(self).origins@.insert(o, info_published(origin.info))
            &&& !dropped && old(self).origins@.contains_key(o) ==> {
                    &&& final(self).origins@.dom() == old(self).origins@.dom()
                    &&& forall|k: RouteOrigin| k != o && old(self).origins@.contains_key(k)
                            ==> final(self).origins@[k] == old(self).origins@[k]
                    &&& final(self).origins@[o].srcs() == old(self).origins@[o].srcs().insert(Src::Published(origin.info))
                }
        }),
        // C08 + C09 + C41: the policy table - an origin is dropped because of rejected resources
        // ONLY under reject; with warn or accept the unsafe-VRP filter removes nothing (a rejected
        // CA does not change the payload of other subtrees): the result does not depend on
        // whether the prefix overlaps rejected resources
        !(old(self).unsafe_vrps is Reject) && !old(self).exceptions.drop_origin_spec(origin.origin)
            ==> final(self).origins@.contains_key(origin.origin),
        // C08 + C09: with reject an overlapping VRP is never added
        old(self).unsafe_vrps is Reject && is_unsafe(&old(self).rejected, origin.origin)
            ==> final(self).origins@ == old(self).origins@,
        // frame
        final(self).router_keys@ == old(self).router_keys@,
        final(self).aspas@ == old(self).aspas@,
        final(self).rejected == old(self).rejected,
        final(self).unsafe_vrps == old(self).unsafe_vrps,
        final(self).refresh == old(self).refresh,
        final(self).exceptions == old(self).exceptions,
        final(self).unsafe_vrps_present == (old(self).unsafe_vrps_present || is_unsafe(&old(self).rejected, origin.origin)),
//@ entry
        broadcast use vstd::std_specs::hash::group_hash_axioms, axiom_route_origin_key_model, axiom_info_published;
//@ closure update_origin:n 1 optional
|m: &mut VrpMetrics| requires vrp_headroom(*old(m))
//@ closure update_origin:n 2 optional
|m: &mut VrpMetrics| requires vrp_headroom(*old(m))
//@ closure update_origin:n 3 optional
|m: &mut VrpMetrics| requires vrp_headroom(*old(m))
//@ closure update_origin:n 4 optional
|m: &mut VrpMetrics| requires vrp_headroom(*old(m))
//@ closure update_origin:n 5 optional
|m: &mut VrpMetrics| requires vrp_headroom(*old(m))
//@ closure update_origin:n 6 optional
|m: &mut VrpMetrics| requires vrp_headroom(*old(m))
//@ fn SnapshotBuilder::process_key
//@ spec
    ensures
        // C09 + C02 (no valid router key is dropped other than by the documented filters): exactly the keys (key id, asn, key info) for the ASNs of the
        // certificate that no SLURM filter drops are added; nothing is removed
        final(self).router_keys@.dom() == keys_added(old(self).router_keys@.dom(), &key, old(self).exceptions,
                                                      key.asns.asns_spec().len() as int),
        forall|k: RouterKey| old(self).router_keys@.contains_key(k) && !(k.key_identifier == key.key_id
                && k.key_info == key.key_info) ==> final(self).router_keys@[k] == old(self).router_keys@[k],
        // frame
        final(self).origins@ == old(self).origins@,
        final(self).aspas@ == old(self).aspas@,
        final(self).rejected == old(self).rejected,
        final(self).unsafe_vrps == old(self).unsafe_vrps,
        final(self).unsafe_vrps_present == old(self).unsafe_vrps_present,
        final(self).refresh == old(self).refresh,
        final(self).exceptions == old(self).exceptions,
//@ entry
        broadcast use vstd::std_specs::hash::group_hash_axioms, axiom_router_key_key_model;
        let ghost all = key.asns.asns_spec();
        let ghost dom0 = self.router_keys@.dom();
        let ghost map0 = self.router_keys@;
//@ closure update 1 optional
|m: &mut PayloadMetrics| requires old(m).router_keys.valid as int + key.asns.asn_count_spec() as int <= u32::MAX
//@ closure update 2 optional
|m: &mut PayloadMetrics| requires old(m).router_keys.locally_filtered < u32::MAX
//@ closure update 3 optional
|m: &mut PayloadMetrics| requires old(m).router_keys.contributed < u32::MAX
//@ closure update 4 optional
|m: &mut PayloadMetrics| requires old(m).router_keys.duplicate < u32::MAX
//@ loop 1
            invariant
                iter_1.obeys_prophetic_iter_laws(), iter_1.decrease() is Some,
                all == key.asns.asns_spec(),
                obeys_key_model::<RouterKey>(),
                iter_1.remaining().len() <= all.len(),
                iter_1.remaining() == all.skip(all.len() - iter_1.remaining().len()),
                // C09
                self.router_keys@.dom() == keys_added(dom0, &key, self.exceptions, all.len() - iter_1.remaining().len()),
                forall|k: RouterKey| #[trigger] map0.contains_key(k) && !(k.key_identifier == key.key_id
                    && k.key_info == key.key_info) ==> self.router_keys@.contains_key(k) && self.router_keys@[k] == map0[k],
                self.origins@ == old(self).origins@,
                self.aspas@ == old(self).aspas@,
                self.rejected == old(self).rejected,
                self.unsafe_vrps == old(self).unsafe_vrps,
                self.unsafe_vrps_present == old(self).unsafe_vrps_present,
                self.refresh == old(self).refresh,
                self.exceptions == old(self).exceptions,
            ensures
                iter_1.remaining().len() == 0,
            decreases iter_1.decrease()->Some_0,
//@ loopentry 1
                assert(iter_1.remaining().len() > 0 ==>
                    iter_1.remaining()[0] == all[all.len() - iter_1.remaining().len()]
                    && iter_1.remaining().skip(1) == all.skip(all.len() - iter_1.remaining().len() + 1));
//@ fn SnapshotBuilder::process_aspa
//@ spec
    ensures
        // C09 + C02: ASPAs of the same customer are merged into the union of their providers
        // (no provider of a valid ASPA object is lost)
        !old(self).aspas@.contains_key(aspa.customer) ==>
            final(self).aspas@ == old(self).aspas@.insert(aspa.customer, (aspa.providers, info_published(aspa.info))),
        // C09 + C02: a further ASPA object of a known customer adds its providers to the served set
        old(self).aspas@.contains_key(aspa.customer) ==> {
            &&& final(self).aspas@.dom() == old(self).aspas@.dom()
            &&& forall|k: Asn| k != aspa.customer && old(self).aspas@.contains_key(k)
                    ==> final(self).aspas@[k] == old(self).aspas@[k]
            &&& final(self).aspas@[aspa.customer].0.asns()
                    =~= old(self).aspas@[aspa.customer].0.asns().union(aspa.providers.asns())
            &&& final(self).aspas@[aspa.customer].1.srcs()
                    == old(self).aspas@[aspa.customer].1.srcs().insert(Src::Published(aspa.info))
        },
        // frame
        final(self).origins@ == old(self).origins@,
        final(self).router_keys@ == old(self).router_keys@,
        final(self).rejected == old(self).rejected,
        final(self).unsafe_vrps == old(self).unsafe_vrps,
        final(self).unsafe_vrps_present == old(self).unsafe_vrps_present,
        final(self).refresh == old(self).refresh,
        final(self).exceptions == old(self).exceptions,
//@ entry
        broadcast use vstd::std_specs::hash::group_hash_axioms, axiom_asn_key_model, axiom_info_published;
//@ closure update 1 optional
|m: &mut PayloadMetrics| requires old(m).aspas.valid < u32::MAX
//@ closure update 2 optional
|m: &mut PayloadMetrics| requires old(m).aspas.contributed < u32::MAX
//@ closure update 3 optional
|m: &mut PayloadMetrics| requires old(m).aspas.duplicate < u32::MAX
//@ fn SnapshotBuilder::insert_assertions
//@ spec
    requires
        // metric counters do not overflow (u32); not part of C09
        counters_headroom(old(metrics), (old(self).exceptions.origin_assertions_spec().len()
            + old(self).exceptions.router_key_assertions_spec().len()) as int),
    ensures
        // C09: plus SLURM assertions - afterwards the origin set is the old one plus
        // every asserted origin, the router key set the old one plus every asserted key
        final(self).origins@.dom() == add_keys(old(self).origins@.dom(), old(self).exceptions.origin_assertions_spec(),
                                               old(self).exceptions.origin_assertions_spec().len() as int),
        final(self).router_keys@.dom() == add_keys(old(self).router_keys@.dom(), old(self).exceptions.router_key_assertions_spec(),
                                               old(self).exceptions.router_key_assertions_spec().len() as int),
        // no ASPA assertions exist
        final(self).aspas@ == old(self).aspas@,
        // frame
        final(self).rejected == old(self).rejected,
        final(self).unsafe_vrps == old(self).unsafe_vrps,
        final(self).unsafe_vrps_present == old(self).unsafe_vrps_present,
        final(self).refresh == old(self).refresh,
        final(self).exceptions == old(self).exceptions,
//@ entry
        broadcast use vstd::std_specs::hash::group_hash_axioms, axiom_route_origin_key_model, axiom_router_key_key_model;
        let ghost oa = self.exceptions.origin_assertions_spec();
        let ghost ka = self.exceptions.router_key_assertions_spec();
        let ghost odom0 = self.origins@.dom();
        let ghost kdom0 = self.router_keys@.dom();
//@ loop 1
            invariant
                iter_1.obeys_prophetic_iter_laws(), iter_1.decrease() is Some,
                obeys_key_model::<RouteOrigin>(),
                oa == old(self).exceptions.origin_assertions_spec(),
                ka == old(self).exceptions.router_key_assertions_spec(),
                iter_1.remaining().len() <= oa.len(),
                iter_1.remaining() == oa.skip(oa.len() - iter_1.remaining().len()),
                counters_headroom(metrics, (iter_1.remaining().len() + ka.len()) as int),
                // C09: SLURM assertions are added unconditionally
                self.origins@.dom() == add_keys(odom0, oa, oa.len() - iter_1.remaining().len()),
                self.router_keys@ == old(self).router_keys@,
                self.aspas@ == old(self).aspas@,
                self.rejected == old(self).rejected,
                self.unsafe_vrps == old(self).unsafe_vrps,
                self.unsafe_vrps_present == old(self).unsafe_vrps_present,
                self.refresh == old(self).refresh,
                self.exceptions == old(self).exceptions,
            ensures
                iter_1.remaining().len() == 0,
            decreases iter_1.decrease()->Some_0,
//@ loopentry 1
                assert(iter_1.remaining().len() > 0 ==>
                    iter_1.remaining()[0] == oa[oa.len() - iter_1.remaining().len()]
                    && iter_1.remaining().skip(1) == oa.skip(oa.len() - iter_1.remaining().len() + 1));
//@ loop 2
            invariant
                iter_2.obeys_prophetic_iter_laws(), iter_2.decrease() is Some,
                obeys_key_model::<RouterKey>(),
                oa == old(self).exceptions.origin_assertions_spec(),
                ka == old(self).exceptions.router_key_assertions_spec(),
                iter_2.remaining().len() <= ka.len(),
                iter_2.remaining() == ka.skip(ka.len() - iter_2.remaining().len()),
                counters_headroom(metrics, iter_2.remaining().len() as int),
                // C09
                self.origins@.dom() == add_keys(odom0, oa, oa.len() as int),
                // C09: SLURM assertions are added unconditionally
                self.router_keys@.dom() == add_keys(kdom0, ka, ka.len() - iter_2.remaining().len()),
                self.aspas@ == old(self).aspas@,
                self.rejected == old(self).rejected,
                self.unsafe_vrps == old(self).unsafe_vrps,
                self.unsafe_vrps_present == old(self).unsafe_vrps_present,
                self.refresh == old(self).refresh,
                self.exceptions == old(self).exceptions,
            ensures
                iter_2.remaining().len() == 0,
            decreases iter_2.decrease()->Some_0,
//@ loopentry 2
                assert(iter_2.remaining().len() > 0 ==>
                    iter_2.remaining()[0] == ka[ka.len() - iter_2.remaining().len()]
                    && iter_2.remaining().skip(1) == ka.skip(ka.len() - iter_2.remaining().len() + 1));
//@ fn SnapshotBuilder::update_refresh
//@ spec
    ensures
        final(self).refresh matches Some(t) && t.secs() <= refresh.secs()
            && (old(self).refresh matches Some(o) ==> t.secs() <= o.secs())
            && (t == refresh || old(self).refresh == Some(t)),
        // frame
        final(self).origins@ == old(self).origins@,
        final(self).router_keys@ == old(self).router_keys@,
        final(self).aspas@ == old(self).aspas@,
        final(self).rejected == old(self).rejected,
        final(self).unsafe_vrps == old(self).unsafe_vrps,
        final(self).unsafe_vrps_present == old(self).unsafe_vrps_present,
        final(self).exceptions == old(self).exceptions,
//@ fn SnapshotBuilder::process_pub_point
//@ spec
    requires
        point.tal_index < old(metrics).tals@.len(),
        point.repository_index matches Some(i) ==> i < old(metrics).repositories@.len(),
    ensures
        // C08 + C09: the origin set grows by exactly the published origins that are
        // neither unsafe-and-rejected nor dropped by a SLURM filter
        final(self).origins@.dom() == origins_added(old(self), point.origins@, point.origins@.len() as int),
        // frame
        final(self).rejected == old(self).rejected,
        final(self).unsafe_vrps == old(self).unsafe_vrps,
        final(self).exceptions == old(self).exceptions,
        final(metrics).tals@.len() == old(metrics).tals@.len(),
        final(metrics).repositories@.len() == old(metrics).repositories@.len(),
//@ entry
        let ghost pts = point.origins@;
        let ghost b0 = *self;
//@ loopvar 1 it
//@ loop 1
            invariant
                it.seq() == pts,
                0 <= it.index@ <= pts.len(),
                // C08 + C09
                self.origins@.dom() == origins_added(&b0, pts, it.index@),
                self.rejected == b0.rejected,
                self.unsafe_vrps == b0.unsafe_vrps,
                self.exceptions == b0.exceptions,
//@ loopvar 2 it2
//@ loop 2
            invariant
                self.origins@.dom() == origins_added(&b0, pts, pts.len() as int),
                self.rejected == b0.rejected,
                self.unsafe_vrps == b0.unsafe_vrps,
                self.exceptions == b0.exceptions,
//@ loopvar 3 it3
//@ loop 3
            invariant
                self.origins@.dom() == origins_added(&b0, pts, pts.len() as int),
                self.rejected == b0.rejected,
                self.unsafe_vrps == b0.unsafe_vrps,
                self.exceptions == b0.exceptions,
//@ fn PubPoint::add_roa
//@ spec
    requires
        old(self).origins@.len() + roa.origins_spec().len() <= usize::MAX,
    ensures
        // C09: exactly the ROA's origins that are not longer than the configured
        // limit of their address family are added (in order, each tagged with the ROA's info)
        final(self).origins@ == old(self).origins@ + roa_kept(roa.origins_spec(), roa.origins_spec().len() as int,
                                                               limit_v4_len, limit_v6_len, info),
        res == (roa_kept(roa.origins_spec(), roa.origins_spec().len() as int, limit_v4_len, limit_v6_len, info).len() > 0),
        // frame
        final(self).router_keys == old(self).router_keys, final(self).aspas == old(self).aspas,
        final(self).refresh == old(self).refresh, final(self).orig_refresh == old(self).orig_refresh,
        final(self).tal_index == old(self).tal_index, final(self).repository_index == old(self).repository_index,
//@ entry
        let ghost all = roa.origins_spec();
//@ loop 1
            invariant
                iter_1.obeys_prophetic_iter_laws(), iter_1.decrease() is Some,
                all == roa.origins_spec(),
                iter_1.remaining().len() <= all.len(),
                iter_1.remaining() == all.skip(all.len() - iter_1.remaining().len()),
                old(self).origins@.len() + all.len() <= usize::MAX,
                roa_kept(all, all.len() - iter_1.remaining().len(), limit_v4_len, limit_v6_len, info).len()
                    <= all.len() - iter_1.remaining().len(),
                // C09
                self.origins@ == old(self).origins@ + roa_kept(all, all.len() - iter_1.remaining().len(),
                                                              limit_v4_len, limit_v6_len, info),
                any == (roa_kept(all, all.len() - iter_1.remaining().len(), limit_v4_len, limit_v6_len, info).len() > 0),
                self.router_keys == old(self).router_keys, self.aspas == old(self).aspas,
                self.refresh == old(self).refresh, self.orig_refresh == old(self).orig_refresh,
                self.tal_index == old(self).tal_index, self.repository_index == old(self).repository_index,
            ensures
                iter_1.remaining().len() == 0,
            decreases iter_1.decrease()->Some_0,
//@ loopentry 1
                assert(iter_1.remaining().len() > 0 ==>
                    iter_1.remaining()[0] == all[all.len() - iter_1.remaining().len()]
                    && iter_1.remaining().skip(1) == all.skip(all.len() - iter_1.remaining().len() + 1));
//@ fn PayloadCollection::from_vec
//@ spec
    ensures
        // C09: each item appears exactly as often as in the input (with unique map keys: once)
        res.vec@.to_multiset() == vec@.to_multiset(),
//@ fn PubPoint::update_refresh
//@ spec
    ensures
        final(self).origins == old(self).origins, final(self).router_keys == old(self).router_keys,
        final(self).aspas == old(self).aspas, final(self).orig_refresh == old(self).orig_refresh,
        final(self).tal_index == old(self).tal_index, final(self).repository_index == old(self).repository_index,
        final(self).refresh.secs() <= refresh.secs(), final(self).refresh.secs() <= old(self).refresh.secs(),
//@ fn PubPoint::add_router_key
//@ spec
    ensures
        final(self).router_keys@ == old(self).router_keys@.push(PubRouterKey { asns, key_id, key_info, info }),
        final(self).origins == old(self).origins, final(self).aspas == old(self).aspas,
        final(self).refresh == old(self).refresh, final(self).orig_refresh == old(self).orig_refresh,
        final(self).tal_index == old(self).tal_index, final(self).repository_index == old(self).repository_index,
//@ fn PubPoint::add_aspa
//@ spec
    ensures
        final(self).aspas@ == old(self).aspas@.push(
            PubAspa { customer: aspa.customer_spec(), providers: aspa.providers_spec(), info }),
        final(self).origins == old(self).origins, final(self).router_keys == old(self).router_keys,
        final(self).refresh == old(self).refresh, final(self).orig_refresh == old(self).orig_refresh,
        final(self).tal_index == old(self).tal_index, final(self).repository_index == old(self).repository_index,
//@ fn PubPointProcessor::process_router_cert
//@ spec
    ensures
        // C09: router keys from published objects appear only when BGPsec processing is enabled
        !old(self).report.enable_bgpsec ==> final(self).pub_point == old(self).pub_point,
        // and then at most the one key of this certificate, for the AS resources of the certificate
        final(self).pub_point.router_keys@ == old(self).pub_point.router_keys@
        || (final(self).pub_point.router_keys@.len() == old(self).pub_point.router_keys@.len() + 1
            && final(self).pub_point.router_keys@.drop_last() == old(self).pub_point.router_keys@
            && Ok::<AsBlocks, AsBlocksError>(final(self).pub_point.router_keys@.last().asns) == cert.as_resources_spec().blocks_spec()
            && final(self).pub_point.router_keys@.last().key_id == cert.ski_spec()),
        final(self).pub_point.origins == old(self).pub_point.origins,
        final(self).pub_point.aspas == old(self).pub_point.aspas,
        final(self).report == old(self).report,
//@ fn PubPointProcessor::process_roa
//@ spec
    requires
        old(self).pub_point.origins@.len() + route.origins_spec().len() <= usize::MAX,
    ensures
        // C09: the configured IPv4 / IPv6 limits of the report are the ones applied to the ROA
        exists|info: Arc<PublishInfo>| final(self).pub_point.origins@ == old(self).pub_point.origins@
            + #[trigger] roa_kept(route.origins_spec(), route.origins_spec().len() as int,
                       old(self).report.limit_v4_len, old(self).report.limit_v6_len, info),
        final(self).pub_point.router_keys == old(self).pub_point.router_keys,
        final(self).pub_point.aspas == old(self).pub_point.aspas,
        final(self).report == old(self).report,
//@ fn PubPointProcessor::process_aspa
//@ spec
    ensures
        // C09: ASPAs from published objects appear only when ASPA processing is enabled
        !old(self).report.enable_aspa ==> final(self).pub_point == old(self).pub_point,
        old(self).report.enable_aspa ==> {
            &&& final(self).pub_point.aspas@.len() == old(self).pub_point.aspas@.len() + 1
            &&& final(self).pub_point.aspas@.drop_last() == old(self).pub_point.aspas@
            &&& final(self).pub_point.aspas@.last().customer == aspa.customer_spec()
            &&& final(self).pub_point.aspas@.last().providers == aspa.providers_spec()
        },
        final(self).pub_point.origins == old(self).pub_point.origins,
        final(self).pub_point.router_keys == old(self).pub_point.router_keys,
        final(self).report == old(self).report,
//@ fn RejectedResourcesBuilder::extend_from_cert
//@ spec
    requires
        // permission: this call may push exactly the rejectable blocks of this certificate
        forall|x: (bool, IpBlock)| #[trigger] push_allowed(&self.addrs, x) <==> addr_rejectable(cert, x),
        forall|b: AsBlock| #[trigger] push_allowed(&self.asns, b) <==> as_rejectable(cert, b),
    ensures
        // C08: every address block of the rejected CA's certificate other than a
        // whole-address-family block is recorded, tagged with its family (and, by the
        // push permission above, nothing else is)
        forall|x: (bool, IpBlock)| addr_rejectable(cert, x) ==> #[trigger] pushed(&self.addrs, x),
        forall|b: AsBlock| as_rejectable(cert, b) ==> #[trigger] pushed(&self.asns, b),
//@ closure filter 1 optional
|block: &IpBlock| -> (r: bool) ensures r == !block.is_slash_zero_spec()
//@ closure filter 2 optional
|block: &IpBlock| -> (r: bool) ensures r == !block.is_slash_zero_spec()
//@ closure filter 3 optional
|block: &AsBlock| -> (r: bool) ensures r == !block.is_whole_range_spec()
//@ afterinit 1
            let ghost f1 = iter_1.remaining();
//@ loop 1
            invariant
                iter_1.obeys_prophetic_iter_laws(), iter_1.decrease() is Some,
                forall|x: (bool, IpBlock)| #[trigger] push_allowed(&self.addrs, x) <==> addr_rejectable(cert, x),
                forall|x: IpBlock| #![trigger f1.contains(x)] #![trigger cert.cert_spec().v4_spec().blocks_spec().contains(x)]
                    f1.contains(x) <==> (cert.cert_spec().v4_spec().blocks_spec().contains(x) && !x.is_slash_zero_spec()),
                iter_1.remaining().len() <= f1.len(),
                iter_1.remaining() == f1.skip(f1.len() - iter_1.remaining().len()),
                forall|j: int| 0 <= j < f1.len() - iter_1.remaining().len() ==> pushed(&self.addrs, (true, #[trigger] f1[j])),
            ensures
                iter_1.remaining().len() == 0,
                forall|x: IpBlock| cert.cert_spec().v4_spec().blocks_spec().contains(x) && !x.is_slash_zero_spec()
                    ==> #[trigger] pushed(&self.addrs, (true, x)),
            decreases iter_1.decrease()->Some_0,
//@ loopentry 1
            assert(iter_1.remaining().len() > 0 ==>
                iter_1.remaining()[0] == f1[f1.len() - iter_1.remaining().len()]
                && f1.contains(iter_1.remaining()[0])
                && iter_1.remaining().skip(1) == f1.skip(f1.len() - iter_1.remaining().len() + 1));
//@ afterinit 2
            let ghost f2 = iter_2.remaining();
//@ loop 2
            invariant
                iter_2.obeys_prophetic_iter_laws(), iter_2.decrease() is Some,
                forall|x: (bool, IpBlock)| #[trigger] push_allowed(&self.addrs, x) <==> addr_rejectable(cert, x),
                forall|x: IpBlock| #![trigger f2.contains(x)] #![trigger cert.cert_spec().v6_spec().blocks_spec().contains(x)]
                    f2.contains(x) <==> (cert.cert_spec().v6_spec().blocks_spec().contains(x) && !x.is_slash_zero_spec()),
                iter_2.remaining().len() <= f2.len(),
                iter_2.remaining() == f2.skip(f2.len() - iter_2.remaining().len()),
                forall|j: int| 0 <= j < f2.len() - iter_2.remaining().len() ==> pushed(&self.addrs, (false, #[trigger] f2[j])),
                forall|x: IpBlock| cert.cert_spec().v4_spec().blocks_spec().contains(x) && !x.is_slash_zero_spec()
                    ==> #[trigger] pushed(&self.addrs, (true, x)),
            ensures
                iter_2.remaining().len() == 0,
                forall|x: IpBlock| cert.cert_spec().v6_spec().blocks_spec().contains(x) && !x.is_slash_zero_spec()
                    ==> #[trigger] pushed(&self.addrs, (false, x)),
            decreases iter_2.decrease()->Some_0,
//@ loopentry 2
            assert(iter_2.remaining().len() > 0 ==>
                iter_2.remaining()[0] == f2[f2.len() - iter_2.remaining().len()]
                && f2.contains(iter_2.remaining()[0])
                && iter_2.remaining().skip(1) == f2.skip(f2.len() - iter_2.remaining().len() + 1));
//@ afterinit 3
            let ghost f3 = iter_3.remaining();
//@ loop 3
            invariant
                iter_3.obeys_prophetic_iter_laws(), iter_3.decrease() is Some,
                forall|b: AsBlock| #[trigger] push_allowed(&self.asns, b) <==> as_rejectable(cert, b),
                forall|x: AsBlock| #![trigger f3.contains(x)] #![trigger cert.cert_spec().asres_spec().as_blocks_spec().contains(x)]
                    f3.contains(x) <==> (cert.cert_spec().asres_spec().as_blocks_spec().contains(x) && !x.is_whole_range_spec()),
                iter_3.remaining().len() <= f3.len(),
                iter_3.remaining() == f3.skip(f3.len() - iter_3.remaining().len()),
                forall|j: int| 0 <= j < f3.len() - iter_3.remaining().len() ==> pushed(&self.asns, #[trigger] f3[j]),
                forall|x: IpBlock| cert.cert_spec().v4_spec().blocks_spec().contains(x) && !x.is_slash_zero_spec()
                    ==> #[trigger] pushed(&self.addrs, (true, x)),
                forall|x: IpBlock| cert.cert_spec().v6_spec().blocks_spec().contains(x) && !x.is_slash_zero_spec()
                    ==> #[trigger] pushed(&self.addrs, (false, x)),
            ensures
                iter_3.remaining().len() == 0,
                forall|x: AsBlock| cert.cert_spec().asres_spec().as_blocks_spec().contains(x) && !x.is_whole_range_spec()
                    ==> #[trigger] pushed(&self.asns, x),
            decreases iter_3.decrease()->Some_0,
//@ loopentry 3
            assert(iter_3.remaining().len() > 0 ==>
                iter_3.remaining()[0] == f3[f3.len() - iter_3.remaining().len()]
                && f3.contains(iter_3.remaining()[0])
                && iter_3.remaining().skip(1) == f3.skip(f3.len() - iter_3.remaining().len() + 1));
//@ fn RejectedResourcesBuilder::finalize
//@ spec
    ensures
        // C08: family separation and nothing invented: every address of the IPv4
        // (IPv6) rejected set lies in a block that was recorded with the IPv4 (IPv6) tag
        forall|a: u128| res.v4.addrs_spec().contains(a) ==> covered_by_pushed(&self.addrs, true, a),
        forall|a: u128| res.v6.addrs_spec().contains(a) ==> covered_by_pushed(&self.addrs, false, a),
        // C08: the result is the drain of THIS builder's queue, run until the queue was empty
        rejected_from(&self, &res),
//@ beforeloop 1
        let ghost mut log: Seq<(bool, IpBlock)> = Seq::empty();
//@ loop 1
            invariant
                forall|a: u128| v4.addrs_spec().contains(a) ==> covered_by_pushed(&self.addrs, true, a),
                forall|a: u128| v6.addrs_spec().contains(a) ==> covered_by_pushed(&self.addrs, false, a),
                // C08: each drained block went into the set of its own family, and nothing else did
                forall|i: int| 0 <= i < log.len() ==> pushed(&self.addrs, #[trigger] log[i]),
                v4.addrs_spec() == fam_union(log, true, log.len() as int),
                v6.addrs_spec() == fam_union(log, false, log.len() as int),
            ensures
                observed_empty(&self.addrs),
//@ loopentry 1
            proof {
                let ghost l0 = log;
                log = log.push((is_v4, block));
                lemma_fam_union_prefix(l0, log, true, l0.len() as int);
                lemma_fam_union_prefix(l0, log, false, l0.len() as int);
            }
//@ tail
        assert(drained_sets(&self, v4.addrs_spec(), v6.addrs_spec(), log));
        assert(drained(&self, v4.addrs_spec(), v6.addrs_spec()));
//@ fn SnapshotBuilder::new
//@ spec
    ensures
        // C09: the composition starts from the empty set
        res.origins@ == Map::<RouteOrigin, PayloadInfo>::empty(),
        res.router_keys@ == Map::<RouterKey, PayloadInfo>::empty(),
        res.aspas@ == Map::<Asn, (SmallAsnSet, PayloadInfo)>::empty(),
        res.rejected == rejected, res.unsafe_vrps == unsafe_vrps, res.exceptions == exceptions,
        !res.unsafe_vrps_present, res.refresh is None,
//@ entry
        broadcast use vstd::std_specs::hash::group_hash_axioms, axiom_route_origin_key_model, axiom_router_key_key_model, axiom_asn_key_model;
//@ fn SnapshotBuilder::into_snapshot_aspa
//@ spec
    requires
        // metric counter does not overflow (u32); not part of C09
        old(metrics).snapshot.large_aspas < u32::MAX,
    ensures
        // C09: a merged ASPA is dropped iff its provider union is too large to encode ...
        res is None <==> providers.count_spec() > 16380,
        // ... otherwise it is served for the same customer with exactly the merged providers and its info
        res matches Some(x) ==> x.0.customer == customer && x.0.providers.asns() == providers.asns() && x.1 == info,
//@ global
// C08: a VRP is unsafe iff its prefix shares an address with the rejected
// resources (of its own family)
spec fn is_unsafe(rejected: &RejectedResources, o: RouteOrigin) -> bool {
    !rejected.rejected_addrs(o.prefix.prefix_spec().is_v4_spec()).disjoint(prefix_addrs(o.prefix.prefix_spec()))
}

impl RejectedResources {
    spec fn rejected_addrs(&self, v4: bool) -> ISet<u128> {
        if v4 { self.v4.addrs_spec() } else { self.v6.addrs_spec() }
    }
}

// C09: the router key set after processing the first n ASNs of a router
// certificate: each ASN contributes the key (key id, asn, key info) unless a
// SLURM filter drops it.
spec fn keys_added(base: Set<RouterKey>, key: &PubRouterKey, exceptions: &LocalExceptions, n: int) -> Set<RouterKey>
    decreases n
{
    if n <= 0 { base }
    else {
        let rk = RouterKey { key_identifier: key.key_id, asn: key.asns.asns_spec()[n - 1], key_info: key.key_info };
        if exceptions.drop_router_key_spec(&rk) { keys_added(base, key, exceptions, n - 1) }
        else { keys_added(base, key, exceptions, n - 1).insert(rk) }
    }
}

// the key set `base` plus the first n keys of the assertion list `s`
spec fn add_keys<K, V>(base: Set<K>, s: Seq<(K, V)>, n: int) -> Set<K>
    decreases n
{
    if n <= 0 { base } else { add_keys(base, s, n - 1).insert(s[n - 1].0) }
}

// every metric counter touched by insert_assertions can still be incremented n times
spec fn counters_headroom(m: &Metrics, n: int) -> bool {
    &&& m.local.v4_origins.contributed + n <= u32::MAX
    &&& m.local.v4_origins.duplicate + n <= u32::MAX
    &&& m.local.v6_origins.contributed + n <= u32::MAX
    &&& m.local.v6_origins.duplicate + n <= u32::MAX
    &&& m.local.router_keys.contributed + n <= u32::MAX
    &&& m.local.router_keys.duplicate + n <= u32::MAX
    &&& m.snapshot.payload.v4_origins.contributed + n <= u32::MAX
    &&& m.snapshot.payload.v4_origins.duplicate + n <= u32::MAX
    &&& m.snapshot.payload.v6_origins.contributed + n <= u32::MAX
    &&& m.snapshot.payload.v6_origins.duplicate + n <= u32::MAX
    &&& m.snapshot.payload.router_keys.contributed + n <= u32::MAX
    &&& m.snapshot.payload.router_keys.duplicate + n <= u32::MAX
}

// C08 + C09: is a published origin admitted into the served set by builder b?
spec fn admits_origin(b: &SnapshotBuilder, o: RouteOrigin) -> bool {
    !(is_unsafe(&b.rejected, o) && b.unsafe_vrps is Reject) && !b.exceptions.drop_origin_spec(o)
}

// the origin set of builder b plus the admitted ones among the first n published origins
spec fn origins_added(b: &SnapshotBuilder, s: Seq<PubRouteOrigin>, n: int) -> Set<RouteOrigin>
    decreases n
{
    if n <= 0 { b.origins@.dom() }
    else if admits_origin(b, s[n - 1].origin) { origins_added(b, s, n - 1).insert(s[n - 1].origin) }
    else { origins_added(b, s, n - 1) }
}

// C09: is a ROA origin within the configured prefix length limit of its family?
spec fn within_limit(o: RouteOrigin, limit_v4_len: Option<u8>, limit_v6_len: Option<u8>) -> bool {
    let limit = if o.prefix.prefix_spec().is_v4_spec() { limit_v4_len } else { limit_v6_len };
    match limit {
        Some(l) => o.prefix.prefix_spec().len_spec() <= l,
        None => true,
    }
}

// the published origins produced from the first n origins of a ROA
spec fn roa_kept(s: Seq<RouteOrigin>, n: int, limit_v4_len: Option<u8>, limit_v6_len: Option<u8>,
                 info: Arc<PublishInfo>) -> Seq<PubRouteOrigin>
    decreases n
{
    if n <= 0 { Seq::empty() }
    else if within_limit(s[n - 1], limit_v4_len, limit_v6_len) {
        roa_kept(s, n - 1, limit_v4_len, limit_v6_len, info).push(PubRouteOrigin { origin: s[n - 1], info })
    }
    else { roa_kept(s, n - 1, limit_v4_len, limit_v6_len, info) }
}

// C08: the (family, block) pairs a rejected CA contributes to the rejected
// resources: its IPv4 / IPv6 blocks other than whole-address-family blocks
spec fn addr_rejectable(cert: &CaCert, x: (bool, IpBlock)) -> bool {
    !x.1.is_slash_zero_spec() && (
        if x.0 { cert.cert_spec().v4_spec().blocks_spec().contains(x.1) }
        else { cert.cert_spec().v6_spec().blocks_spec().contains(x.1) })
}

spec fn as_rejectable(cert: &CaCert, b: AsBlock) -> bool {
    !b.is_whole_range_spec() && cert.cert_spec().asres_spec().as_blocks_spec().contains(b)
}

// address a lies in some block recorded in queue q under family tag `fam`
spec fn covered_by_pushed(q: &SegQueue<(bool, IpBlock)>, fam: bool, a: u128) -> bool {
    exists|b: IpBlock| #[trigger] pushed(q, (fam, b)) && b.addrs_spec().contains(a)
}

// ---- what the recursive definitions mean (machine-checked lemmas) ----

// C09: origins_added is the old origin set plus exactly the admitted published origins
proof fn lemma_origins_added_contains(b: &SnapshotBuilder, s: Seq<PubRouteOrigin>, n: int, o: RouteOrigin)
    requires 0 <= n <= s.len()
    ensures origins_added(b, s, n).contains(o)
        <==> (b.origins@.dom().contains(o) || exists|i: int| 0 <= i < n && (#[trigger] s[i]).origin == o && admits_origin(b, o))
    decreases n
{
    if n > 0 {
        lemma_origins_added_contains(b, s, n - 1, o);
    }
}

// C08: with 'reject', if no origin collected so far overlaps the rejected resources,
// none does after processing any list of published origins
proof fn lemma_c08_reject_no_unsafe(b: &SnapshotBuilder, s: Seq<PubRouteOrigin>, n: int)
    requires
        0 <= n <= s.len(),
        b.unsafe_vrps is Reject,
        forall|o: RouteOrigin| b.origins@.dom().contains(o) ==> !is_unsafe(&b.rejected, o),
    ensures
        forall|o: RouteOrigin| origins_added(b, s, n).contains(o) ==> !is_unsafe(&b.rejected, o),
    decreases n
{
    if n > 0 {
        lemma_c08_reject_no_unsafe(b, s, n - 1);
    }
}

// C08: with 'warn' or 'accept' the unsafe-VRP filter removes nothing: the result is
// the same as if only the SLURM filters were applied
proof fn lemma_c08_warn_accept_removes_nothing(b: &SnapshotBuilder, s: Seq<PubRouteOrigin>, n: int, o: RouteOrigin)
    requires 0 <= n <= s.len(), !(b.unsafe_vrps is Reject),
    ensures origins_added(b, s, n).contains(o)
        <==> (b.origins@.dom().contains(o)
              || exists|i: int| 0 <= i < n && (#[trigger] s[i]).origin == o && !b.exceptions.drop_origin_spec(o))
    decreases n
{
    if n > 0 {
        lemma_c08_warn_accept_removes_nothing(b, s, n - 1, o);
    }
}

// C09: add_keys is the old key set plus exactly the asserted keys
proof fn lemma_add_keys_contains<K, V>(base: Set<K>, s: Seq<(K, V)>, n: int, k: K)
    requires 0 <= n <= s.len()
    ensures add_keys(base, s, n).contains(k) <==> (base.contains(k) || exists|i: int| 0 <= i < n && (#[trigger] s[i]).0 == k)
    decreases n
{
    if n > 0 {
        lemma_add_keys_contains(base, s, n - 1, k);
    }
}

// C09: keys_added is the old key set plus, for each ASN of the certificate, its key unless SLURM drops it
proof fn lemma_keys_added_contains(base: Set<RouterKey>, key: &PubRouterKey, exceptions: &LocalExceptions, n: int, k: RouterKey)
    requires 0 <= n <= key.asns.asns_spec().len()
    ensures keys_added(base, key, exceptions, n).contains(k)
        <==> (base.contains(k) || (exists|i: int| 0 <= i < n
                && k == (RouterKey { key_identifier: key.key_id, asn: #[trigger] key.asns.asns_spec()[i], key_info: key.key_info })
                && !exceptions.drop_router_key_spec(&k)))
    decreases n
{
    if n > 0 {
        lemma_keys_added_contains(base, key, exceptions, n - 1, k);
    }
}

// C08: r is the drain of builder b's own queue of rejected blocks, run until the queue was
// observed empty: family-separated and containing nothing that was not recorded in b.
// (That the drain then holds EVERY recorded block is the bag property of SegQueue: paper step.)
spec fn rejected_from(b: &RejectedResourcesBuilder, r: &RejectedResources) -> bool {
    &&& observed_empty(&b.addrs)
    &&& drained(b, r.v4.addrs_spec(), r.v6.addrs_spec())
    &&& forall|a: u128| r.v4.addrs_spec().contains(a) ==> covered_by_pushed(&b.addrs, true, a)
    &&& forall|a: u128| r.v6.addrs_spec().contains(a) ==> covered_by_pushed(&b.addrs, false, a)
}

// the addresses of the blocks with family tag `fam` among the first n entries of a drain log
spec fn fam_union(log: Seq<(bool, IpBlock)>, fam: bool, n: int) -> ISet<u128>
    decreases n
{
    if n <= 0 { ISet::empty() }
    else if log[n - 1].0 == fam { fam_union(log, fam, n - 1).union(log[n - 1].1.addrs_spec()) }
    else { fam_union(log, fam, n - 1) }
}

// C08: `log` is what the drain of b's queue returned (only recorded blocks), and s4 / s6 are, per
// family, exactly the addresses of the drained blocks of that family
spec fn drained_sets(b: &RejectedResourcesBuilder, s4: ISet<u128>, s6: ISet<u128>, log: Seq<(bool, IpBlock)>) -> bool {
    &&& forall|i: int| 0 <= i < log.len() ==> pushed(&b.addrs, #[trigger] log[i])
    &&& s4 == fam_union(log, true, log.len() as int)
    &&& s6 == fam_union(log, false, log.len() as int)
}

// some drain log explains the two sets
spec fn drained(b: &RejectedResourcesBuilder, s4: ISet<u128>, s6: ISet<u128>) -> bool {
    exists|log: Seq<(bool, IpBlock)>| #[trigger] drained_sets(b, s4, s6, log)
}

proof fn lemma_fam_union_prefix(a: Seq<(bool, IpBlock)>, b: Seq<(bool, IpBlock)>, fam: bool, n: int)
    requires 0 <= n <= a.len(), a.len() <= b.len(), forall|i: int| 0 <= i < a.len() ==> a[i] == b[i],
    ensures fam_union(a, fam, n) == fam_union(b, fam, n)
    decreases n
{
    if n > 0 { lemma_fam_union_prefix(a, b, fam, n - 1); }
}

// every counter of a VrpMetrics can still be incremented (metric overflow is not part of any property here)
spec fn vrp_headroom(m: VrpMetrics) -> bool {
    m.valid < u32::MAX && m.marked_unsafe < u32::MAX && m.locally_filtered < u32::MAX
        && m.duplicate < u32::MAX && m.contributed < u32::MAX
}
