//@ fn Store::tmp_file
//@ spec
    ensures
        res matches Ok(t) ==> t.content().len() == 0,
        // C23: the temporary file lives in <store>/tmp, the only place the next run sweeps
        // (cleanup_tmp); a kill during the update can leave a partial file only there
        res matches Ok(t) ==> t.dir_spec() == store_tmp_dir(*self),
//@ closure map_err 1 optional
|err: IoError| -> (r: Failed)
//@ fn UpdateError::fatal
//@ spec
    ensures res is Failed,
//@ fn RunFailed::fatal
//@ spec
    ensures res.fatal,
//@ fn RunFailed::retry
//@ spec
    ensures !res.fatal,
//@ fn RunFailed::is_fatal
//@ spec
    ensures res == self.fatal,
//@ fn RunFailed::should_retry
//@ spec
    ensures res == !self.fatal,
//@ fn StoredPoint::is_new
//@ spec
    ensures res == self.is_new,
//@ fn StoredPoint::manifest
//@ spec
    ensures match res { Some(m) => self.manifest == Some(*m), None => self.manifest is None },
//@ fn StoredPoint::update
//@ spec
    requires
        gen_ok(objects, manifest),
        validated(manifest),
    ensures
        update_post(*old(self), *final(self), manifest, res),
//@ fn StoredPoint::_update
//@ spec
    requires
        tmp_file.content().len() == 0,
        // C23: crash-step model: the file being written may be left behind partially written by a
        // kill at any step, so it must be in the swept temporary area, never in the point tree
        in_tmp_area(tmp_file.dir_spec()),
        gen_ok(objects, manifest),
        validated(manifest),
    ensures
        // C04, C03: on success exactly the new complete point; on every exit where the update did not
        // complete the previously stored version stays the one `self` presents (manifest, open file and
        // position on abort; the manifest on any error before the rename)
        update_post(*old(self), *final(self), manifest, res),
//@ entry
        // the manifest parameter, under a name a later shadowing in the body cannot capture
        let ghost m0 = manifest;
//@ exit
        // C04: success is reported (and, in the text, the rename is reached) only after the generator
        // has answered Ok(None): a generator error always leaves through `?`
        assert(gen_finished(objects));
//@ closure map_err 1 optional
|err: IntoInnerError| -> (r: UpdateError) ensures r is Failed
//@ beforeloop 1
        let ghost mut yielded: Seq<StoredObject> = Seq::empty();
//@ loop 1
            invariant
                gen_ok(objects, m0),
                tmp_file.buffered() == enc_point(self.header, m0, yielded),
                forall|i: int| 0 <= i < yielded.len() ==> good_object(m0, #[trigger] yielded[i]),
                tmp_object_start as int == (enc_header(self.header) + enc_manifest(m0)).len(),
                // C04, C03: while objects are still being fetched the stored version is untouched in memory
                self.manifest == old(self).manifest, self.file == old(self).file,
                self.path == old(self).path, self.is_new == old(self).is_new,
                self.header.update_status is Success,
                self.header.manifest_uri == old(self).header.manifest_uri,
                self.header.rpki_notify == old(self).header.rpki_notify,
            ensures
                // C04: the loop is left only because the generator answered Ok(None) (all listed files
                // delivered); provable at no other program point, since gen_ok never yields this fact
                gen_finished(objects),
//@ loopentry 1
            proof {
                lemma_enc_objects_push(yielded, object);
                yielded = yielded.push(object);
            }
//@ fn StoredPoint::reject
//@ spec
    ensures
        // C04 (frame): reject only ever discards stored data; afterwards the point is a
        // never-succeeded point in memory, whatever the outcome of the write
        final(self).manifest is None, final(self).file is None, final(self).is_new,
        final(self).header.update_status is LastAttempt,
        final(self).path == old(self).path,
        final(self).header.manifest_uri == old(self).header.manifest_uri,
        final(self).header.rpki_notify == old(self).header.rpki_notify,
//@ entry
    proof { lemma_file_states(); }
//@ global
// <store>/tmp: the directory store::Run::cleanup_tmp empties at the end of every run.
spec fn tmp_name() -> Seq<char> { "tmp"@ }
spec fn store_tmp_dir(s: Store) -> Path { join_spec(s.path.p, tmp_name()) }
spec fn in_tmp_area(d: Path) -> bool { exists|s: Store| d == #[trigger] store_tmp_dir(s) }
// ---- encodings (abstract; their read-back is C28's subject) -----------------
uninterp spec fn enc_header(h: StoredPointHeader) -> Seq<u8>;
uninterp spec fn enc_manifest(m: StoredManifest) -> Seq<u8>;
uninterp spec fn enc_object(o: StoredObject) -> Seq<u8>;
spec fn enc_objects(objs: Seq<StoredObject>) -> Seq<u8>
    decreases objs.len()
{
    if objs.len() == 0 { Seq::empty() } else { enc_objects(objs.drop_last()) + enc_object(objs.last()) }
}
// A complete stored point: header, manifest, then the objects, nothing else.
spec fn enc_point(h: StoredPointHeader, m: StoredManifest, objs: Seq<StoredObject>) -> Seq<u8> {
    enc_header(h) + enc_manifest(m) + enc_objects(objs)
}
proof fn lemma_enc_objects_push(objs: Seq<StoredObject>, o: StoredObject)
    ensures enc_objects(objs.push(o)) == enc_objects(objs) + enc_object(o)
{
    assert(objs.push(o).drop_last() == objs);
}

// ---- what the engine guarantees (obligations of units engine_gate / manifest_policy) ----
// The manifest validated: signature, CRL, not premature, stale policy.
uninterp spec fn validated(m: StoredManifest) -> bool;
// o is a file listed on manifest m whose content matches the listed hash.
uninterp spec fn good_object(m: StoredManifest, o: StoredObject) -> bool;
// The object generator: callable any number of times; whatever it yields is a good object.
spec fn gen_ok<G: FnMut() -> Result<Option<StoredObject>, UpdateError>>(g: G, m: StoredManifest) -> bool {
    &&& g.requires(())
    &&& forall|r: Result<Option<StoredObject>, UpdateError>| g.ensures((), r) ==>
            (r matches Ok(Some(o)) ==> good_object(m, o))
}

// A call of the generator has returned Ok(None).
spec fn gen_finished<G: FnMut() -> Result<Option<StoredObject>, UpdateError>>(g: G) -> bool {
    g.ensures((), Ok::<Option<StoredObject>, UpdateError>(None))
}

// C04: bytes that may replace a stored point: a complete encoding of a successfully updated
// header, a validated manifest and objects that are all listed with matching hashes.
spec fn complete_point(bytes: Seq<u8>) -> bool {
    exists|h: StoredPointHeader, m: StoredManifest, objs: Seq<StoredObject>|
        bytes == #[trigger] enc_point(h, m, objs) && h.update_status is Success && validated(m)
        && forall|i: int| 0 <= i < objs.len() ==> good_object(m, #[trigger] objs[i])
}

// `self` presents the new manifest together with the new complete file at the point's path.
spec fn new_point_in_place(pre: StoredPoint, post: StoredPoint, manifest: StoredManifest) -> bool {
    &&& post.manifest == Some(manifest)
    &&& post.file is Some
    &&& post.file->Some_0.inner().path() == pre.path.p
    &&& exists|objs: Seq<StoredObject>|
            post.file->Some_0.inner().content() == #[trigger] enc_point(post.header, manifest, objs)
            && forall|i: int| 0 <= i < objs.len() ==> good_object(manifest, #[trigger] objs[i])
}

// C04: the contract of update/_update.
spec fn update_post(pre: StoredPoint, post: StoredPoint, manifest: StoredManifest, res: Result<(), UpdateError>) -> bool {
    // identity of the point never changes
    &&& post.path == pre.path
    &&& post.header.manifest_uri == pre.header.manifest_uri
    &&& post.header.rpki_notify == pre.header.rpki_notify
    // C04: success: the stored point is exactly header(Success) + the given manifest + the
    // objects the generator yielded, all of them good; self is positioned at the first object
    &&& (res is Ok ==> {
            &&& post.manifest == Some(manifest)
            &&& post.header.update_status is Success
            &&& post.file matches Some(f) && f.inner().path() == pre.path.p
                && f.pos() == (enc_header(post.header) + enc_manifest(manifest)).len()
                && exists|objs: Seq<StoredObject>|
                        f.inner().content() == #[trigger] enc_point(post.header, manifest, objs)
                        && forall|i: int| 0 <= i < objs.len() ==> good_object(manifest, #[trigger] objs[i])
        })
    // C04: a failed or partial fetch (generator abort) leaves the previous version, or its
    // absence, unchanged and usable: same manifest, same open file at the same position
    &&& (res matches Err(UpdateError::Abort) ==> post.manifest == pre.manifest && post.file == pre.file
            && post.is_new == pre.is_new)
    // C04: any other error (fatal I/O): either it happened before the rename and `self` still presents
    // the previous manifest, or it happened after the rename (the final seek) and `self` presents the
    // new manifest together with the new complete file - never a mix of the two
    &&& (res is Err ==> post.manifest == pre.manifest || new_point_in_place(pre, post, manifest))
}

// ---- assumed contracts of methods on extracted types ---------------------------
impl StoredPointHeader {
    #[verifier::external_body]
    fn write<W: IoWrite>(&self, writer: &mut W) -> (r: Result<(), IoError>)
        requires
            forall|n: int| 0 <= n <= enc_header(*self).len() ==>
                old(writer).state_ok(old(writer).written() + #[trigger] enc_header(*self).subrange(0, n)),
        ensures
            appended(old(writer).written(), final(writer).written(), enc_header(*self), r is Ok),
            forall|b: Seq<u8>| final(writer).state_ok(b) == old(writer).state_ok(b),
    { unimplemented!() }
}
impl StoredManifest {
    #[verifier::external_body]
    fn write<W: IoWrite>(&self, writer: &mut W) -> (r: Result<(), IoError>)
        requires
            forall|n: int| 0 <= n <= enc_manifest(*self).len() ==>
                old(writer).state_ok(old(writer).written() + #[trigger] enc_manifest(*self).subrange(0, n)),
        ensures
            appended(old(writer).written(), final(writer).written(), enc_manifest(*self), r is Ok),
            forall|b: Seq<u8>| final(writer).state_ok(b) == old(writer).state_ok(b),
    { unimplemented!() }
}
impl StoredObject {
    #[verifier::external_body]
    fn write<W: IoWrite>(&self, writer: &mut W) -> (r: Result<(), IoError>)
        requires
            forall|n: int| 0 <= n <= enc_object(*self).len() ==>
                old(writer).state_ok(old(writer).written() + #[trigger] enc_object(*self).subrange(0, n)),
        ensures
            appended(old(writer).written(), final(writer).written(), enc_object(*self), r is Ok),
            forall|b: Seq<u8>| final(writer).state_ok(b) == old(writer).state_ok(b),
    { unimplemented!() }
}
impl vstd::std_specs::convert::FromSpecImpl<RunFailed> for UpdateError {
    open spec fn obeys_from_spec() -> bool { false }
    open spec fn from_spec(v: RunFailed) -> UpdateError { arbitrary() }
}
impl From<RunFailed> for UpdateError {
    #[verifier::external_body]
    fn from(value: RunFailed) -> (r: UpdateError) ensures r is Failed { unimplemented!() }
}
impl vstd::std_specs::convert::FromSpecImpl<Failed> for UpdateError {
    open spec fn obeys_from_spec() -> bool { false }
    open spec fn from_spec(v: Failed) -> UpdateError { arbitrary() }
}
impl From<Failed> for UpdateError {
    #[verifier::external_body]
    fn from(value: Failed) -> (r: UpdateError) ensures r is Failed { unimplemented!() }
}
impl NamedTempFile {
    // Atomic rename over `new_path`. C04: only a complete point may replace stored data.
    #[verifier::external_body]
    fn persist(self, new_path: &PathBuf) -> (r: Result<File, PersistError>)
        requires complete_point(self.content()),
        ensures r matches Ok(f) ==> f.content() == self.content() && f.path() == new_path.p,
    { unimplemented!() }
}
// C04/C23: the states a stored point file may be in: empty (just created or truncated), a prefix
// of the header of a point that never succeeded, or a complete point.
spec fn file_state(b: Seq<u8>) -> bool {
    ||| b.len() == 0
    ||| exists|h: StoredPointHeader, n: int| h.update_status is LastAttempt && 0 <= n <= enc_header(h).len()
            && b == #[trigger] enc_header(h).subrange(0, n)
    ||| complete_point(b)
}
proof fn lemma_file_states()
    ensures
        forall|h: StoredPointHeader, n: int| h.update_status is LastAttempt && 0 <= n <= enc_header(h).len() ==>
            file_state(Seq::<u8>::empty() + #[trigger] enc_header(h).subrange(0, n)),
{
    assert forall|h: StoredPointHeader, n: int| h.update_status is LastAttempt && 0 <= n <= enc_header(h).len() implies
            file_state(Seq::<u8>::empty() + #[trigger] enc_header(h).subrange(0, n)) by {
        assert(Seq::<u8>::empty() + enc_header(h).subrange(0, n) =~= enc_header(h).subrange(0, n));
    }
}
impl IoWrite for File {
    open spec fn written(&self) -> Seq<u8> { self.content() }
    closed spec fn state_ok(&self, bytes: Seq<u8>) -> bool { file_state(bytes) }
}
impl File {
    // Create-or-truncate: the stored data (if any) is discarded, which `reject` does deliberately;
    // afterwards every in-place write must keep the file in a file_state.
    #[verifier::external_body]
    fn create(path: &PathBuf) -> (r: Result<File, IoError>)
        ensures r matches Ok(f) ==> f.content() == Seq::<u8>::empty() && f.path() == path.p,
    { unimplemented!() }
    #[verifier::external_body]
    fn open(path: &PathBuf) -> (r: Result<File, IoError>)
        ensures r matches Ok(f) ==> f.path() == path.p,
    { unimplemented!() }
    // create, failing if the path exists
    #[verifier::external_body]
    fn create_new(path: &PathBuf) -> (r: Result<File, IoError>)
        ensures r matches Ok(f) ==> f.content() == Seq::<u8>::empty() && f.path() == path.p,
    { unimplemented!() }
    // writes are modelled as appends: repositioning is only admitted on an empty file
    #[verifier::external_body]
    fn seek(&mut self, to: SeekFrom) -> (r: Result<u64, IoError>)
        requires old(self).content().len() == 0,
        ensures final(self).content() == old(self).content(), final(self).path() == old(self).path(),
    { unimplemented!() }
    #[verifier::external_body]
    fn sync_all(&self) -> (r: Result<(), IoError>) { unimplemented!() }
    #[verifier::external_body]
    fn metadata(&self) -> (r: Result<Metadata, IoError>)
        ensures r matches Ok(m) ==> m.len_spec() == self.content().len(),
    { unimplemented!() }
}
// utils::fatal wrapper of File::create
#[verifier::external_body]
fn fatal_create_file(path: &Path) -> (r: Result<File, Failed>)
    ensures r matches Ok(f) ==> f.content() == Seq::<u8>::empty() && f.path() == *path,
{ unimplemented!() }
