// Environment of unit `store_update` (C04). Everything here is ASSUMED.

// ---- opaque data ------------------------------------------------------------
#[verifier::external_body] #[derive(Clone, Copy)] pub struct Time { _opaque: () }
impl Time {
    #[verifier::external_body]
    pub fn now() -> (r: Time) { unimplemented!() }
}
#[verifier::external_body] pub struct UriRsync { _opaque: () }
#[verifier::external_body] pub struct UriHttps { _opaque: () }
#[verifier::external_body] pub struct Serial { _opaque: () }
#[verifier::external_body] pub struct Bytes { _opaque: () }
#[verifier::external_body] pub struct ManifestHash { _opaque: () }
#[verifier::external_body] pub struct IoError { _opaque: () }
#[verifier::external_body] pub struct PersistError { _opaque: () }

// ---- paths -------------------------------------------------------------------
#[verifier::external_body] pub struct Path { _opaque: () }
pub struct PathBuf { pub p: Path }

// ---- files: the ghost content of the handles a function owns -----------------
// Anything bytes can be appended to (std::io::Write). `written()` is everything
// written through the handle so far.
pub trait IoWrite {
    spec fn written(&self) -> Seq<u8>;
}
// After a failed write an arbitrary prefix of the data may have been appended.
pub open spec fn appended(old_w: Seq<u8>, new_w: Seq<u8>, data: Seq<u8>, ok: bool) -> bool {
    if ok { new_w == old_w + data }
    else { exists|n: int| 0 <= n <= data.len() && new_w == old_w + #[trigger] data.subrange(0, n) }
}

// std::fs::File
#[verifier::external_body] pub struct File { _opaque: () }
impl File {
    pub uninterp spec fn path(&self) -> Path;       // the path it was opened / persisted at
    pub uninterp spec fn content(&self) -> Seq<u8>; // the bytes of the file
}
impl IoWrite for File {
    open spec fn written(&self) -> Seq<u8> { self.content() }
}

// std::io::BufReader<File>: the file plus a read position.
#[verifier::external_body] #[verifier::reject_recursive_types(T)] pub struct BufReader<T> { _t: T }
impl BufReader<File> {
    pub uninterp spec fn inner(&self) -> File;
    pub uninterp spec fn pos(&self) -> int;
    #[verifier::external_body]
    pub fn new(file: File) -> (r: BufReader<File>)
        ensures r.inner() == file, r.pos() == 0,
    { unimplemented!() }
    #[verifier::external_body]
    pub fn seek(&mut self, to: SeekFrom) -> (r: Result<u64, IoError>)
        ensures
            final(self).inner() == old(self).inner(),
            r is Ok ==> (to matches SeekFrom::Start(n) ==> final(self).pos() == n as int),
    { unimplemented!() }
}
pub enum SeekFrom { Start(u64), End(i64), Current(i64) }

// tempfile::NamedTempFile: a file in the store's tmp directory, distinct from
// every stored point file until it is persisted.
#[verifier::external_body] pub struct NamedTempFile { _opaque: () }
impl NamedTempFile {
    pub uninterp spec fn content(&self) -> Seq<u8>;
}
impl IoWrite for NamedTempFile {
    open spec fn written(&self) -> Seq<u8> { self.content() }
}
// std::io::BufWriter<NamedTempFile>; `written()` includes buffered bytes,
// `into_inner` flushes them.
#[verifier::external_body] #[verifier::reject_recursive_types(T)] pub struct BufWriter<T> { _t: T }
impl BufWriter<NamedTempFile> {
    pub uninterp spec fn buffered(&self) -> Seq<u8>;
    #[verifier::external_body]
    pub fn new(inner: NamedTempFile) -> (r: BufWriter<NamedTempFile>)
        ensures r.buffered() == inner.content(),
    { unimplemented!() }
    #[verifier::external_body]
    pub fn stream_position(&mut self) -> (r: Result<u64, IoError>)
        ensures
            final(self).buffered() == old(self).buffered(),
            r matches Ok(n) ==> n as int == old(self).buffered().len(),
    { unimplemented!() }
    #[verifier::external_body]
    pub fn into_inner(self) -> (r: Result<NamedTempFile, IntoInnerError>)
        ensures r matches Ok(t) ==> t.content() == self.buffered(),
    { unimplemented!() }
}
impl IoWrite for BufWriter<NamedTempFile> {
    open spec fn written(&self) -> Seq<u8> { self.buffered() }
}
#[verifier::external_body] pub struct IntoInnerError { _opaque: () }
impl IntoInnerError {
    #[verifier::external_body]
    pub fn into_parts(self) -> (r: (IoError, BufWriter<NamedTempFile>)) { unimplemented!() }
}

pub assume_specification<T: core::marker::Destruct> [std::mem::drop] (_0: T);
