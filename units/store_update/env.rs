// Environment of unit `store_update` (C04). Everything here is ASSUMED.

// ---- opaque data ------------------------------------------------------------
#[verifier::external_body] #[derive(Clone, Copy)] pub struct Time { _opaque: () }
impl Time {
    #[verifier::external_body]
    pub fn now() -> (r: Time) { unimplemented!() }
}
#[verifier::external_body] pub struct UriRsync { _opaque: () }
impl Clone for UriRsync {
    #[verifier::external_body]
    fn clone(&self) -> (r: Self) ensures r == *self { unimplemented!() }
}
#[verifier::external_body] pub struct UriHttps { _opaque: () }
impl Clone for UriHttps {
    #[verifier::external_body]
    fn clone(&self) -> (r: Self) ensures r == *self { unimplemented!() }
}
#[verifier::external_body] pub struct Serial { _opaque: () }
impl Clone for Serial {
    #[verifier::external_body]
    fn clone(&self) -> (r: Self) ensures r == *self { unimplemented!() }
}
#[verifier::external_body] pub struct Bytes { _opaque: () }
impl Clone for Bytes {
    #[verifier::external_body]
    fn clone(&self) -> (r: Self) ensures r == *self { unimplemented!() }
}
#[verifier::external_body] pub struct ManifestHash { _opaque: () }
impl Clone for ManifestHash {
    #[verifier::external_body]
    fn clone(&self) -> (r: Self) ensures r == *self { unimplemented!() }
}
#[verifier::external_body] pub struct IoError { _opaque: () }
#[verifier::external_body] pub struct PersistError { _opaque: () }

// ---- paths -------------------------------------------------------------------
#[verifier::external_body] pub struct Path { _opaque: () }
pub struct PathBuf { pub p: Path }
impl std::ops::Deref for PathBuf {
    type Target = Path;
    #[verifier::external_body]
    fn deref(&self) -> (r: &Path) ensures *r == self.p { unimplemented!() }
}
impl Clone for PathBuf {
    #[verifier::external_body]
    fn clone(&self) -> (r: PathBuf) ensures r == *self { unimplemented!() }
}
// path algebra: `join_spec(dir, name)` is the entry `name` of directory `dir`; `parent_spec`
// is its inverse (None for a path without parent)
pub uninterp spec fn join_spec(dir: Path, name: Seq<char>) -> Path;
pub uninterp spec fn parent_spec(p: Path) -> Option<Path>;
impl PathBuf {
    #[verifier::external_body]
    pub fn join(&self, name: &str) -> (r: PathBuf) ensures r.p == join_spec(self.p, name@) { unimplemented!() }
    #[verifier::external_body]
    pub fn parent(&self) -> (r: Option<&Path>)
        ensures match r { Some(d) => parent_spec(self.p) == Some(*d), None => parent_spec(self.p) is None },
    { unimplemented!() }
    #[verifier::external_body]
    pub fn as_path(&self) -> (r: &Path) ensures *r == self.p { unimplemented!() }
}
impl Path {
    #[verifier::external_body]
    pub fn join(&self, name: &str) -> (r: PathBuf) ensures r.p == join_spec(*self, name@) { unimplemented!() }
    #[verifier::external_body]
    pub fn parent(&self) -> (r: Option<&Path>)
        ensures match r { Some(d) => parent_spec(*self) == Some(*d), None => parent_spec(*self) is None },
    { unimplemented!() }
    #[verifier::external_body]
    pub fn is_dir(&self) -> (r: bool) { unimplemented!() }
    #[verifier::external_body]
    pub fn to_path_buf(&self) -> (r: PathBuf) ensures r.p == *self { unimplemented!() }
    #[verifier::external_body]
    pub fn exists(&self) -> (r: bool) { unimplemented!() }
}
#[verifier::external_body]
pub fn fatal_create_dir_all(path: &Path) -> (r: Result<(), Failed>) { unimplemented!() }

// Path-level primitives of std::fs / utils::fatal that would change a stored point file
// behind the back of persist. Their permission (`the bytes that end up at the target are a
// complete point` / `the target is not a stored point`) cannot be established by anything
// in this unit, so a use of them in the functions under contract is reported.
pub uninterp spec fn may_replace(target: Path) -> bool;
#[verifier::external_body]
pub fn fs_rename(from: &Path, to: &Path) -> (r: Result<(), IoError>) requires may_replace(*to) { unimplemented!() }
#[verifier::external_body]
pub fn fatal_rename(from: &Path, to: &Path) -> (r: Result<(), Failed>) requires may_replace(*to) { unimplemented!() }
#[verifier::external_body]
pub fn fs_copy(from: &Path, to: &Path) -> (r: Result<u64, IoError>) requires may_replace(*to) { unimplemented!() }
#[verifier::external_body]
pub fn fs_write(path: &Path, contents: &[u8]) -> (r: Result<(), IoError>) requires may_replace(*path) { unimplemented!() }
#[verifier::external_body]
pub fn fatal_write_file(path: &Path, contents: &[u8]) -> (r: Result<(), Failed>) requires may_replace(*path) { unimplemented!() }
#[verifier::external_body]
pub fn fs_remove_file(path: &Path) -> (r: Result<(), IoError>) requires may_replace(*path) { unimplemented!() }
#[verifier::external_body]
pub fn fatal_remove_file(path: &Path) -> (r: Result<(), Failed>) requires may_replace(*path) { unimplemented!() }

// ---- files: the ghost content of the handles a function owns -----------------
// Anything bytes can be appended to (std::io::Write). `written()` is everything
// written through the handle so far.
pub trait IoWrite {
    spec fn written(&self) -> Seq<u8>;
    // `bytes` is a state the underlying file may be in (between two steps / at a kill)
    spec fn state_ok(&self, bytes: Seq<u8>) -> bool;
}
// After a failed write an arbitrary prefix of the data may have been appended.
pub open spec fn appended(old_w: Seq<u8>, new_w: Seq<u8>, data: Seq<u8>, ok: bool) -> bool {
    if ok { new_w == old_w + data }
    else { exists|n: int| 0 <= n <= data.len() && new_w == old_w + #[trigger] data.subrange(0, n) }
}

// std::fs::File
#[verifier::external_body] pub struct File { _opaque: () }
impl File {
    pub uninterp spec fn path(&self) -> Path;       // the path it was opened / persisted at
    pub uninterp spec fn content(&self) -> Seq<u8>; // the bytes of the file
}


// std::io::BufReader<File>: the file plus a read position.
#[verifier::external_body] #[verifier::reject_recursive_types(T)] pub struct BufReader<T> { _t: T }
impl BufReader<File> {
    pub uninterp spec fn inner(&self) -> File;
    pub uninterp spec fn pos(&self) -> int;
    #[verifier::external_body]
    pub fn new(file: File) -> (r: BufReader<File>)
        ensures r.inner() == file, r.pos() == 0,
    { unimplemented!() }
    #[verifier::external_body]
    pub fn seek(&mut self, to: SeekFrom) -> (r: Result<u64, IoError>)
        ensures
            final(self).inner() == old(self).inner(),
            r is Ok ==> (to matches SeekFrom::Start(n) ==> final(self).pos() == n as int),
    { unimplemented!() }
    #[verifier::external_body]
    pub fn get_ref(&self) -> (r: &File) ensures *r == self.inner() { unimplemented!() }
    #[verifier::external_body]
    pub fn into_inner(self) -> (r: File) ensures r == self.inner() { unimplemented!() }
    #[verifier::external_body]
    pub fn stream_position(&mut self) -> (r: Result<u64, IoError>)
        ensures final(self).inner() == old(self).inner(), final(self).pos() == old(self).pos(),
                r matches Ok(n) ==> n as int == old(self).pos(),
    { unimplemented!() }
}
pub enum SeekFrom { Start(u64), End(i64), Current(i64) }

// tempfile::NamedTempFile: a file in the store's tmp directory, distinct from
// every stored point file until it is persisted.
#[verifier::external_body] pub struct NamedTempFile { _opaque: () }
impl NamedTempFile {
    pub uninterp spec fn content(&self) -> Seq<u8>;
    // the directory the temporary file was created in (where it stays until persisted, and
    // where it is left behind if the process is killed)
    pub uninterp spec fn dir_spec(&self) -> Path;
}
// A temporary file is never read by anybody: every state of it is fine.
impl IoWrite for NamedTempFile {
    open spec fn written(&self) -> Seq<u8> { self.content() }
    open spec fn state_ok(&self, bytes: Seq<u8>) -> bool { true }
}
impl NamedTempFile {
    #[verifier::external_body]
    pub fn new_in(dir: &PathBuf) -> (r: Result<NamedTempFile, IoError>)
        ensures r matches Ok(t) ==> t.content().len() == 0 && t.dir_spec() == dir.p,
    { unimplemented!() }
    #[verifier::external_body]
    pub fn path(&self) -> (r: &Path) { unimplemented!() }
    #[verifier::external_body]
    pub fn as_file(&self) -> (r: &File) { unimplemented!() }
}
// std::io::BufWriter<NamedTempFile>; `written()` includes buffered bytes,
// `into_inner` flushes them.
#[verifier::external_body] #[verifier::reject_recursive_types(T)] pub struct BufWriter<T> { _t: T }
impl BufWriter<NamedTempFile> {
    pub uninterp spec fn buffered(&self) -> Seq<u8>;
    #[verifier::external_body]
    pub fn new(inner: NamedTempFile) -> (r: BufWriter<NamedTempFile>)
        ensures r.buffered() == inner.content(),
    { unimplemented!() }
    #[verifier::external_body]
    pub fn stream_position(&mut self) -> (r: Result<u64, IoError>)
        ensures
            final(self).buffered() == old(self).buffered(),
            r matches Ok(n) ==> n as int == old(self).buffered().len(),
    { unimplemented!() }
    #[verifier::external_body]
    pub fn into_inner(self) -> (r: Result<NamedTempFile, IntoInnerError>)
        ensures r matches Ok(t) ==> t.content() == self.buffered(),
    { unimplemented!() }
}
impl IoWrite for BufWriter<NamedTempFile> {
    open spec fn written(&self) -> Seq<u8> { self.buffered() }
    open spec fn state_ok(&self, bytes: Seq<u8>) -> bool { true }
}
impl BufWriter<NamedTempFile> {
    #[verifier::external_body]
    pub fn get_ref(&self) -> (r: &NamedTempFile) { unimplemented!() }
    // flushing moves buffered bytes to the file; the logical content is unchanged
    #[verifier::external_body]
    pub fn flush(&mut self) -> (r: Result<(), IoError>)
        ensures final(self).buffered() == old(self).buffered(),
    { unimplemented!() }
    #[verifier::external_body]
    pub fn write_all(&mut self, buf: &[u8]) -> (r: Result<(), IoError>)
        ensures appended(old(self).buffered(), final(self).buffered(), buf@, r is Ok),
    { unimplemented!() }
}
#[verifier::external_body] pub struct IntoInnerError { _opaque: () }
impl IntoInnerError {
    #[verifier::external_body]
    pub fn into_parts(self) -> (r: (IoError, BufWriter<NamedTempFile>)) { unimplemented!() }
}

pub assume_specification<T: core::marker::Destruct> [std::mem::drop] (_0: T);
// ---- std functions without a vstd specification (ASSUMED: their std definitions).
// Declared so that a refactoring that starts using one of them is verified, not rejected.
pub assume_specification<T: Ord + core::marker::Destruct> [std::cmp::min] (a: T, b: T) -> (r: T)
    ensures <T as vstd::std_specs::cmp::OrdSpec>::obeys_cmp_spec() ==> r == (if vstd::std_specs::cmp::OrdSpec::cmp_spec(&b, &a) == std::cmp::Ordering::Less { b } else { a }),
;
pub assume_specification<T: Ord + core::marker::Destruct> [std::cmp::max] (a: T, b: T) -> (r: T)
    ensures <T as vstd::std_specs::cmp::OrdSpec>::obeys_cmp_spec() ==> r == (if vstd::std_specs::cmp::OrdSpec::cmp_spec(&b, &a) == std::cmp::Ordering::Less { a } else { b }),
;
pub assume_specification [std::cmp::Ordering::is_lt] (o: std::cmp::Ordering) -> (r: bool)
    ensures r == (o == std::cmp::Ordering::Less);
pub assume_specification [std::cmp::Ordering::is_gt] (o: std::cmp::Ordering) -> (r: bool)
    ensures r == (o == std::cmp::Ordering::Greater);
pub assume_specification [std::cmp::Ordering::is_le] (o: std::cmp::Ordering) -> (r: bool)
    ensures r == (o != std::cmp::Ordering::Greater);
pub assume_specification [std::cmp::Ordering::is_ge] (o: std::cmp::Ordering) -> (r: bool)
    ensures r == (o != std::cmp::Ordering::Less);
pub assume_specification<T: core::marker::Destruct> [bool::then_some] (b: bool, t: T) -> (r: Option<T>)
    ensures r == (if b { Some(t) } else { None::<T> });
pub assume_specification<T: core::marker::Destruct> [std::option::Option::<T>::xor] (a: Option<T>, b: Option<T>) -> (r: Option<T>)
    ensures r == (match (a, b) { (Some(x), None) => Some(x), (None, Some(y)) => Some(y), _ => None::<T> });
pub assume_specification<'a, T: Copy> [std::option::Option::<&T>::copied] (o: Option<&'a T>) -> (r: Option<T>)
    ensures r == (match o { Some(x) => Some(*x), None => None::<T> });
pub assume_specification<T: core::marker::Destruct> [std::option::Option::<T>::or] (a: Option<T>, b: Option<T>) -> (r: Option<T>)
    ensures r == (if a is Some { a } else { b });
pub assume_specification<T: core::marker::Destruct, U: core::marker::Destruct> [std::option::Option::<T>::and] (a: Option<T>, b: Option<U>) -> (r: Option<U>)
    ensures r == (if a is Some { b } else { None::<U> });
pub assume_specification<T: core::marker::Destruct, U: core::marker::Destruct> [std::option::Option::<T>::zip] (a: Option<T>, b: Option<U>) -> (r: Option<(T, U)>)
    ensures r == (match (a, b) { (Some(x), Some(y)) => Some((x, y)), _ => None::<(T, U)> });
pub assume_specification<T, F: FnOnce(T) -> bool + core::marker::Destruct> [std::option::Option::<T>::is_some_and] (o: Option<T>, f: F) -> (r: bool)
    requires o matches Some(x) ==> f.requires((x,)),
    ensures match o { Some(x) => f.ensures((x,), r), None => !r };
pub assume_specification<T, F: FnOnce(T) -> bool + core::marker::Destruct> [std::option::Option::<T>::is_none_or] (o: Option<T>, f: F) -> (r: bool)
    requires o matches Some(x) ==> f.requires((x,)),
    ensures match o { Some(x) => f.ensures((x,), r), None => r };
pub assume_specification<T: core::marker::Destruct, P: FnOnce(&T) -> bool + core::marker::Destruct> [std::option::Option::<T>::filter] (o: Option<T>, p: P) -> (r: Option<T>)
    requires o matches Some(x) ==> p.requires((&x,)),
    ensures match o { Some(x) => (r == Some(x) && p.ensures((&x,), true)) || (r is None && p.ensures((&x,), false)), None => r is None },
        // the predicate returned SOME boolean for the element, and the result follows it
        o is Some ==> exists|__b: bool| p.ensures((&o->Some_0,), __b) && r == (if __b { o } else { None::<T> });
pub assume_specification<T: core::marker::Destruct, F: FnOnce() -> Option<T> + core::marker::Destruct> [std::option::Option::<T>::or_else] (o: Option<T>, f: F) -> (r: Option<T>)
    requires o is None ==> f.requires(()),
    ensures match o { Some(x) => r == o, None => f.ensures((), r) };
pub assume_specification<T, U: core::marker::Destruct, F: FnOnce(T) -> U + core::marker::Destruct> [std::option::Option::<T>::map_or] (o: Option<T>, d: U, f: F) -> (r: U)
    requires o matches Some(x) ==> f.requires((x,)),
    ensures match o { Some(x) => f.ensures((x,), r), None => r == d };
pub assume_specification<T, U, D: FnOnce() -> U + core::marker::Destruct, F: FnOnce(T) -> U + core::marker::Destruct> [std::option::Option::<T>::map_or_else] (o: Option<T>, d: D, f: F) -> (r: U)
    requires o matches Some(x) ==> f.requires((x,)), o is None ==> d.requires(()),
    ensures match o { Some(x) => f.ensures((x,), r), None => d.ensures((), r) };
pub assume_specification<T: core::marker::Destruct, E: core::marker::Destruct> [std::result::Result::<T, E>::unwrap_or] (x: Result<T, E>, d: T) -> (r: T)
    ensures r == (match x { Ok(v) => v, Err(_) => d });
pub assume_specification<T, E: core::marker::Destruct, F: core::marker::Destruct> [std::result::Result::<T, E>::or] (a: Result<T, E>, b: Result<T, F>) -> (r: Result<T, F>)
    ensures match a { Ok(v) => r == Ok::<T, F>(v), Err(_) => r == b };
pub assume_specification<T, E, U, F: FnOnce(T) -> Result<U, E> + core::marker::Destruct> [std::result::Result::<T, E>::and_then] (x: Result<T, E>, f: F) -> (r: Result<U, E>)
    requires x matches Ok(v) ==> f.requires((v,)),
    ensures match x { Ok(v) => f.ensures((v,), r), Err(e) => r == Err::<U, E>(e) };
pub assume_specification<T, E: core::marker::Destruct, F: FnOnce(T) -> bool + core::marker::Destruct> [std::result::Result::<T, E>::is_ok_and] (x: Result<T, E>, f: F) -> (r: bool)
    requires x matches Ok(v) ==> f.requires((v,)),
    ensures match x { Ok(v) => f.ensures((v,), r), Err(_) => !r };
pub assume_specification<T, E, F: FnOnce(E) -> T + core::marker::Destruct> [std::result::Result::<T, E>::unwrap_or_else] (x: Result<T, E>, f: F) -> (r: T)
    requires x matches Err(e) ==> f.requires((e,)),
    ensures match x { Ok(v) => r == v, Err(e) => f.ensures((e,), r) };
pub assume_specification<T> [std::mem::replace] (dest: &mut T, src: T) -> (r: T)
    ensures r == *old(dest), *final(dest) == src;
pub assume_specification<T: Default + core::marker::Destruct, E: core::marker::Destruct> [std::result::Result::<T, E>::unwrap_or_default] (x: Result<T, E>) -> (r: T)
    ensures x matches Ok(v) ==> r == v;
pub assume_specification<T, E, U: core::marker::Destruct, F: FnOnce(T) -> U + core::marker::Destruct> [std::result::Result::<T, E>::map_or] (x: Result<T, E>, d: U, f: F) -> (r: U)
    requires x matches Ok(v) ==> f.requires((v,)),
    ensures match x { Ok(v) => f.ensures((v,), r), Err(_) => r == d };
pub assume_specification [<std::cmp::Ordering as PartialEq>::eq] (a: &std::cmp::Ordering, b: &std::cmp::Ordering) -> (r: bool)
    ensures r == (*a == *b);
// std::fs::Metadata of a stored point file
#[verifier::external_body] pub struct Metadata { _opaque: () }
impl Metadata {
    pub uninterp spec fn len_spec(&self) -> nat;
    #[verifier::external_body]
    pub fn len(&self) -> (r: u64) ensures r as nat == self.len_spec() { unimplemented!() }
    #[verifier::external_body]
    pub fn is_file(&self) -> (r: bool) { unimplemented!() }
}
