//@ fn ModuleSet::add_from_uri
//@ spec
    ensures
        // C40: after registering a URI, the lookup that Run::cleanup / cleanup_host performs with the
        // on-disk names (directory of the canonical, lower-cased authority; module directory) succeeds
        final(self).has(lower(uri.authority_spec()), uri.module_spec()),
        // registrations are never withdrawn, and nothing else is added
        forall|a: Seq<char>, m: Seq<char>| old(self).has(a, m) ==> final(self).has(a, m),
        forall|a: Seq<char>, m: Seq<char>| final(self).has(a, m) ==>
            old(self).has(a, m) || (a == lower(uri.authority_spec()) && m == uri.module_spec()),
//@ closure 1
|auth: &mut HashSet<String>| -> (r: bool) ensures final(auth).set() =~= old(auth).set().insert(uri.module_spec())
//@ fn ModuleSet::with_authority
//@ spec
    requires
        forall|s: &mut HashSet<String>| op.requires((s,)),
    ensures
        // `op` ran on the module set stored under the canonical authority of the URI (an empty one if
        // there was none) and its result is what is stored there now; other authorities are untouched
        exists|s: &mut HashSet<String>| #[trigger] op.ensures((s,), res)
            && s.set() == (if old(self).authorities.map().contains_key(lower(uri.authority_spec()))
                              { old(self).authorities.map()[lower(uri.authority_spec())].set() }
                           else { Set::<Seq<char>>::empty() })
            && final(self).authorities.map() == old(self).authorities.map().insert(lower(uri.authority_spec()), *final(s)),
//@ fn Cleanup::add_rsync_module
//@ spec
    ensures
        // C40: what the store registers for a kept point is found by the rsync cleanup under the on-disk names
        final(self).rsync.has(lower(uri.authority_spec()), uri.module_spec()),
        forall|a: Seq<char>, m: Seq<char>| old(self).rsync.has(a, m) ==> final(self).rsync.has(a, m),
        final(self).rrdp == old(self).rrdp,
//@ fn Cleanup::add_rrdp_repository
//@ spec
    ensures
        final(self).rrdp.uris() == old(self).rrdp.uris().insert(*rpki_notify),
        final(self).rsync == old(self).rsync,
//@ fn Run::cleanup_host
//@ spec
    requires
        // `retain` is the module set of this host in the final retention set
        entry.name_spec() matches Some(a) && (forall|m: Seq<char>| final_has(a, m) ==> retain.set().contains(m)),
        host_layout(*entry),
    ensures
        // C40: the host directory is reported as removable only if it holds no retained module
        res == Ok::<bool, Failed>(false) ==> !host_in_use(*entry),
//@ entry
    let ghost host = *entry;
//@ loopvar 1 it
//@ loop 1
    invariant
        host.name_spec() matches Some(a) && (forall|m: Seq<char>| final_has(a, m) ==> retain.set().contains(m)),
        host_layout(host),
        lists_seq(it.seq(), host.path_spec()),
        !keep_host ==> forall|j: int| 0 <= j < it.index@ ==>
            !module_entry_in_use(host.name_spec()->Some_0, #[trigger] listing(host.path_spec())[j]),
//@ fn Run::cleanup
//@ spec
    requires
        // ghost naming of the final retention set: registered by the store, plus updated in this run
        forall|a: Seq<char>, m: Seq<char>| final_has(a, m) == (old(retain).has(a, m)
            || exists|om: OwnedModule| #[trigger] self.updated.view().elems().contains(om)
                   && om.authority_spec() == a && om.module_spec() == m),
        layout(self.collector.working_dir.base.p),
    ensures
        // C40: every module registered by the store or updated in this run is in the set the
        // deletion decisions were taken with (unless rsync is disabled: then nothing is deleted)
        self.collector.command is Some ==> forall|a: Seq<char>, m: Seq<char>| final_has(a, m) ==> final(retain).has(a, m),
//@ loopvar 1 um
//@ loop 1
    invariant
        forall|a: Seq<char>, m: Seq<char>| old(retain).has(a, m) ==> retain.has(a, m),
        forall|x: OwnedModule| #[trigger] self.updated.view().elems().contains(x) ==>
            (retain.has(x.authority_spec(), x.module_spec())
             || exists|i: int| um.index@ <= i < um.seq().len() && #[trigger] um.seq()[i] == &x),
//@ loopvar 2 it
//@ loop 2
    invariant
        forall|a: Seq<char>, m: Seq<char>| final_has(a, m) ==> retain.has(a, m),
        layout(self.collector.working_dir.base.p),
        lists_seq(it.seq(), self.collector.working_dir.base.p),
//@ global
// The final retention set of this cleanup, as (authority, module) pairs.
uninterp spec fn final_has(a: Seq<char>, m: Seq<char>) -> bool;

impl ModuleSet {
    spec fn has(&self, a: Seq<char>, m: Seq<char>) -> bool {
        self.authorities.map().contains_key(a) && self.authorities.map()[a].set().contains(m)
    }
}

// f is an entry of host directory `a`: it is the copy of module (a, name(f)).
spec fn module_entry_in_use(a: Seq<char>, f: DirEntry) -> bool {
    f.name_spec() matches Some(m) && final_has(a, m)
}
// e is an entry of the working directory: host directory name(e).
spec fn host_in_use(e: DirEntry) -> bool {
    e.name_spec() matches Some(a) &&
        exists|j: int| 0 <= j < listing(e.path_spec()).len() && module_entry_in_use(a, #[trigger] listing(e.path_spec())[j])
}
// Layout: what `protected` means for the entries of a host directory / of the working directory.
spec fn host_layout(e: DirEntry) -> bool {
    &&& (protected(e.path_spec()) ==> host_in_use(e))
    &&& forall|j: int| 0 <= j < listing(e.path_spec()).len() ==>
            (protected((#[trigger] listing(e.path_spec())[j]).path_spec())
                ==> (e.name_spec() matches Some(a) && module_entry_in_use(a, listing(e.path_spec())[j])))
}
spec fn layout(base: Path) -> bool {
    forall|i: int| 0 <= i < listing(base).len() ==> host_layout(#[trigger] listing(base)[i])
}
