//@ fn Run::cleanup_host
//@ spec
    requires
        // `retain` is the module set of this host in the final retention set
        entry.name_spec() matches Some(a) && (forall|m: Seq<char>| final_has(a, m) ==> retain.set().contains(m)),
        host_layout(*entry),
    ensures
        // C40: the host directory is reported as removable only if it holds no retained module
        res == Ok::<bool, Failed>(false) ==> !host_in_use(*entry),
//@ entry
    let ghost host = *entry;
//@ loopvar 1 it
//@ loop 1
    invariant
        host.name_spec() matches Some(a) && (forall|m: Seq<char>| final_has(a, m) ==> retain.set().contains(m)),
        host_layout(host),
        lists_seq(it.seq(), host.path_spec()),
        !keep_host ==> forall|j: int| 0 <= j < it.index@ ==>
            !module_entry_in_use(host.name_spec()->Some_0, #[trigger] listing(host.path_spec())[j]),
//@ fn Run::cleanup
//@ spec
    requires
        // ghost naming of the final retention set: registered by the store, plus updated in this run
        forall|a: Seq<char>, m: Seq<char>| final_has(a, m) == (old(retain).has(a, m)
            || exists|om: OwnedModule| #[trigger] self.updated.view().elems().contains(om)
                   && om.authority_spec() == a && om.module_spec() == m),
        layout(self.collector.working_dir.base.p),
    ensures
        // C40: every module registered by the store or updated in this run is in the set the
        // deletion decisions were taken with (unless rsync is disabled: then nothing is deleted)
        self.collector.command is Some ==> forall|a: Seq<char>, m: Seq<char>| final_has(a, m) ==> final(retain).has(a, m),
//@ loopvar 1 um
//@ loop 1
    invariant
        forall|a: Seq<char>, m: Seq<char>| old(retain).has(a, m) ==> retain.has(a, m),
        forall|x: OwnedModule| #[trigger] self.updated.view().elems().contains(x) ==>
            (retain.has(x.authority_spec(), x.module_spec())
             || exists|i: int| um.index@ <= i < um.seq().len() && #[trigger] um.seq()[i] == &x),
//@ loopvar 2 it
//@ loop 2
    invariant
        forall|a: Seq<char>, m: Seq<char>| final_has(a, m) ==> retain.has(a, m),
        layout(self.collector.working_dir.base.p),
        lists_seq(it.seq(), self.collector.working_dir.base.p),
//@ global
// The final retention set of this cleanup, as (authority, module) pairs.
uninterp spec fn final_has(a: Seq<char>, m: Seq<char>) -> bool;

impl ModuleSet {
    spec fn has(&self, a: Seq<char>, m: Seq<char>) -> bool {
        self.authorities.map().contains_key(a) && self.authorities.map()[a].set().contains(m)
    }
    // ModuleSet as a set (assumed; the real body uses a closure over &mut HashSet).
    #[verifier::external_body]
    fn add_from_uri(&mut self, uri: &UriRsync) -> (r: bool)
        ensures forall|a: Seq<char>, m: Seq<char>| final(self).has(a, m) ==
                    (old(self).has(a, m) || (a == uri.authority_spec() && m == uri.module_spec())),
    { unimplemented!() }
}

// f is an entry of host directory `a`: it is the copy of module (a, name(f)).
spec fn module_entry_in_use(a: Seq<char>, f: DirEntry) -> bool {
    f.name_spec() matches Some(m) && final_has(a, m)
}
// e is an entry of the working directory: host directory name(e).
spec fn host_in_use(e: DirEntry) -> bool {
    e.name_spec() matches Some(a) &&
        exists|j: int| 0 <= j < listing(e.path_spec()).len() && module_entry_in_use(a, #[trigger] listing(e.path_spec())[j])
}
// Layout: what `protected` means for the entries of a host directory / of the working directory.
spec fn host_layout(e: DirEntry) -> bool {
    &&& (protected(e.path_spec()) ==> host_in_use(e))
    &&& forall|j: int| 0 <= j < listing(e.path_spec()).len() ==>
            (protected((#[trigger] listing(e.path_spec())[j]).path_spec())
                ==> (e.name_spec() matches Some(a) && module_entry_in_use(a, listing(e.path_spec())[j])))
}
spec fn layout(base: Path) -> bool {
    forall|i: int| 0 <= i < listing(base).len() ==> host_layout(#[trigger] listing(base)[i])
}
