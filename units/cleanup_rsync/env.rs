// Environment of unit `cleanup_rsync` (C40, rsync collector). Everything here is ASSUMED.

// ---- std collections with borrowed-key lookups ------------------------------
// vstd has no model of HashMap<String,_>::get(&str) / HashSet<String>::contains(&str)
// (Borrow<str> lookups), so the contracts of exactly the std methods used by the
// extracted code are stated on stand-in types of the same names. Keys are viewed
// as their character sequences.
#[verifier::external_body] #[verifier::reject_recursive_types(K)] #[verifier::reject_recursive_types(V)]
pub struct HashMap<K, V> { _k: K, _v: V }
impl<V> HashMap<String, V> {
    pub uninterp spec fn map(&self) -> Map<Seq<char>, V>;
    #[verifier::external_body]
    pub fn get(&self, k: &str) -> (r: Option<&V>)
        ensures match r {
            Some(v) => self.map().contains_key(k@) && *v == self.map()[k@],
            None => !self.map().contains_key(k@),
        },
    { unimplemented!() }
}
#[verifier::external_body] #[verifier::reject_recursive_types(T)]
pub struct HashSet<T> { _t: T }
impl HashSet<String> {
    pub uninterp spec fn set(&self) -> Set<Seq<char>>;
    #[verifier::external_body]
    pub fn contains(&self, k: &str) -> (r: bool)
        ensures r == self.set().contains(k@),
    { unimplemented!() }
}
impl<T> HashSet<T> {
    pub uninterp spec fn elems(&self) -> Set<T>;
    #[verifier::external_body]
    pub fn iter(&self) -> (r: SetIter<'_, T>)
        ensures forall|x: T| #[trigger] self.elems().contains(x) ==> exists|i: int| 0 <= i < r.rem().len() && #[trigger] r.rem()[i] == &x,
    { unimplemented!() }
}
#[verifier::external_body] #[verifier::reject_recursive_types(T)]
pub struct SetIter<'a, T> { _t: &'a T }
impl<'a, T> SetIter<'a, T> {
    pub uninterp spec fn rem(&self) -> Seq<&'a T>;
}
impl<'a, T> Iterator for SetIter<'a, T> {
    type Item = &'a T;
    #[verifier::external_body]
    fn next(&mut self) -> Option<&'a T> { unimplemented!() }
}
impl<'a, T> IteratorSpecImpl for SetIter<'a, T> {
    open spec fn obeys_prophetic_iter_laws(&self) -> bool { true }
    #[verifier::prophetic]
    open spec fn remaining(&self) -> Seq<&'a T> { self.rem() }
    #[verifier::prophetic]
    open spec fn will_return_none(&self) -> bool { true }
    open spec fn decrease(&self) -> Option<nat> { Some(self.rem().len()) }
    open spec fn peek(&self, i: int) -> Option<&'a T> { None }
}

// utils::sync::{RwLock, Mutex}: `read()` hands out a shared reference to the
// protected value (cleanup runs after all workers finished).
#[verifier::external_body] #[verifier::reject_recursive_types(T)] pub struct RwLock<T> { _t: T }
impl<T> RwLock<T> {
    pub uninterp spec fn view(&self) -> T;
    #[verifier::external_body]
    pub fn read(&self) -> (r: &T) ensures *r == self.view() { unimplemented!() }
}
#[verifier::external_body] #[verifier::reject_recursive_types(T)] pub struct Mutex<T> { _t: T }

// ---- opaque data ----------------------------------------------------------------
#[verifier::external_body] pub struct RsyncCommand { _opaque: () }
#[verifier::external_body] pub struct RsyncModuleMetrics { _opaque: () }
// uri::Rsync: only its canonical authority and module name matter here.
#[verifier::external_body] pub struct UriRsync { _opaque: () }
impl UriRsync {
    pub uninterp spec fn authority_spec(&self) -> Seq<char>;
    pub uninterp spec fn module_spec(&self) -> Seq<char>;
}
// rsync::OwnedModule (derefs to Module, whose to_uri() is used).
#[verifier::external_body] pub struct OwnedModule { _opaque: () }
impl OwnedModule {
    pub uninterp spec fn authority_spec(&self) -> Seq<char>;
    pub uninterp spec fn module_spec(&self) -> Seq<char>;
    #[verifier::external_body]
    pub fn to_uri(&self) -> (r: UriRsync)
        ensures r.authority_spec() == self.authority_spec(), r.module_spec() == self.module_spec(),
    { unimplemented!() }
}

// ---- paths and directory entries ------------------------------------------------
#[verifier::external_body] pub struct Path { _opaque: () }
pub struct PathBuf { pub p: Path }
impl std::ops::Deref for PathBuf {
    type Target = Path;
    #[verifier::external_body]
    fn deref(&self) -> (r: &Path) ensures *r == self.p { unimplemented!() }
}
#[verifier::external_body] pub struct OsStr { _opaque: () }
impl OsStr {
    pub uninterp spec fn utf8(&self) -> Option<Seq<char>>;
    #[verifier::external_body]
    pub fn to_str(&self) -> (r: Option<&str>)
        ensures match r { Some(s) => self.utf8() == Some(s@), None => self.utf8() is None },
    { unimplemented!() }
}
#[verifier::external_body] pub struct DirEntry { _opaque: () }
impl DirEntry {
    pub uninterp spec fn path_spec(&self) -> Path;
    pub uninterp spec fn name_spec(&self) -> Option<Seq<char>>;
    pub uninterp spec fn is_dir_spec(&self) -> bool;
    pub uninterp spec fn is_file_spec(&self) -> bool;
    #[verifier::external_body]
    pub fn path(&self) -> (r: &Path) ensures *r == self.path_spec() { unimplemented!() }
    #[verifier::external_body]
    pub fn file_name(&self) -> (r: &OsStr) ensures r.utf8() == self.name_spec() { unimplemented!() }
    #[verifier::external_body]
    pub fn is_dir(&self) -> (r: bool) ensures r == self.is_dir_spec(), !r ==> listing(self.path_spec()).len() == 0 { unimplemented!() }
    #[verifier::external_body]
    pub fn is_file(&self) -> (r: bool) ensures r == self.is_file_spec(), r ==> listing(self.path_spec()).len() == 0 { unimplemented!() }
}
// The entries of directory `dir` when this cleanup lists it (only directories have entries).
pub uninterp spec fn listing(dir: Path) -> Seq<DirEntry>;
#[verifier::external_body] pub struct ReadDir<'a> { _opaque: &'a () }
impl<'a> ReadDir<'a> {
    pub uninterp spec fn rem(&self) -> Seq<Result<DirEntry, Failed>>;
}
impl<'a> Iterator for ReadDir<'a> {
    type Item = Result<DirEntry, Failed>;
    #[verifier::external_body]
    fn next(&mut self) -> Option<Result<DirEntry, Failed>> { unimplemented!() }
}
impl<'a> IteratorSpecImpl for ReadDir<'a> {
    open spec fn obeys_prophetic_iter_laws(&self) -> bool { true }
    #[verifier::prophetic]
    open spec fn remaining(&self) -> Seq<Result<DirEntry, Failed>> { self.rem() }
    #[verifier::prophetic]
    open spec fn will_return_none(&self) -> bool { true }
    open spec fn decrease(&self) -> Option<nat> { Some(self.rem().len()) }
    open spec fn peek(&self, i: int) -> Option<Result<DirEntry, Failed>> { None }
}
pub open spec fn lists_seq(s: Seq<Result<DirEntry, Failed>>, dir: Path) -> bool {
    &&& s.len() == listing(dir).len()
    &&& forall|i: int| 0 <= i < s.len() ==> ((#[trigger] s[i]) matches Ok(e) ==> e == listing(dir)[i])
}
#[verifier::external_body]
pub fn fatal_read_dir<'a>(path: &'a Path) -> (r: Result<ReadDir<'a>, Failed>)
    ensures r matches Ok(d) ==> lists_seq(d.rem(), *path),
{ unimplemented!() }

// ---- deletion permissions ---------------------------------------------------------
// protected(p): p is, or contains, the local copy of an rsync module that a retained
// publication point or this run uses (a module of final_set()).
pub uninterp spec fn protected(p: Path) -> bool;
#[verifier::external_body]
pub fn fatal_remove_all(path: &Path) -> (r: Result<(), Failed>)
    requires !protected(*path),
{ unimplemented!() }
#[verifier::external_body]
pub fn fatal_remove_file(path: &Path) -> (r: Result<(), Failed>)
    requires !protected(*path),
{ unimplemented!() }
