// Environment of unit `cleanup_rsync` (C40, rsync collector). Everything here is ASSUMED.

// ---- std collections with borrowed-key lookups ------------------------------
// vstd has no model of HashMap<String,_>::get(&str) / HashSet<String>::contains(&str)
// (Borrow<str> lookups), so the contracts of exactly the std methods used by the
// extracted code are stated on stand-in types of the same names. Keys are viewed
// as their character sequences.
#[verifier::external_body] #[verifier::reject_recursive_types(K)] #[verifier::reject_recursive_types(V)]
pub struct HashMap<K, V> { _k: K, _v: V }
impl<V> HashMap<String, V> {
    pub uninterp spec fn map(&self) -> Map<Seq<char>, V>;
    #[verifier::external_body]
    pub fn get(&self, k: &str) -> (r: Option<&V>)
        ensures match r {
            Some(v) => self.map().contains_key(k@) && *v == self.map()[k@],
            None => !self.map().contains_key(k@),
        },
    { unimplemented!() }
}
#[verifier::external_body] #[verifier::reject_recursive_types(T)]
pub struct HashSet<T> { _t: T }
// std::collections::hash_map::Entry<String, V>
#[verifier::external_body] #[verifier::reject_recursive_types(V)]
pub struct Entry<'a, V> { _v: &'a V }
impl<'a, V> Entry<'a, V> {
    pub uninterp spec fn key(&self) -> Seq<char>;
    pub uninterp spec fn before(&self) -> Map<Seq<char>, V>;
    pub uninterp spec fn after(&self) -> Map<Seq<char>, V>;
}
impl<'a> Entry<'a, HashSet<String>> {
    // or_default: the existing value, or a freshly inserted empty set
    #[verifier::external_body]
    pub fn or_default(self) -> (r: &'a mut HashSet<String>)
        ensures
            self.before().contains_key(self.key()) ==> *r == self.before()[self.key()],
            !self.before().contains_key(self.key()) ==> r.set() == Set::<Seq<char>>::empty(),
            self.after() == self.before().insert(self.key(), *final(r)),
    { unimplemented!() }
}
impl HashSet<UriHttps> {
    pub uninterp spec fn uris(&self) -> Set<UriHttps>;
    #[verifier::external_body]
    pub fn insert(&mut self, k: UriHttps) -> (r: bool)
        ensures final(self).uris() == old(self).uris().insert(k),
    { unimplemented!() }
    #[verifier::external_body]
    pub fn contains(&self, k: &UriHttps) -> (r: bool) ensures r == self.uris().contains(*k) { unimplemented!() }
}
#[verifier::external_body] pub struct UriHttps { _opaque: () }
impl Clone for UriHttps {
    #[verifier::external_body]
    fn clone(&self) -> (r: Self) ensures r == *self { unimplemented!() }
}
// std::borrow::Cow<'_, str>
pub enum CowStr<'a> { Borrowed(&'a str), Owned(String) }
impl<'a> CowStr<'a> {
    pub open spec fn view(&self) -> Seq<char> {
        match *self { CowStr::Borrowed(s) => s@, CowStr::Owned(s) => s@ }
    }
    #[verifier::external_body]
    pub fn into_owned(self) -> (r: String) ensures r@ == self.view() { unimplemented!() }
    #[verifier::external_body]
    pub fn as_ref(&self) -> (r: &str) ensures r@ == self.view() { unimplemented!() }
}
impl<V> HashMap<String, V> {
    // The returned reference is the entry for k: what is written through it is the map's new value at k.
    #[verifier::external_body]
    pub fn get_mut(&mut self, k: &str) -> (r: Option<&mut V>)
        ensures
            match r {
                Some(v) => old(self).map().contains_key(k@) && *v == old(self).map()[k@]
                    && final(self).map() == old(self).map().insert(k@, *final(v)),
                None => !old(self).map().contains_key(k@) && final(self).map() == old(self).map(),
            },
    { unimplemented!() }
    // entry(k): the map as it will be once the entry has been used is `after()` of the entry.
    #[verifier::external_body]
    pub fn entry(&mut self, key: String) -> (e: Entry<'_, V>)
        ensures e.key() == key@, e.before() == old(self).map(), final(self).map() == e.after(),
    { unimplemented!() }
    #[verifier::external_body]
    pub fn contains_key(&self, k: &str) -> (r: bool) ensures r == self.map().contains_key(k@) { unimplemented!() }
    #[verifier::external_body]
    pub fn is_empty(&self) -> (r: bool) { unimplemented!() }
    #[verifier::external_body]
    pub fn len(&self) -> (r: usize) { unimplemented!() }
}
impl HashSet<String> {
    #[verifier::external_body]
    pub fn insert(&mut self, k: String) -> (r: bool)
        ensures final(self).set() == old(self).set().insert(k@), r == !old(self).set().contains(k@),
    { unimplemented!() }
    #[verifier::external_body]
    pub fn is_empty(&self) -> (r: bool) ensures r ==> self.set() == Set::<Seq<char>>::empty() { unimplemented!() }
    #[verifier::external_body]
    pub fn len(&self) -> (r: usize) { unimplemented!() }
    pub uninterp spec fn set(&self) -> Set<Seq<char>>;
    #[verifier::external_body]
    pub fn contains(&self, k: &str) -> (r: bool)
        ensures r == self.set().contains(k@),
    { unimplemented!() }
}
impl<T> HashSet<T> {
    pub uninterp spec fn elems(&self) -> Set<T>;
    #[verifier::external_body]
    pub fn iter(&self) -> (r: SetIter<'_, T>)
        ensures forall|x: T| #[trigger] self.elems().contains(x) ==> exists|i: int| 0 <= i < r.rem().len() && #[trigger] r.rem()[i] == &x,
    { unimplemented!() }
}
#[verifier::external_body] #[verifier::reject_recursive_types(T)]
pub struct SetIter<'a, T> { _t: &'a T }
impl<'a, T> SetIter<'a, T> {
    pub uninterp spec fn rem(&self) -> Seq<&'a T>;
}
impl<'a, T> Iterator for SetIter<'a, T> {
    type Item = &'a T;
    #[verifier::external_body]
    fn next(&mut self) -> Option<&'a T> { unimplemented!() }
}
impl<'a, T> IteratorSpecImpl for SetIter<'a, T> {
    open spec fn obeys_prophetic_iter_laws(&self) -> bool { true }
    #[verifier::prophetic]
    open spec fn remaining(&self) -> Seq<&'a T> { self.rem() }
    #[verifier::prophetic]
    open spec fn will_return_none(&self) -> bool { true }
    open spec fn decrease(&self) -> Option<nat> { Some(self.rem().len()) }
    open spec fn peek(&self, i: int) -> Option<&'a T> { None }
}

// utils::sync::{RwLock, Mutex}: `read()` hands out a shared reference to the
// protected value (cleanup runs after all workers finished).
#[verifier::external_body] #[verifier::reject_recursive_types(T)] pub struct RwLock<T> { _t: T }
impl<T> RwLock<T> {
    pub uninterp spec fn view(&self) -> T;
    #[verifier::external_body]
    pub fn new(t: T) -> (r: RwLock<T>) ensures r.view() == t { unimplemented!() }
    #[verifier::external_body]
    pub fn read(&self) -> (r: &T) ensures *r == self.view() { unimplemented!() }
}
#[verifier::external_body] #[verifier::reject_recursive_types(T)] pub struct Mutex<T> { _t: T }

// ---- opaque data ----------------------------------------------------------------
#[verifier::external_body] pub struct RsyncCommand { _opaque: () }
#[verifier::external_body] pub struct RsyncModuleMetrics { _opaque: () }
// ASCII lower-casing; the canonical form of a (case-insensitive) authority.
pub uninterp spec fn lower(s: Seq<char>) -> Seq<char>;
#[verifier::external_body]
pub proof fn axiom_lower()
    ensures forall|s: Seq<char>| lower(#[trigger] lower(s)) == lower(s),
{ unimplemented!() }
// uri::Rsync: its authority as written, the canonical (lower-cased) authority, the module name.
// On disk a module lives at <base>/<canonical authority>/<module name>.
#[verifier::external_body] pub struct UriRsync { _opaque: () }
impl UriRsync {
    pub uninterp spec fn authority_spec(&self) -> Seq<char>;
    pub uninterp spec fn module_spec(&self) -> Seq<char>;
    #[verifier::external_body]
    pub fn authority(&self) -> (r: &str) ensures r@ == self.authority_spec() { unimplemented!() }
    // UriExt::canonical_authority: borrowed if the authority is lower-case already
    #[verifier::external_body]
    pub fn canonical_authority(&self) -> (r: CowStr<'_>)
        ensures r.view() == lower(self.authority_spec()),
                r is Borrowed ==> lower(self.authority_spec()) == self.authority_spec(),
    { unimplemented!() }
    #[verifier::external_body]
    pub fn path(&self) -> (r: &str) { unimplemented!() }
    #[verifier::external_body]
    pub fn module_name(&self) -> (r: &str) ensures r@ == self.module_spec() { unimplemented!() }
    #[verifier::external_body]
    pub fn has_dubious_authority(&self) -> (r: bool) { unimplemented!() }
}
impl Clone for UriRsync {
    #[verifier::external_body]
    fn clone(&self) -> (r: Self) ensures r == *self { unimplemented!() }
}
// rsync::OwnedModule (derefs to Module, whose to_uri() is used).
#[verifier::external_body] pub struct OwnedModule { _opaque: () }
impl Clone for OwnedModule {
    #[verifier::external_body]
    fn clone(&self) -> (r: Self) ensures r == *self { unimplemented!() }
}
impl OwnedModule {
    pub uninterp spec fn authority_spec(&self) -> Seq<char>;
    pub uninterp spec fn module_spec(&self) -> Seq<char>;
    // A module holds the canonical form (Module::from_uri = uri.canonical_module()):
    // authority_spec() of a module is the on-disk directory name.
    #[verifier::external_body]
    pub fn to_uri(&self) -> (r: UriRsync)
        ensures lower(r.authority_spec()) == self.authority_spec(), r.module_spec() == self.module_spec(),
    { unimplemented!() }
}

// ---- paths and directory entries ------------------------------------------------
#[verifier::external_body] pub struct Path { _opaque: () }
pub struct PathBuf { pub p: Path }
impl std::ops::Deref for PathBuf {
    type Target = Path;
    #[verifier::external_body]
    fn deref(&self) -> (r: &Path) ensures *r == self.p { unimplemented!() }
}
#[verifier::external_body] pub struct OsStr { _opaque: () }
impl Path {
    // file-system queries: nothing is known about their answers
    #[verifier::external_body]
    pub fn is_dir(&self) -> (r: bool) { unimplemented!() }
    #[verifier::external_body]
    pub fn is_file(&self) -> (r: bool) { unimplemented!() }
    #[verifier::external_body]
    pub fn exists(&self) -> (r: bool) { unimplemented!() }
    #[verifier::external_body]
    pub fn join(&self, name: &str) -> (r: PathBuf) { unimplemented!() }
    #[verifier::external_body]
    pub fn to_path_buf(&self) -> (r: PathBuf) ensures r.p == *self { unimplemented!() }
}
impl PathBuf {
    #[verifier::external_body]
    pub fn join(&self, name: &str) -> (r: PathBuf) { unimplemented!() }
    #[verifier::external_body]
    pub fn as_path(&self) -> (r: &Path) ensures *r == self.p { unimplemented!() }
}
impl Clone for PathBuf {
    #[verifier::external_body]
    fn clone(&self) -> (r: PathBuf) ensures r == *self { unimplemented!() }
}
impl OsStr {
    #[verifier::external_body]
    pub fn to_string_lossy(&self) -> (r: String) { unimplemented!() }
    pub uninterp spec fn utf8(&self) -> Option<Seq<char>>;
    #[verifier::external_body]
    pub fn to_str(&self) -> (r: Option<&str>)
        ensures match r { Some(s) => self.utf8() == Some(s@), None => self.utf8() is None },
    { unimplemented!() }
}
#[verifier::external_body] pub struct DirEntry { _opaque: () }
impl DirEntry {
    pub uninterp spec fn path_spec(&self) -> Path;
    pub uninterp spec fn name_spec(&self) -> Option<Seq<char>>;
    pub uninterp spec fn is_dir_spec(&self) -> bool;
    pub uninterp spec fn is_file_spec(&self) -> bool;
    #[verifier::external_body]
    pub fn path(&self) -> (r: &Path) ensures *r == self.path_spec() { unimplemented!() }
    #[verifier::external_body]
    pub fn file_name(&self) -> (r: &OsStr) ensures r.utf8() == self.name_spec() { unimplemented!() }
    #[verifier::external_body]
    pub fn is_dir(&self) -> (r: bool) ensures r == self.is_dir_spec(), !r ==> listing(self.path_spec()).len() == 0 { unimplemented!() }
    #[verifier::external_body]
    pub fn is_file(&self) -> (r: bool) ensures r == self.is_file_spec(), r ==> listing(self.path_spec()).len() == 0 { unimplemented!() }
    #[verifier::external_body]
    pub fn into_path(self) -> (r: PathBuf) ensures r.p == self.path_spec() { unimplemented!() }
    #[verifier::external_body]
    pub fn len(&self) -> (r: u64) { unimplemented!() }
}
// The entries of directory `dir` when this cleanup lists it (only directories have entries).
pub uninterp spec fn listing(dir: Path) -> Seq<DirEntry>;
#[verifier::external_body] pub struct ReadDir<'a> { _opaque: &'a () }
impl<'a> ReadDir<'a> {
    pub uninterp spec fn rem(&self) -> Seq<Result<DirEntry, Failed>>;
}
impl<'a> Iterator for ReadDir<'a> {
    type Item = Result<DirEntry, Failed>;
    #[verifier::external_body]
    fn next(&mut self) -> Option<Result<DirEntry, Failed>> { unimplemented!() }
}
impl<'a> IteratorSpecImpl for ReadDir<'a> {
    open spec fn obeys_prophetic_iter_laws(&self) -> bool { true }
    #[verifier::prophetic]
    open spec fn remaining(&self) -> Seq<Result<DirEntry, Failed>> { self.rem() }
    #[verifier::prophetic]
    open spec fn will_return_none(&self) -> bool { true }
    open spec fn decrease(&self) -> Option<nat> { Some(self.rem().len()) }
    open spec fn peek(&self, i: int) -> Option<Result<DirEntry, Failed>> { None }
}
pub open spec fn lists_seq(s: Seq<Result<DirEntry, Failed>>, dir: Path) -> bool {
    &&& s.len() == listing(dir).len()
    &&& forall|i: int| 0 <= i < s.len() ==> ((#[trigger] s[i]) matches Ok(e) ==> e == listing(dir)[i])
}
#[verifier::external_body]
pub fn fatal_read_dir<'a>(path: &'a Path) -> (r: Result<ReadDir<'a>, Failed>)
    ensures r matches Ok(d) ==> lists_seq(d.rem(), *path),
{ unimplemented!() }

// ---- deletion permissions ---------------------------------------------------------
// protected(p): p is, or contains, the local copy of an rsync module that a retained
// publication point or this run uses (a module of final_set()).
pub uninterp spec fn protected(p: Path) -> bool;
#[verifier::external_body]
pub fn fatal_remove_all(path: &Path) -> (r: Result<(), Failed>)
    requires !protected(*path),
{ unimplemented!() }
#[verifier::external_body]
pub fn fatal_remove_file(path: &Path) -> (r: Result<(), Failed>)
    requires !protected(*path),
{ unimplemented!() }
// The other removal primitives carry the same permission.
#[verifier::external_body]
pub fn fatal_remove_dir_all(path: &Path) -> (r: Result<(), Failed>)
    requires !protected(*path),
{ unimplemented!() }
#[verifier::external_body] pub struct IoError { _opaque: () }
#[verifier::external_body]
pub fn fs_remove_dir_all(path: &Path) -> (r: Result<(), IoError>)
    requires !protected(*path),
{ unimplemented!() }
#[verifier::external_body]
pub fn fs_remove_file(path: &Path) -> (r: Result<(), IoError>)
    requires !protected(*path),
{ unimplemented!() }
pub assume_specification<T: core::marker::Destruct> [std::mem::drop] (_0: T);
// ---- std functions without a vstd specification (ASSUMED: their std definitions).
// Declared so that a refactoring that starts using one of them is verified, not rejected.
pub assume_specification<T: Ord + core::marker::Destruct> [std::cmp::min] (a: T, b: T) -> (r: T)
    ensures <T as vstd::std_specs::cmp::OrdSpec>::obeys_cmp_spec() ==> r == (if vstd::std_specs::cmp::OrdSpec::cmp_spec(&b, &a) == std::cmp::Ordering::Less { b } else { a }),
;
pub assume_specification<T: Ord + core::marker::Destruct> [std::cmp::max] (a: T, b: T) -> (r: T)
    ensures <T as vstd::std_specs::cmp::OrdSpec>::obeys_cmp_spec() ==> r == (if vstd::std_specs::cmp::OrdSpec::cmp_spec(&b, &a) == std::cmp::Ordering::Less { a } else { b }),
;
pub assume_specification [std::cmp::Ordering::is_lt] (o: std::cmp::Ordering) -> (r: bool)
    ensures r == (o == std::cmp::Ordering::Less);
pub assume_specification [std::cmp::Ordering::is_gt] (o: std::cmp::Ordering) -> (r: bool)
    ensures r == (o == std::cmp::Ordering::Greater);
pub assume_specification [std::cmp::Ordering::is_le] (o: std::cmp::Ordering) -> (r: bool)
    ensures r == (o != std::cmp::Ordering::Greater);
pub assume_specification [std::cmp::Ordering::is_ge] (o: std::cmp::Ordering) -> (r: bool)
    ensures r == (o != std::cmp::Ordering::Less);
pub assume_specification<T: core::marker::Destruct> [bool::then_some] (b: bool, t: T) -> (r: Option<T>)
    ensures r == (if b { Some(t) } else { None::<T> });
pub assume_specification<T: core::marker::Destruct> [std::option::Option::<T>::xor] (a: Option<T>, b: Option<T>) -> (r: Option<T>)
    ensures r == (match (a, b) { (Some(x), None) => Some(x), (None, Some(y)) => Some(y), _ => None::<T> });
pub assume_specification<'a, T: Copy> [std::option::Option::<&T>::copied] (o: Option<&'a T>) -> (r: Option<T>)
    ensures r == (match o { Some(x) => Some(*x), None => None::<T> });
pub assume_specification<T: core::marker::Destruct> [std::option::Option::<T>::or] (a: Option<T>, b: Option<T>) -> (r: Option<T>)
    ensures r == (if a is Some { a } else { b });
pub assume_specification<T: core::marker::Destruct, U: core::marker::Destruct> [std::option::Option::<T>::and] (a: Option<T>, b: Option<U>) -> (r: Option<U>)
    ensures r == (if a is Some { b } else { None::<U> });
pub assume_specification<T: core::marker::Destruct, U: core::marker::Destruct> [std::option::Option::<T>::zip] (a: Option<T>, b: Option<U>) -> (r: Option<(T, U)>)
    ensures r == (match (a, b) { (Some(x), Some(y)) => Some((x, y)), _ => None::<(T, U)> });
pub assume_specification<T, F: FnOnce(T) -> bool + core::marker::Destruct> [std::option::Option::<T>::is_some_and] (o: Option<T>, f: F) -> (r: bool)
    requires o matches Some(x) ==> f.requires((x,)),
    ensures match o { Some(x) => f.ensures((x,), r), None => !r };
pub assume_specification<T, F: FnOnce(T) -> bool + core::marker::Destruct> [std::option::Option::<T>::is_none_or] (o: Option<T>, f: F) -> (r: bool)
    requires o matches Some(x) ==> f.requires((x,)),
    ensures match o { Some(x) => f.ensures((x,), r), None => r };
pub assume_specification<T: core::marker::Destruct, P: FnOnce(&T) -> bool + core::marker::Destruct> [std::option::Option::<T>::filter] (o: Option<T>, p: P) -> (r: Option<T>)
    requires o matches Some(x) ==> p.requires((&x,)),
    ensures match o { Some(x) => (r == Some(x) && p.ensures((&x,), true)) || (r is None && p.ensures((&x,), false)), None => r is None },
        // the predicate returned SOME boolean for the element, and the result follows it
        o is Some ==> exists|__b: bool| p.ensures((&o->Some_0,), __b) && r == (if __b { o } else { None::<T> });
pub assume_specification<T: core::marker::Destruct, F: FnOnce() -> Option<T> + core::marker::Destruct> [std::option::Option::<T>::or_else] (o: Option<T>, f: F) -> (r: Option<T>)
    requires o is None ==> f.requires(()),
    ensures match o { Some(x) => r == o, None => f.ensures((), r) };
pub assume_specification<T, U: core::marker::Destruct, F: FnOnce(T) -> U + core::marker::Destruct> [std::option::Option::<T>::map_or] (o: Option<T>, d: U, f: F) -> (r: U)
    requires o matches Some(x) ==> f.requires((x,)),
    ensures match o { Some(x) => f.ensures((x,), r), None => r == d };
pub assume_specification<T, U, D: FnOnce() -> U + core::marker::Destruct, F: FnOnce(T) -> U + core::marker::Destruct> [std::option::Option::<T>::map_or_else] (o: Option<T>, d: D, f: F) -> (r: U)
    requires o matches Some(x) ==> f.requires((x,)), o is None ==> d.requires(()),
    ensures match o { Some(x) => f.ensures((x,), r), None => d.ensures((), r) };
pub assume_specification<T: core::marker::Destruct, E: core::marker::Destruct> [std::result::Result::<T, E>::unwrap_or] (x: Result<T, E>, d: T) -> (r: T)
    ensures r == (match x { Ok(v) => v, Err(_) => d });
pub assume_specification<T, E: core::marker::Destruct, F: core::marker::Destruct> [std::result::Result::<T, E>::or] (a: Result<T, E>, b: Result<T, F>) -> (r: Result<T, F>)
    ensures match a { Ok(v) => r == Ok::<T, F>(v), Err(_) => r == b };
pub assume_specification<T, E, U, F: FnOnce(T) -> Result<U, E> + core::marker::Destruct> [std::result::Result::<T, E>::and_then] (x: Result<T, E>, f: F) -> (r: Result<U, E>)
    requires x matches Ok(v) ==> f.requires((v,)),
    ensures match x { Ok(v) => f.ensures((v,), r), Err(e) => r == Err::<U, E>(e) };
pub assume_specification<T, E: core::marker::Destruct, F: FnOnce(T) -> bool + core::marker::Destruct> [std::result::Result::<T, E>::is_ok_and] (x: Result<T, E>, f: F) -> (r: bool)
    requires x matches Ok(v) ==> f.requires((v,)),
    ensures match x { Ok(v) => f.ensures((v,), r), Err(_) => !r };
pub assume_specification<T, E, F: FnOnce(E) -> T + core::marker::Destruct> [std::result::Result::<T, E>::unwrap_or_else] (x: Result<T, E>, f: F) -> (r: T)
    requires x matches Err(e) ==> f.requires((e,)),
    ensures match x { Ok(v) => r == v, Err(e) => f.ensures((e,), r) };
pub assume_specification<T> [std::mem::replace] (dest: &mut T, src: T) -> (r: T)
    ensures r == *old(dest), *final(dest) == src;
pub assume_specification<T: Default + core::marker::Destruct, E: core::marker::Destruct> [std::result::Result::<T, E>::unwrap_or_default] (x: Result<T, E>) -> (r: T)
    ensures x matches Ok(v) ==> r == v;
pub assume_specification<T, E, U: core::marker::Destruct, F: FnOnce(T) -> U + core::marker::Destruct> [std::result::Result::<T, E>::map_or] (x: Result<T, E>, d: U, f: F) -> (r: U)
    requires x matches Ok(v) ==> f.requires((v,)),
    ensures match x { Ok(v) => f.ensures((v,), r), Err(_) => r == d };
pub assume_specification [<std::cmp::Ordering as PartialEq>::eq] (a: &std::cmp::Ordering, b: &std::cmp::Ordering) -> (r: bool)
    ensures r == (*a == *b);
// ASCII lower-casing of strings = `lower` (the canonical form of an authority). `to_lowercase`
// (Unicode) is not claimed to be the same function: nothing is said about its result.
pub assume_specification [str::to_ascii_lowercase] (s: &str) -> (r: String)
    ensures r@ == lower(s@);
pub assume_specification [str::to_lowercase] (s: &str) -> (r: String);
pub assume_specification [str::eq_ignore_ascii_case] (a: &str, b: &str) -> (r: bool)
    ensures r == (lower(a@) == lower(b@));
