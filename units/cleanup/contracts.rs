//@ fn Run::cleanup
//@ spec
    requires
        old(self).wf(),
        // C40: after a failed run no cleanup happens: cleanup may only be entered after process() succeeded
        old(self).processed_ok(),
    ensures
        // C40: with the 'dirty' option nothing is removed (no deleting operation is reachable: their
        // permissions `!engine_dirty()` are call-site obligations) and the call succeeds
        old(self).validation.dirty_repository ==> res is Ok,
        final(self).validation == old(self).validation,
//@ fn ValidationReport::process
//@ spec
    // C40 "after a failed run no cleanup happens" is the call-site obligation
    // `processed_ok()` of Run::cleanup below: cleanup is reachable only after
    // process() returned Ok on the same run. No postcondition of its own.
//@ fn RunFailed::fatal
//@ spec
    ensures res.fatal,
//@ fn RunFailed::retry
//@ spec
    ensures !res.fatal,
//@ fn RunFailed::is_fatal
//@ spec
    ensures res == self.fatal,
//@ fn RunFailed::should_retry
//@ spec
    ensures res == !self.fatal,
//@ fn Engine::disable_collector
//@ spec
    ensures final(self).collector is None, final(self).dirty_repository == old(self).dirty_repository,
//@ global
impl<'a, P> Run<'a, P> {
    // The store run and the collector run belong to the engine `validation`.
    spec fn wf(&self) -> bool {
        &&& self.store.engine_dirty() == self.validation.dirty_repository
        &&& (self.collector matches Some(c) ==> c.engine_dirty() == self.validation.dirty_repository)
    }
    // Ghost: `process()` has returned Ok on this run.
    uninterp spec fn processed_ok(&self) -> bool;
}
