// Environment of unit `cleanup` (C40, engine level).
// Everything here is ASSUMED.

// Opaque types that only occur as field types of the extracted structs.
#[verifier::external_body] pub struct Tal { _opaque: () }
#[verifier::external_body] pub struct PathBuf { _opaque: () }
#[verifier::external_body] pub struct Collector { _opaque: () }
#[verifier::external_body] pub struct Store { _opaque: () }
#[verifier::external_body] pub struct FilterPolicy { _opaque: () }
#[verifier::external_body] pub struct AtomicBool { _opaque: () }
#[verifier::external_body] pub struct Metrics { _opaque: () }
#[verifier::external_body] pub struct Config { _opaque: () }
#[verifier::external_body] pub struct ValidationReport { _opaque: () }

// The set of collector data to retain, filled by the store cleanup.
#[verifier::external_body] pub struct Cleanup { _opaque: () }
impl Cleanup {
    #[verifier::external_body]
    pub fn new() -> (r: Cleanup) { unimplemented!() }
}

// store::Run. `engine_dirty()`: the engine this store run belongs to was
// configured with dirty_repository. `cleanup` deletes stored data, which is
// only permitted when the engine is not dirty and the run succeeded.
#[verifier::external_body] pub struct StoreRun<'a> { _opaque: &'a () }
impl<'a> StoreRun<'a> {
    pub uninterp spec fn engine_dirty(&self) -> bool;

    #[verifier::external_body]
    pub fn cleanup(&self, collector: &mut Cleanup) -> (r: Result<(), Failed>)
        requires !self.engine_dirty(),
    { unimplemented!() }
}

// collector::Run, likewise.
#[verifier::external_body] pub struct CollectorRun<'a> { _opaque: &'a () }
impl<'a> CollectorRun<'a> {
    pub uninterp spec fn engine_dirty(&self) -> bool;

    #[verifier::external_body]
    pub fn cleanup(&self, retain: &mut Cleanup) -> (r: Result<(), Failed>)
        requires !self.engine_dirty(),
    { unimplemented!() }
}

pub trait ProcessRun: Sized { }
impl<'a> ProcessRun for &'a ValidationReport { }

impl vstd::std_specs::convert::FromSpecImpl<Failed> for RunFailed {
    open spec fn obeys_from_spec() -> bool { false }
    open spec fn from_spec(v: Failed) -> RunFailed { arbitrary() }
}
impl From<Failed> for RunFailed {
    #[verifier::external_body]
    fn from(value: Failed) -> RunFailed { unimplemented!() }
}

impl ValidationReport {
    #[verifier::external_body]
    pub fn new(config: &Config) -> (r: ValidationReport) { unimplemented!() }
}

impl Engine {
    #[verifier::external_body]
    fn start<P: ProcessRun>(&self, processor: P, initial: bool) -> (r: Result<Run<'_, P>, Failed>)
        ensures r matches Ok(run) ==> run.wf() && !run.processed_ok() && run.validation == self,
    { unimplemented!() }
}

impl<P: ProcessRun> Run<'_, P> {
    #[verifier::external_body]
    fn process(&mut self) -> (r: Result<(), RunFailed>)
        ensures
            r is Ok ==> final(self).processed_ok(),
            r is Err ==> final(self).processed_ok() == old(self).processed_ok(),
            final(self).wf() == old(self).wf(),
            final(self).validation == old(self).validation,
    { unimplemented!() }
}

impl<'a, P> Run<'a, P> {
    #[verifier::external_body]
    pub fn done(self) -> (r: Metrics) { unimplemented!() }
}
