// Environment of unit `cleanup` (C40, engine level).
// Everything here is ASSUMED.

// Opaque types that only occur as field types of the extracted structs.
#[verifier::external_body] pub struct Tal { _opaque: () }
#[verifier::external_body] pub struct PathBuf { _opaque: () }
#[verifier::external_body] pub struct Collector { _opaque: () }
#[verifier::external_body] pub struct Store { _opaque: () }
#[verifier::external_body] pub struct FilterPolicy { _opaque: () }
// std::sync::atomic::{AtomicBool, Ordering}
#[verifier::external_body] pub struct AtomicBool { _opaque: () }
pub enum Ordering { Relaxed, Release, Acquire, AcqRel, SeqCst }
impl AtomicBool {
    #[verifier::external_body]
    pub fn new(v: bool) -> (r: AtomicBool) { unimplemented!() }
    // another thread may have stored in between: nothing is known about the value
    #[verifier::external_body]
    pub fn load(&self, order: Ordering) -> (r: bool) { unimplemented!() }
    #[verifier::external_body]
    pub fn store(&self, v: bool, order: Ordering) { unimplemented!() }
}
#[verifier::external_body] pub struct Metrics { _opaque: () }
impl Default for Metrics {
    #[verifier::external_body]
    fn default() -> Metrics { unimplemented!() }
}
impl Metrics {
    #[verifier::external_body]
    pub fn new() -> (r: Metrics) { unimplemented!() }
}
#[verifier::external_body] pub struct TalUri { _opaque: () }
#[verifier::external_body] pub struct Bytes { _opaque: () }
#[verifier::external_body] pub struct CaCert { _opaque: () }
#[verifier::external_body] pub struct Path { _opaque: () }
#[verifier::external_body] pub struct StoredStatus { _opaque: () }
#[verifier::external_body] pub struct StoreRepository { _opaque: () }
#[verifier::external_body] pub struct StoredPoint { _opaque: () }
#[verifier::external_body] pub struct CollectorRepository<'a> { _opaque: &'a () }
#[verifier::external_body] pub struct Config { _opaque: () }
#[verifier::external_body] pub struct ValidationReport { _opaque: () }

// The set of collector data to retain, filled by the store cleanup.
#[verifier::external_body] pub struct Cleanup { _opaque: () }
impl Cleanup {
    // ghost: the store run `st` has completed its cleanup into this retain set
    pub uninterp spec fn has_kept_points_of(&self, st: &StoreRun<'_>) -> bool;
    #[verifier::external_body]
    pub fn new() -> (r: Cleanup) { unimplemented!() }
}
impl Default for Cleanup {
    #[verifier::external_body]
    fn default() -> Cleanup { unimplemented!() }
}

// store::Run. `engine_dirty()`: the engine this store run belongs to was
// configured with dirty_repository. `cleanup` deletes stored data, which is
// only permitted when the engine is not dirty and the run succeeded.
#[verifier::external_body] pub struct StoreRun<'a> { _opaque: &'a () }
impl<'a> StoreRun<'a> {
    pub uninterp spec fn engine_dirty(&self) -> bool;

    #[verifier::external_body]
    pub fn cleanup(&self, collector: &mut Cleanup) -> (r: Result<(), Failed>)
        requires !self.engine_dirty(),
        // C40: on success the retain set holds the repository / module of every stored publication point
        // that was kept (proved for store::Run::cleanup in unit cleanup_store)
        ensures r is Ok ==> final(collector).has_kept_points_of(self),
    { unimplemented!() }
    // The other operations of store::Run (none of them removes stored data).
    #[verifier::external_body]
    pub fn done(self, metrics: &mut Metrics) { unimplemented!() }
    #[verifier::external_body]
    pub fn load_ta(&self, uri: &TalUri) -> (r: Result<Option<Bytes>, Failed>) { unimplemented!() }
    #[verifier::external_body]
    pub fn update_ta(&self, uri: &TalUri, content: &[u8]) -> (r: Result<(), Failed>) { unimplemented!() }
    #[verifier::external_body]
    pub fn repository(&self, ca_cert: &CaCert) -> (r: StoreRepository) { unimplemented!() }
    #[verifier::external_body]
    pub fn pub_point(&self, ca_cert: &CaCert) -> (r: Result<StoredPoint, Failed>) { unimplemented!() }
}
// store::Store
impl Store {
    #[verifier::external_body]
    pub fn start(&self) -> (r: StoreRun<'_>) { unimplemented!() }
    #[verifier::external_body]
    pub fn status(&self) -> (r: Result<Option<StoredStatus>, Failed>) { unimplemented!() }
    #[verifier::external_body]
    pub fn sanitize(&self) -> (r: Result<(), Fatal>) { unimplemented!() }
    #[verifier::external_body]
    pub fn dump(&self, dir: &Path) -> (r: Result<(), Failed>) { unimplemented!() }
}

// collector::Run, likewise.
#[verifier::external_body] pub struct CollectorRun<'a> { _opaque: &'a () }
impl<'a> CollectorRun<'a> {
    pub uninterp spec fn engine_dirty(&self) -> bool;

    #[verifier::external_body]
    pub fn cleanup(&self, retain: &mut Cleanup) -> (r: Result<(), Failed>)
        requires !self.engine_dirty(),
        // C40: the collector deletes what is not in `retain` (units cleanup_rrdp / cleanup_rsync), so it may
        // only run once the store of THIS run has added the repositories of the stored points it keeps
        exists|st: &StoreRun<'a>| old(retain).has_kept_points_of(st),
    { unimplemented!() }
    // The other operations of collector::Run (none of them removes collector data).
    #[verifier::external_body]
    pub fn done(self, metrics: &mut Metrics) { unimplemented!() }
    #[verifier::external_body]
    pub fn load_ta(&self, uri: &TalUri) -> (r: Option<Bytes>) { unimplemented!() }
    #[verifier::external_body]
    pub fn repository<'s>(&'s self, ca: &'s CaCert) -> (r: Result<Option<CollectorRepository<'s>>, RunFailed>) { unimplemented!() }
    #[verifier::external_body]
    pub fn was_updated(&self, ca: &CaCert) -> (r: bool) { unimplemented!() }
}
// collector::Collector
impl Collector {
    #[verifier::external_body]
    pub fn start(&self) -> (r: CollectorRun<'_>) { unimplemented!() }
    #[verifier::external_body]
    pub fn ignite(&mut self) -> (r: Result<(), Failed>) { unimplemented!() }
    #[verifier::external_body]
    pub fn sanitize(&self) -> (r: Result<(), Fatal>) { unimplemented!() }
    #[verifier::external_body]
    pub fn dump(&self, dir: &Path) -> (r: Result<(), Failed>) { unimplemented!() }
}

pub trait ProcessRun: Sized { }
impl<'a> ProcessRun for &'a ValidationReport { }

impl vstd::std_specs::convert::FromSpecImpl<Failed> for RunFailed {
    open spec fn obeys_from_spec() -> bool { false }
    open spec fn from_spec(v: Failed) -> RunFailed { arbitrary() }
}
impl From<Failed> for RunFailed {
    #[verifier::external_body]
    fn from(value: Failed) -> RunFailed { unimplemented!() }
}

impl vstd::std_specs::convert::FromSpecImpl<Fatal> for RunFailed {
    open spec fn obeys_from_spec() -> bool { false }
    open spec fn from_spec(v: Fatal) -> RunFailed { arbitrary() }
}
impl From<Fatal> for RunFailed {
    #[verifier::external_body]
    fn from(value: Fatal) -> RunFailed { unimplemented!() }
}
impl vstd::std_specs::convert::FromSpecImpl<Fatal> for Failed {
    open spec fn obeys_from_spec() -> bool { true }
    open spec fn from_spec(v: Fatal) -> Failed { Failed }
}
impl From<Fatal> for Failed {
    #[verifier::external_body]
    fn from(value: Fatal) -> Failed { unimplemented!() }
}
impl vstd::std_specs::convert::FromSpecImpl<Failed> for Fatal {
    open spec fn obeys_from_spec() -> bool { true }
    open spec fn from_spec(v: Failed) -> Fatal { Fatal }
}
impl From<Failed> for Fatal {
    #[verifier::external_body]
    fn from(value: Failed) -> Fatal { unimplemented!() }
}

impl ValidationReport {
    #[verifier::external_body]
    pub fn new(config: &Config) -> (r: ValidationReport) { unimplemented!() }
}

impl Engine {
    #[verifier::external_body]
    fn start<P: ProcessRun>(&self, processor: P, initial: bool) -> (r: Result<Run<'_, P>, Failed>)
        ensures r matches Ok(run) ==> run.wf() && !run.processed_ok() && run.validation == self,
    { unimplemented!() }
}

impl<P: ProcessRun> Run<'_, P> {
    #[verifier::external_body]
    fn process(&mut self) -> (r: Result<(), RunFailed>)
        ensures
            r is Ok ==> final(self).processed_ok(),
            r is Err ==> final(self).processed_ok() == old(self).processed_ok(),
            final(self).wf() == old(self).wf(),
            final(self).validation == old(self).validation,
    { unimplemented!() }
}

impl<'a, P> Run<'a, P> {
    #[verifier::external_body]
    pub fn done(self) -> (r: Metrics) { unimplemented!() }
    #[verifier::external_body]
    fn run_failed(&self, err: RunFailed) { unimplemented!() }
}

// ---- std functions without a vstd specification (ASSUMED: their std definitions).
// Declared so that a refactoring that starts using one of them is verified, not rejected.
pub assume_specification<T: Ord + core::marker::Destruct> [std::cmp::min] (a: T, b: T) -> (r: T)
    ensures <T as vstd::std_specs::cmp::OrdSpec>::obeys_cmp_spec() ==> r == (if vstd::std_specs::cmp::OrdSpec::cmp_spec(&b, &a) == std::cmp::Ordering::Less { b } else { a }),
;
pub assume_specification<T: Ord + core::marker::Destruct> [std::cmp::max] (a: T, b: T) -> (r: T)
    ensures <T as vstd::std_specs::cmp::OrdSpec>::obeys_cmp_spec() ==> r == (if vstd::std_specs::cmp::OrdSpec::cmp_spec(&b, &a) == std::cmp::Ordering::Less { a } else { b }),
;
pub assume_specification [std::cmp::Ordering::is_lt] (o: std::cmp::Ordering) -> (r: bool)
    ensures r == (o == std::cmp::Ordering::Less);
pub assume_specification [std::cmp::Ordering::is_gt] (o: std::cmp::Ordering) -> (r: bool)
    ensures r == (o == std::cmp::Ordering::Greater);
pub assume_specification [std::cmp::Ordering::is_le] (o: std::cmp::Ordering) -> (r: bool)
    ensures r == (o != std::cmp::Ordering::Greater);
pub assume_specification [std::cmp::Ordering::is_ge] (o: std::cmp::Ordering) -> (r: bool)
    ensures r == (o != std::cmp::Ordering::Less);
pub assume_specification<T: core::marker::Destruct> [bool::then_some] (b: bool, t: T) -> (r: Option<T>)
    ensures r == (if b { Some(t) } else { None::<T> });
pub assume_specification<T: core::marker::Destruct> [std::option::Option::<T>::xor] (a: Option<T>, b: Option<T>) -> (r: Option<T>)
    ensures r == (match (a, b) { (Some(x), None) => Some(x), (None, Some(y)) => Some(y), _ => None::<T> });
pub assume_specification<'a, T: Copy> [std::option::Option::<&T>::copied] (o: Option<&'a T>) -> (r: Option<T>)
    ensures r == (match o { Some(x) => Some(*x), None => None::<T> });
pub assume_specification<T: core::marker::Destruct> [std::option::Option::<T>::or] (a: Option<T>, b: Option<T>) -> (r: Option<T>)
    ensures r == (if a is Some { a } else { b });
pub assume_specification<T: core::marker::Destruct, U: core::marker::Destruct> [std::option::Option::<T>::and] (a: Option<T>, b: Option<U>) -> (r: Option<U>)
    ensures r == (if a is Some { b } else { None::<U> });
pub assume_specification<T: core::marker::Destruct, U: core::marker::Destruct> [std::option::Option::<T>::zip] (a: Option<T>, b: Option<U>) -> (r: Option<(T, U)>)
    ensures r == (match (a, b) { (Some(x), Some(y)) => Some((x, y)), _ => None::<(T, U)> });
pub assume_specification<T, F: FnOnce(T) -> bool + core::marker::Destruct> [std::option::Option::<T>::is_some_and] (o: Option<T>, f: F) -> (r: bool)
    requires o matches Some(x) ==> f.requires((x,)),
    ensures match o { Some(x) => f.ensures((x,), r), None => !r };
pub assume_specification<T, F: FnOnce(T) -> bool + core::marker::Destruct> [std::option::Option::<T>::is_none_or] (o: Option<T>, f: F) -> (r: bool)
    requires o matches Some(x) ==> f.requires((x,)),
    ensures match o { Some(x) => f.ensures((x,), r), None => r };
pub assume_specification<T: core::marker::Destruct, P: FnOnce(&T) -> bool + core::marker::Destruct> [std::option::Option::<T>::filter] (o: Option<T>, p: P) -> (r: Option<T>)
    requires o matches Some(x) ==> p.requires((&x,)),
    ensures match o { Some(x) => (r == Some(x) && p.ensures((&x,), true)) || (r is None && p.ensures((&x,), false)), None => r is None },
        // the predicate returned SOME boolean for the element, and the result follows it
        o is Some ==> exists|__b: bool| p.ensures((&o->Some_0,), __b) && r == (if __b { o } else { None::<T> });
pub assume_specification<T: core::marker::Destruct, F: FnOnce() -> Option<T> + core::marker::Destruct> [std::option::Option::<T>::or_else] (o: Option<T>, f: F) -> (r: Option<T>)
    requires o is None ==> f.requires(()),
    ensures match o { Some(x) => r == o, None => f.ensures((), r) };
pub assume_specification<T, U: core::marker::Destruct, F: FnOnce(T) -> U + core::marker::Destruct> [std::option::Option::<T>::map_or] (o: Option<T>, d: U, f: F) -> (r: U)
    requires o matches Some(x) ==> f.requires((x,)),
    ensures match o { Some(x) => f.ensures((x,), r), None => r == d };
pub assume_specification<T, U, D: FnOnce() -> U + core::marker::Destruct, F: FnOnce(T) -> U + core::marker::Destruct> [std::option::Option::<T>::map_or_else] (o: Option<T>, d: D, f: F) -> (r: U)
    requires o matches Some(x) ==> f.requires((x,)), o is None ==> d.requires(()),
    ensures match o { Some(x) => f.ensures((x,), r), None => d.ensures((), r) };
pub assume_specification<T: core::marker::Destruct, E: core::marker::Destruct> [std::result::Result::<T, E>::unwrap_or] (x: Result<T, E>, d: T) -> (r: T)
    ensures r == (match x { Ok(v) => v, Err(_) => d });
pub assume_specification<T, E: core::marker::Destruct, F: core::marker::Destruct> [std::result::Result::<T, E>::or] (a: Result<T, E>, b: Result<T, F>) -> (r: Result<T, F>)
    ensures match a { Ok(v) => r == Ok::<T, F>(v), Err(_) => r == b };
pub assume_specification<T, E, U, F: FnOnce(T) -> Result<U, E> + core::marker::Destruct> [std::result::Result::<T, E>::and_then] (x: Result<T, E>, f: F) -> (r: Result<U, E>)
    requires x matches Ok(v) ==> f.requires((v,)),
    ensures match x { Ok(v) => f.ensures((v,), r), Err(e) => r == Err::<U, E>(e) };
pub assume_specification<T, E: core::marker::Destruct, F: FnOnce(T) -> bool + core::marker::Destruct> [std::result::Result::<T, E>::is_ok_and] (x: Result<T, E>, f: F) -> (r: bool)
    requires x matches Ok(v) ==> f.requires((v,)),
    ensures match x { Ok(v) => f.ensures((v,), r), Err(_) => !r };
pub assume_specification<T, E, F: FnOnce(E) -> T + core::marker::Destruct> [std::result::Result::<T, E>::unwrap_or_else] (x: Result<T, E>, f: F) -> (r: T)
    requires x matches Err(e) ==> f.requires((e,)),
    ensures match x { Ok(v) => r == v, Err(e) => f.ensures((e,), r) };
pub assume_specification<T> [std::mem::replace] (dest: &mut T, src: T) -> (r: T)
    ensures r == *old(dest), *final(dest) == src;
pub assume_specification<T: Default + core::marker::Destruct, E: core::marker::Destruct> [std::result::Result::<T, E>::unwrap_or_default] (x: Result<T, E>) -> (r: T)
    ensures x matches Ok(v) ==> r == v;
pub assume_specification<T, E, U: core::marker::Destruct, F: FnOnce(T) -> U + core::marker::Destruct> [std::result::Result::<T, E>::map_or] (x: Result<T, E>, d: U, f: F) -> (r: U)
    requires x matches Ok(v) ==> f.requires((v,)),
    ensures match x { Ok(v) => f.ensures((v,), r), Err(_) => r == d };
pub assume_specification [<std::cmp::Ordering as PartialEq>::eq] (a: &std::cmp::Ordering, b: &std::cmp::Ordering) -> (r: bool)
    ensures r == (*a == *b);
