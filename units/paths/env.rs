// Environment of unit `paths` (C30, Verus part): abstract paths (a path is a sequence of
// components, a component is a string) and ASSUMED contracts.

#[verifier::external_body] pub struct HttpClient { _opaque: () }
#[verifier::external_body] pub struct IoError { _opaque: () }
#[verifier::external_body] pub struct DigestAlgorithm { _opaque: () }
#[verifier::external_body] pub struct Digest { _opaque: () }
#[derive(Clone, Copy)]
#[verifier::external_body] pub struct FallbackTime { _opaque: () }

pub open spec fn no_slash(c: Seq<char>) -> bool { forall|i: int| 0 <= i < c.len() ==> c[i] != '/' }
// A component that may be appended to a directory without leaving it: not empty, no '/',
// neither "." nor "..".
pub open spec fn safe_component(c: Seq<char>) -> bool {
    &&& c.len() > 0
    &&& no_slash(c)
    &&& c != seq!['.'] && c != seq!['.', '.']
}
pub open spec fn relative(s: Seq<char>) -> bool { s.len() == 0 || s[0] != '/' }
// A relative path string: its '/'-separated segments (ASSUMED total, uninterpreted), all safe
// except that the last may be empty (trailing slash).
pub uninterp spec fn segments(s: Seq<char>) -> Seq<Seq<char>>;
pub open spec fn safe_relative(s: Seq<char>) -> bool {
    forall|i: int| 0 <= i < segments(s).len() ==>
        (safe_component(#[trigger] segments(s)[i]) || (i == segments(s).len() - 1 && segments(s)[i].len() == 0))
}

// std::path::PathBuf, abstractly: the sequence of pushed strings.
#[verifier::external_body] pub struct PathBuf { _opaque: () }
impl PathBuf {
    pub uninterp spec fn comps(&self) -> Seq<Seq<char>>;
    // PathBuf::push with a RELATIVE argument appends; an absolute one would REPLACE the path,
    // which the precondition excludes (C30: nothing taken from a URI may reset the path).
    #[verifier::external_body]
    pub fn push(&mut self, c: &str)
        requires relative(c@),
        ensures final(self).comps() == old(self).comps().push(c@),
    { unimplemented!() }
}
impl Clone for PathBuf {
    #[verifier::external_body]
    fn clone(&self) -> (r: Self) ensures r.comps() == self.comps() { unimplemented!() }
}
#[verifier::external_body]
pub fn fs_create_dir_all(p: &PathBuf) -> Result<(), IoError> { unimplemented!() }

// rpki::uri::Rsync. ASSUMED from rpki's parser (Rsync::from_bytes -> check_uri_ascii, check_path):
// authority and module are non-empty, contain no '/', and are neither "." nor ".."; the path has
// no empty, "." or ".." segment except a possibly empty last one. canonical_authority is the
// lower-cased authority.
#[verifier::external_body] pub struct RsyncUri { _opaque: () }
// std::borrow::Cow (opaque stand-in; only Cow<'_, str> is used)
#[verifier::external_body] #[verifier::reject_recursive_types(B)] pub struct Cow<'a, B: ?Sized> { _p: &'a B }
impl<'a> Cow<'a, str> {
    // the string's UTF-8 bytes (Cow<str> derefs to str; `as_bytes` is str's)
    pub uninterp spec fn bytes(&self) -> Seq<u8>;
    #[verifier::external_body]
    pub fn as_bytes(&self) -> (r: &[u8]) ensures r@ == self.bytes() { unimplemented!() }
    pub uninterp spec fn view(&self) -> Seq<char>;
    #[verifier::external_body]
    pub fn as_ref(&self) -> (r: &str) ensures r@ == self.view() { unimplemented!() }
}
impl RsyncUri {
    pub uninterp spec fn canonical_authority_spec(&self) -> Seq<char>;
    pub uninterp spec fn module_spec(&self) -> Seq<char>;
    pub uninterp spec fn path_spec(&self) -> Seq<char>;
    #[verifier::external_body]
    pub fn canonical_authority(&self) -> (r: Cow<'_, str>)
        ensures r.view() == self.canonical_authority_spec(), safe_component(r.view()), r.bytes() == self.canonical_authority_bytes(),
    { unimplemented!() }
    #[verifier::external_body]
    pub fn module_name(&self) -> (r: &str)
        ensures r@ == self.module_spec(), safe_component(r@), r.spec_bytes() == self.module_spec_bytes(),
    { unimplemented!() }
    #[verifier::external_body]
    pub fn path(&self) -> (r: &str)
        ensures r@ == self.path_spec(), safe_relative(r@), relative(r@), r.spec_bytes() == self.path_spec_bytes(),
    { unimplemented!() }
}

// rpki::uri::Https. Its parser does NOT apply check_path: the authority is everything up to the
// first '/', so it contains no '/', but it may be empty, "." or "..". Nothing more is assumed.
#[verifier::external_body] pub struct Https { _opaque: () }
impl Https {
    pub uninterp spec fn canonical_authority_spec(&self) -> Seq<char>;
    pub uninterp spec fn bytes_spec(&self) -> Seq<u8>;
    #[verifier::external_body]
    pub fn canonical_authority(&self) -> (r: Cow<'_, str>)
        ensures r.view() == self.canonical_authority_spec(), no_slash(r.view()), r.bytes() == self.canonical_authority_bytes(),
    { unimplemented!() }
    #[verifier::external_body]
    pub fn as_slice(&self) -> (r: &[u8]) ensures r@ == self.bytes_spec() { unimplemented!() }
}

// SHA-256 and hex rendering. append_hex is the Kani part of C30 (64 chars in [0-9a-f], injective).
pub uninterp spec fn sha256_hex(data: Seq<u8>) -> Seq<char>;
pub broadcast axiom fn axiom_hex_is_component(data: Seq<u8>)
    ensures (#[trigger] sha256_hex(data)).len() == 64
        && forall|i: int| 0 <= i < 64 ==> sha256_hex(data)[i] != '/' && sha256_hex(data)[i] != '.';
impl DigestAlgorithm {
    #[verifier::external_body] pub fn sha256() -> DigestAlgorithm { unimplemented!() }
    #[verifier::external_body] pub fn digest_len(&self) -> (r: usize) ensures r == 32 { unimplemented!() }
    #[verifier::external_body]
    pub fn digest(&self, data: &[u8]) -> (r: Digest) ensures r.hex_spec() == sha256_hex(data@) { unimplemented!() }
}
impl Digest {
    pub uninterp spec fn hex_spec(&self) -> Seq<char>;
    pub uninterp spec fn bytes_spec(&self) -> Seq<u8>;
    #[verifier::external_body]
    pub fn as_ref(&self) -> (r: &[u8]) ensures r@ == self.bytes_spec() { unimplemented!() }
}
pub uninterp spec fn hex_of(bytes: Seq<u8>) -> Seq<char>;
pub broadcast axiom fn axiom_digest_hex(d: Digest)
    ensures #[trigger] hex_of(d.bytes_spec()) == d.hex_spec();
#[verifier::external_body]
pub fn append_hex(src: &[u8], target: &mut String)
    ensures final(target)@ == old(target)@ + hex_of(src@),
{ unimplemented!() }

// std String pieces without a vstd specification (ASSUMED)
pub assume_specification [std::string::String::with_capacity] (_0: usize) -> (r: std::string::String)
    ensures r@ == Seq::<char>::empty();

// ---- std functions without a vstd specification (ASSUMED; their std definitions). Declared so
// that a change of the code to one of these combinators is verified instead of rejected.
pub assume_specification<T: Ord + core::marker::Destruct> [std::cmp::max] (a: T, b: T) -> (r: T)
    ensures <T as vstd::std_specs::cmp::OrdSpec>::obeys_cmp_spec() ==> r == (if vstd::std_specs::cmp::OrdSpec::cmp_spec(&a, &b) == std::cmp::Ordering::Greater { a } else { b });
pub assume_specification<T: Ord + core::marker::Destruct> [std::cmp::min] (a: T, b: T) -> (r: T)
    ensures <T as vstd::std_specs::cmp::OrdSpec>::obeys_cmp_spec() ==> r == (if vstd::std_specs::cmp::OrdSpec::cmp_spec(&a, &b) == std::cmp::Ordering::Greater { b } else { a });
pub assume_specification<T> [bool::then_some] (b: bool, t: T) -> (r: Option<T>)
    ensures r == (if b { Some(t) } else { None::<T> });
pub assume_specification<T, U> [Option::<T>::and] (a: Option<T>, b: Option<U>) -> (r: Option<U>)
    ensures r == (if a is Some { b } else { None::<U> });
pub assume_specification<T> [Option::<T>::or] (a: Option<T>, b: Option<T>) -> (r: Option<T>)
    ensures r == (if a is Some { a } else { b });
pub assume_specification<T> [Option::<T>::xor] (a: Option<T>, b: Option<T>) -> (r: Option<T>)
    ensures r == (if a is Some && b is None { a } else if a is None && b is Some { b } else { None::<T> });
pub assume_specification<T, U> [Option::<T>::zip] (a: Option<T>, b: Option<U>) -> (r: Option<(T, U)>)
    ensures r == (if a is Some && b is Some { Some((a->Some_0, b->Some_0)) } else { None::<(T, U)> });
pub assume_specification<T> [Option::<T>::replace] (a: &mut Option<T>, v: T) -> (r: Option<T>)
    ensures r == *old(a), *final(a) == Some(v);
pub assume_specification<T, F: FnOnce(T) -> bool> [Option::<T>::is_some_and] (a: Option<T>, f: F) -> (r: bool)
    requires a is Some ==> f.requires((a->Some_0,)),
    ensures a is None ==> !r, a is Some ==> f.ensures((a->Some_0,), r);
pub assume_specification<T, U, F: FnOnce(T) -> U> [Option::<T>::map_or] (a: Option<T>, default: U, f: F) -> (r: U)
    requires a is Some ==> f.requires((a->Some_0,)),
    ensures a is None ==> r == default, a is Some ==> f.ensures((a->Some_0,), r);
pub assume_specification<T, P: FnOnce(&T) -> bool> [Option::<T>::filter] (a: Option<T>, p: P) -> (r: Option<T>)
    requires a is Some ==> p.requires((&a->Some_0,)),
    ensures a is None ==> r is None, r is Some ==> r == a,
            a is Some ==> (p.ensures((&a->Some_0,), true) ==> r == a) && (p.ensures((&a->Some_0,), false) ==> r is None),
        // the predicate returned SOME boolean for the element, and the result follows it
        a is Some ==> exists|__b: bool| p.ensures((&a->Some_0,), __b) && r == (if __b { a } else { None::<T> });
pub assume_specification<T, E, U, F: FnOnce(T) -> Result<U, E>> [Result::<T, E>::and_then] (a: Result<T, E>, f: F) -> (r: Result<U, E>)
    requires a is Ok ==> f.requires((a->Ok_0,)),
    ensures a is Err ==> r == Err::<U, E>(a->Err_0), a is Ok ==> f.ensures((a->Ok_0,), r);
pub assume_specification<T, E, U> [Result::<T, E>::and] (a: Result<T, E>, b: Result<U, E>) -> (r: Result<U, E>)
    ensures r == (if a is Ok { b } else { Err::<U, E>(a->Err_0) });
pub assume_specification<T, E, F> [Result::<T, E>::or] (a: Result<T, E>, b: Result<T, F>) -> (r: Result<T, F>)
    ensures r == (if a is Ok { Ok::<T, F>(a->Ok_0) } else { b });
pub assume_specification<T, E, F: FnOnce(T) -> bool> [Result::<T, E>::is_ok_and] (a: Result<T, E>, f: F) -> (r: bool)
    requires a is Ok ==> f.requires((a->Ok_0,)),
    ensures a is Err ==> !r, a is Ok ==> f.ensures((a->Ok_0,), r);
pub assume_specification<T, E> [Result::<T, E>::unwrap_or] (a: Result<T, E>, default: T) -> (r: T)
    ensures r == (if a is Ok { a->Ok_0 } else { default });
pub assume_specification<T, E, F: FnOnce(E) -> T> [Result::<T, E>::unwrap_or_else] (a: Result<T, E>, f: F) -> (r: T)
    requires a is Err ==> f.requires((a->Err_0,)),
    ensures a is Ok ==> r == a->Ok_0, a is Err ==> f.ensures((a->Err_0,), r);

// ---- further URI accessors used in collector/rsync.rs and collector/rrdp/base.rs
impl RsyncUri {
    pub uninterp spec fn authority_spec(&self) -> Seq<char>;
    // the authority as written (not lower-cased); same grammar as the canonical one
    #[verifier::external_body]
    pub fn authority(&self) -> (r: &str) ensures r@ == self.authority_spec(), safe_component(r@) { unimplemented!() }
    #[verifier::external_body] pub fn as_str(&self) -> (r: &str) { unimplemented!() }
}
impl Https {
    pub uninterp spec fn authority_spec(&self) -> Seq<char>;
    #[verifier::external_body]
    pub fn authority(&self) -> (r: &str) ensures r@ == self.authority_spec(), no_slash(r@) { unimplemented!() }
    // the URI as a string: exactly its bytes
    #[verifier::external_body] pub fn as_str(&self) -> (r: &str) ensures r.spec_bytes() == self.bytes_spec() { unimplemented!() }
    #[verifier::external_body] pub fn path(&self) -> (r: &str) ensures r@ == self.path_spec(), r.spec_bytes() == self.path_spec_bytes() { unimplemented!() }
}
impl PathBuf {
    // PathBuf::join: as push on a copy
    #[verifier::external_body]
    pub fn join(&self, c: &str) -> (r: PathBuf)
        requires relative(c@),
        ensures r.comps() == self.comps().push(c@),
    { unimplemented!() }
}

// ---- strings as bytes: vstd's `str::as_bytes` returns `spec_bytes()` (the UTF-8 encoding).
// Case mapping: NOTHING is assumed about the content of the result except its length, so a digest
// (or a path component) computed from a case-folded string cannot be shown to be the one the
// contracts name.
pub assume_specification [str::to_ascii_lowercase] (s: &str) -> (r: std::string::String)
    ensures r@.len() == s@.len();
pub assume_specification [str::to_ascii_uppercase] (s: &str) -> (r: std::string::String)
    ensures r@.len() == s@.len();
pub assume_specification [str::to_lowercase] (s: &str) -> (r: std::string::String);
pub assume_specification [str::to_uppercase] (s: &str) -> (r: std::string::String);
// String::as_bytes: the UTF-8 encoding of the content; only its length relation is ASSUMED known
// here (vstd gives `str::as_bytes` but not the String method).
pub uninterp spec fn string_bytes(s: Seq<char>) -> Seq<u8>;
pub assume_specification [std::string::String::as_bytes] (s: &std::string::String) -> (r: &[u8])
    ensures r@ == string_bytes(s@);

// ---- rpki::crypto digest context: `pieces` is the sequence of byte strings fed to `update`, in order
// (the digest is taken over their concatenation)
#[verifier::external_body] pub struct DigestContext { _opaque: () }
impl DigestAlgorithm {
    #[verifier::external_body]
    pub fn start(&self) -> (r: DigestContext) ensures r.pieces() == Seq::<Seq<u8>>::empty() { unimplemented!() }
}
impl DigestContext {
    pub uninterp spec fn pieces(&self) -> Seq<Seq<u8>>;
    #[verifier::external_body]
    pub fn update(&mut self, data: &[u8]) ensures final(self).pieces() == old(self).pieces().push(data@) { unimplemented!() }
    #[verifier::external_body]
    pub fn finish(self) -> (r: Digest) ensures r.pieces_spec() == self.pieces() { unimplemented!() }
}
impl Digest {
    // the byte strings this digest was computed over
    pub uninterp spec fn pieces_spec(&self) -> Seq<Seq<u8>>;
}
impl RsyncUri {
    pub uninterp spec fn canonical_authority_bytes(&self) -> Seq<u8>;
    pub uninterp spec fn module_spec_bytes(&self) -> Seq<u8>;
    pub uninterp spec fn path_spec_bytes(&self) -> Seq<u8>;
}
impl Https {
    pub uninterp spec fn canonical_authority_bytes(&self) -> Seq<u8>;
    pub uninterp spec fn path_spec(&self) -> Seq<char>;
    pub uninterp spec fn path_spec_bytes(&self) -> Seq<u8>;
}
