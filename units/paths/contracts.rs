//@ fn WorkingDir::uri_path
//@ spec
    ensures
        // C30: the local copy of an rsync URI lives at base / canonical-authority / module / path ...
        res.comps() == self.base.comps()
            .push(uri.canonical_authority_spec()).push(uri.module_spec()).push(uri.path_spec()),
        // ... none of the pieces can reset the path (precondition of PathBuf::push at the three call
        // sites) and each is free of empty, "." and ".." segments: the file lies below the base directory
        safe_component(uri.canonical_authority_spec()), safe_component(uri.module_spec()),
        safe_relative(uri.path_spec()),
//@ fn Collector::repository_path
//@ spec
    ensures
        // C30: the archive of an RRDP repository lives at working_dir / canonical-authority / <hex sha256 of the URI>.bin
        res matches Ok(p) ==> p.comps() == self.working_dir.comps()
            .push(uri_authority(rpki_notify)).push(sha256_hex(rpki_notify.bytes_spec()) + seq!['.', 'b', 'i', 'n']),
        // the authority is a single segment (it cannot reset the path or descend); the file name is a safe component
        no_slash(uri_authority(rpki_notify)),
        safe_component(sha256_hex(rpki_notify.bytes_spec()) + seq!['.', 'b', 'i', 'n']),
//@ entry
        broadcast use axiom_hex_is_component;
        broadcast use axiom_digest_hex;
        proof { reveal_strlit(".bin"); lemma_archive_name_safe(rpki_notify.bytes_spec()); }
//@ exit
        proof {
            reveal_strlit(".bin");
            assert(".bin"@ =~= seq!['.', 'b', 'i', 'n']);
            assert(dir@ =~= sha256_hex(rpki_notify.bytes_spec()) + seq!['.', 'b', 'i', 'n']);
        }
//@ global
proof fn lemma_archive_name_safe(data: Seq<u8>)
    ensures safe_component(sha256_hex(data) + seq!['.', 'b', 'i', 'n']),
            relative(sha256_hex(data) + seq!['.', 'b', 'i', 'n']),
{
    broadcast use axiom_hex_is_component;
    let h = sha256_hex(data);
    let n = h + seq!['.', 'b', 'i', 'n'];
    assert(n.len() == 68);
    assert forall|i: int| 0 <= i < n.len() implies n[i] != '/' by {
        if i < 64 { assert(n[i] == h[i]); } else { assert(n[i] == seq!['.', 'b', 'i', 'n'][i - 64]); }
    }
    assert(n[0] == h[0]);
}
spec fn uri_authority(u: &Https) -> Seq<char> { u.canonical_authority_spec() }
