//@ fn RsyncUri::unique_components
//@ spec
    ensures
        // C30: the directory component is the canonical authority ...
        res.0.view() == self.canonical_authority_spec(),
        // C30: ... and the digest is taken over an injective encoding of the URI: exactly six pieces in this
        // order -- an 8-byte scheme literal, the canonical authority, a 1-byte separator literal, the module
        // name, a 1-byte separator literal, the path (authority and module contain no '/')
        digest_pieces_rsync(res.1.pieces_spec(), self),
//@ fn Https::unique_components
//@ spec
    ensures
        res.0.view() == self.canonical_authority_spec(),
        // C30: four pieces -- an 8-byte scheme literal, the canonical authority, a 1-byte separator literal, the path
        digest_pieces_https(res.1.pieces_spec(), self),
//@ fn WorkingDir::uri_path
//@ spec
    ensures
        // C30: the local copy of an rsync URI lives at base / canonical-authority / module / path ...
        res.comps() == self.base.comps()
            .push(uri.canonical_authority_spec()).push(uri.module_spec()).push(uri.path_spec()),
        // ... none of the pieces can reset the path (precondition of PathBuf::push at the three call
        // sites) and each is free of empty, "." and ".." segments: the file lies below the base directory
        safe_component(uri.canonical_authority_spec()), safe_component(uri.module_spec()),
        safe_relative(uri.path_spec()),
//@ fn Collector::repository_path
//@ spec
    ensures
        // C30: the archive of an RRDP repository lives at working_dir / canonical-authority / <hex sha256 of the URI>.bin
        res matches Ok(p) ==> p.comps() == self.working_dir.comps()
            .push(uri_authority(rpki_notify)).push(sha256_hex(rpki_notify.bytes_spec()) + seq!['.', 'b', 'i', 'n']),
        // the authority is a single segment (it cannot reset the path or descend); the file name is a safe component
        no_slash(uri_authority(rpki_notify)),
        safe_component(sha256_hex(rpki_notify.bytes_spec()) + seq!['.', 'b', 'i', 'n']),
//@ entry
        broadcast use axiom_hex_is_component;
        broadcast use axiom_digest_hex;
        proof { reveal_strlit(".bin"); lemma_archive_name_safe(rpki_notify.bytes_spec()); }
//@ exit
        proof {
            reveal_strlit(".bin");
            assert(".bin"@ =~= seq!['.', 'b', 'i', 'n']);
            assert(dir@ =~= sha256_hex(rpki_notify.bytes_spec()) + seq!['.', 'b', 'i', 'n']);
        }
//@ global
proof fn lemma_archive_name_safe(data: Seq<u8>)
    ensures safe_component(sha256_hex(data) + seq!['.', 'b', 'i', 'n']),
            relative(sha256_hex(data) + seq!['.', 'b', 'i', 'n']),
{
    broadcast use axiom_hex_is_component;
    let h = sha256_hex(data);
    let n = h + seq!['.', 'b', 'i', 'n'];
    assert(n.len() == 68);
    assert forall|i: int| 0 <= i < n.len() implies n[i] != '/' by {
        if i < 64 { assert(n[i] == h[i]); } else { assert(n[i] == seq!['.', 'b', 'i', 'n'][i - 64]); }
    }
    assert(n[0] == h[0]);
}
spec fn uri_authority(u: &Https) -> Seq<char> { u.canonical_authority_spec() }

spec fn digest_pieces_rsync(p: Seq<Seq<u8>>, uri: &RsyncUri) -> bool {
    &&& p.len() == 6
    &&& p[0].len() == 8
    &&& p[1] == uri.canonical_authority_bytes()
    &&& p[2].len() == 1
    &&& p[3] == uri.module_spec_bytes()
    &&& p[4].len() == 1
    &&& p[5] == uri.path_spec_bytes()
}
spec fn digest_pieces_https(p: Seq<Seq<u8>>, uri: &Https) -> bool {
    &&& p.len() == 4
    &&& p[0].len() == 8
    &&& p[1] == uri.canonical_authority_bytes()
    &&& p[2].len() == 1
    &&& p[3] == uri.path_spec_bytes()
}
