// Environment of unit `engine_point`: per-object validation gate of
// engine.rs. Opaque rpki / collector / store types and ASSUMED contracts.
// The validation predicates below are ghost typestate: they are produced
// ONLY by the assumed contracts of rpki's validation calls and say what an
// Ok of such a call means, not that rpki computes it correctly.

// ---------------------------------------------------------------- opaque types
#[verifier::external_body] pub struct RsyncUri { _opaque: () }
#[verifier::external_body] pub struct HttpsUri { _opaque: () }
#[verifier::external_body] pub struct Bytes { _opaque: () }
#[verifier::external_body] pub struct Tal { _opaque: () }
#[verifier::external_body] pub struct Cert { _opaque: () }
#[verifier::external_body] pub struct ResourceCert { _opaque: () }
#[verifier::external_body] pub struct Serial { _opaque: () }
#[verifier::external_body] pub struct KeyIdentifier { _opaque: () }
#[verifier::external_body] pub struct Crl { _opaque: () }
#[verifier::external_body] pub struct ManifestContent { _opaque: () }
#[verifier::external_body] pub struct Roa { _opaque: () }
#[verifier::external_body] pub struct Aspa { _opaque: () }
#[verifier::external_body] pub struct SignedObject { _opaque: () }
#[verifier::external_body] pub struct RouteOriginAttestation { _opaque: () }
#[verifier::external_body] pub struct AsProviderAttestation { _opaque: () }
#[verifier::external_body] pub struct ValidationError { _opaque: () }
#[verifier::external_body] pub struct InspectionError { _opaque: () }
#[verifier::external_body] pub struct DecodeError { _opaque: () }
#[verifier::external_body] pub struct Validity { _opaque: () }
#[verifier::external_body] pub struct Time { _opaque: () }
#[verifier::external_body] pub struct PathBuf { _opaque: () }
#[verifier::external_body] pub struct Collector { _opaque: () }
#[verifier::external_body] pub struct Store { _opaque: () }
#[verifier::external_body] pub struct Metrics { _opaque: () }
#[verifier::external_body] pub struct AtomicBool { _opaque: () }
#[verifier::external_body] pub struct LogBookWriter { _opaque: () }
#[verifier::external_body] pub struct FmtArgs { _opaque: () }
#[verifier::external_body] pub struct CollectorRun<'a> { _p: &'a Collector }
#[verifier::external_body] pub struct StoreRun<'a> { _p: &'a Store }

// rpki::repository::tal::TalUri (rpki crate; CaCert::chain constructs it).
pub enum TalUri {
    Rsync(RsyncUri),
    Https(HttpsUri),
}
// rpki::repository::cert::KeyUsage (rpki crate; compared in process_cer).
pub enum KeyUsage { Ca, Ee }
impl PartialEqSpecImpl for KeyUsage {
    open spec fn obeys_eq_spec() -> bool { true }
    open spec fn eq_spec(&self, other: &KeyUsage) -> bool { *self == *other }
}
impl PartialEq for KeyUsage {
    #[verifier::external_body]
    fn eq(&self, other: &Self) -> bool { unimplemented!() }
}

impl Clone for RsyncUri {
    #[verifier::external_body]
    fn clone(&self) -> (r: RsyncUri) ensures r == *self { unimplemented!() }
}
impl PartialEqSpecImpl for RsyncUri {
    open spec fn obeys_eq_spec() -> bool { true }
    open spec fn eq_spec(&self, other: &RsyncUri) -> bool { *self == *other }
}
impl PartialEq for RsyncUri {
    #[verifier::external_body]
    fn eq(&self, other: &Self) -> bool { unimplemented!() }
}
impl RsyncUri {
    pub uninterp spec fn ends_with_spec(&self, s: &str) -> bool;
    #[verifier::external_body]
    pub fn ends_with(&self, s: &str) -> (r: bool) ensures r == self.ends_with_spec(s) { unimplemented!() }
}

// R2: formatted text is opaque; R14: metric counters are opaque.
#[verifier::external_body]
pub fn fmt_opaque() -> (r: FmtArgs) { unimplemented!() }
#[verifier::external_body]
pub fn metric_inc(v: u32) -> (r: u32) { unimplemented!() }
impl LogBookWriter {
    #[verifier::external_body]
    pub fn warn(&mut self, args: FmtArgs) { unimplemented!() }
}

// ---------------------------------------------------------------- validation typestate
// rc came out of a successful EE validation of a signed object under `issuer`
pub uninterp spec fn valid_ee(rc: ResourceCert, issuer: ResourceCert) -> bool;
// the same, issuer forgotten (what the processor trait can see)
pub uninterp spec fn ee_validated(rc: ResourceCert) -> bool;
// rc came out of Cert::validate_ca under `issuer`
pub uninterp spec fn valid_ca(rc: ResourceCert, issuer: ResourceCert) -> bool;
// Cert::validate_router under `issuer` was Ok
pub uninterp spec fn valid_router(c: Cert, issuer: ResourceCert) -> bool;

// decoding outcomes (functions of the bytes and the strict flag)
pub uninterp spec fn cert_decode(b: Bytes) -> Option<Cert>;
pub uninterp spec fn roa_decode(b: Bytes, strict: bool) -> Option<Roa>;
pub uninterp spec fn aspa_decode(b: Bytes, strict: bool) -> Option<Aspa>;
pub uninterp spec fn sigobj_decode(b: Bytes, strict: bool) -> Option<SignedObject>;

impl Cert {
    pub uninterp spec fn crl_uri_spec(&self) -> Option<&RsyncUri>;
    pub uninterp spec fn serial_spec(&self) -> Serial;
    pub uninterp spec fn key_usage_spec(&self) -> KeyUsage;
    // outcome of validate_ca / validate_router (everything except the CRL check)
    pub uninterp spec fn ca_validates(&self, issuer: &ResourceCert, strict: bool) -> Option<ResourceCert>;
    pub uninterp spec fn router_validates(&self, issuer: &ResourceCert, strict: bool) -> bool;

    #[verifier::external_body]
    pub fn decode(source: Bytes) -> (r: Result<Cert, DecodeError>)
        ensures r.ok() == cert_decode(source),
    { unimplemented!() }
    #[verifier::external_body]
    pub fn crl_uri(&self) -> (r: Option<&RsyncUri>) ensures r == self.crl_uri_spec() { unimplemented!() }
    #[verifier::external_body]
    pub fn serial_number(&self) -> (r: Serial) ensures r == self.serial_spec() { unimplemented!() }
    #[verifier::external_body]
    pub fn key_usage(&self) -> (r: KeyUsage) ensures r == self.key_usage_spec() { unimplemented!() }

    #[verifier::external_body]
    pub fn validate_ca(self, issuer: &ResourceCert, strict: bool) -> (r: Result<ResourceCert, ValidationError>)
        ensures
            r.ok() == self.ca_validates(issuer, strict),
            r matches Ok(rc) ==> valid_ca(rc, *issuer) && rc.cert_spec() == self,
    { unimplemented!() }

    #[verifier::external_body]
    pub fn validate_router(&self, issuer: &ResourceCert, strict: bool) -> (r: Result<(), ValidationError>)
        ensures
            r is Ok <==> self.router_validates(issuer, strict),
            r is Ok ==> valid_router(*self, *issuer),
    { unimplemented!() }
}

impl ResourceCert {
    // the certificate this resource certificate was made from
    pub uninterp spec fn cert_spec(&self) -> Cert;
    pub uninterp spec fn ca_repository_spec(&self) -> Option<&RsyncUri>;
    pub uninterp spec fn rpki_manifest_spec(&self) -> Option<&RsyncUri>;
    #[verifier::external_body]
    pub fn ca_repository(&self) -> (r: Option<&RsyncUri>) ensures r == self.ca_repository_spec() { unimplemented!() }
    #[verifier::external_body]
    pub fn rpki_manifest(&self) -> (r: Option<&RsyncUri>) ensures r == self.rpki_manifest_spec() { unimplemented!() }
}

// rpki: `impl Deref for ResourceCert { type Target = Cert }`
impl std::ops::Deref for ResourceCert {
    type Target = Cert;
    #[verifier::external_body]
    fn deref(&self) -> (r: &Cert) ensures *r == self.cert_spec() { unimplemented!() }
}

impl Crl {
    pub uninterp spec fn contains_spec(&self, s: Serial) -> bool;
    #[verifier::external_body]
    pub fn contains(&self, serial: Serial) -> (r: bool) ensures r == self.contains_spec(serial) { unimplemented!() }
}

impl InspectionError {
    #[verifier::external_body]
    pub fn new(err: &'static str) -> (r: InspectionError) { unimplemented!() }
}
impl vstd::std_specs::convert::FromSpecImpl<InspectionError> for ValidationError {
    open spec fn obeys_from_spec() -> bool { false }
    uninterp spec fn from_spec(v: InspectionError) -> ValidationError;
}
impl From<InspectionError> for ValidationError {
    #[verifier::external_body]
    fn from(err: InspectionError) -> ValidationError { unimplemented!() }
}

// ---------------------------------------------------------------- signed objects
// `process` = rpki's validate (signature, resources, validity, profile) +
// the caller's CRL check on the embedded EE certificate + content check.
impl Roa {
    pub uninterp spec fn ee_spec(&self) -> Cert;
    pub uninterp spec fn content_spec(&self) -> RouteOriginAttestation;
    pub uninterp spec fn validates(&self, issuer: &ResourceCert, strict: bool) -> Option<ResourceCert>;

    #[verifier::external_body]
    pub fn decode(source: Bytes, strict: bool) -> (r: Result<Roa, DecodeError>)
        ensures r.ok() == roa_decode(source, strict),
    { unimplemented!() }

    #[verifier::external_body]
    pub fn process<F: FnOnce(&Cert) -> Result<(), ValidationError>>(
        self, issuer: &ResourceCert, strict: bool, check_crl: F
    ) -> (r: Result<(ResourceCert, RouteOriginAttestation), ValidationError>)
        requires check_crl.requires((&self.ee_spec(),)),
        ensures
            r matches Ok((c, a)) ==> self.validates(issuer, strict) == Some(c) && a == self.content_spec()
                && c.cert_spec() == self.ee_spec() && valid_ee(c, *issuer) && ee_validated(c)
                && (exists|o: Result<(), ValidationError>| o is Ok && #[trigger] check_crl.ensures((&self.ee_spec(),), o)),
            r is Err ==> self.validates(issuer, strict) is None
                || (exists|o: Result<(), ValidationError>| o is Err && #[trigger] check_crl.ensures((&self.ee_spec(),), o)),
    { unimplemented!() }
}
impl Aspa {
    pub uninterp spec fn ee_spec(&self) -> Cert;
    pub uninterp spec fn content_spec(&self) -> AsProviderAttestation;
    pub uninterp spec fn validates(&self, issuer: &ResourceCert, strict: bool) -> Option<ResourceCert>;

    #[verifier::external_body]
    pub fn decode(source: Bytes, strict: bool) -> (r: Result<Aspa, DecodeError>)
        ensures r.ok() == aspa_decode(source, strict),
    { unimplemented!() }

    #[verifier::external_body]
    pub fn process<F: FnOnce(&Cert) -> Result<(), ValidationError>>(
        self, issuer: &ResourceCert, strict: bool, check_crl: F
    ) -> (r: Result<(ResourceCert, AsProviderAttestation), ValidationError>)
        requires check_crl.requires((&self.ee_spec(),)),
        ensures
            r matches Ok((c, a)) ==> self.validates(issuer, strict) == Some(c) && a == self.content_spec()
                && c.cert_spec() == self.ee_spec() && valid_ee(c, *issuer) && ee_validated(c)
                && (exists|o: Result<(), ValidationError>| o is Ok && #[trigger] check_crl.ensures((&self.ee_spec(),), o)),
            r is Err ==> self.validates(issuer, strict) is None
                || (exists|o: Result<(), ValidationError>| o is Err && #[trigger] check_crl.ensures((&self.ee_spec(),), o)),
    { unimplemented!() }
}
impl SignedObject {
    pub uninterp spec fn ee_spec(&self) -> Cert;
    pub uninterp spec fn content_spec(&self) -> Bytes;
    pub uninterp spec fn validates(&self, issuer: &ResourceCert, strict: bool) -> Option<ResourceCert>;

    #[verifier::external_body]
    pub fn decode(source: Bytes, strict: bool) -> (r: Result<SignedObject, DecodeError>)
        ensures r.ok() == sigobj_decode(source, strict),
    { unimplemented!() }

    #[verifier::external_body]
    pub fn process<F: FnOnce(&Cert) -> Result<(), ValidationError>>(
        self, issuer: &ResourceCert, strict: bool, check_crl: F
    ) -> (r: Result<(ResourceCert, Bytes), ValidationError>)
        requires check_crl.requires((&self.ee_spec(),)),
        ensures
            r matches Ok((c, a)) ==> self.validates(issuer, strict) == Some(c) && a == self.content_spec()
                && c.cert_spec() == self.ee_spec() && valid_ee(c, *issuer) && ee_validated(c)
                && (exists|o: Result<(), ValidationError>| o is Ok && #[trigger] check_crl.ensures((&self.ee_spec(),), o)),
            r is Err ==> self.validates(issuer, strict) is None
                || (exists|o: Result<(), ValidationError>| o is Err && #[trigger] check_crl.ensures((&self.ee_spec(),), o)),
    { unimplemented!() }
}

// ---------------------------------------------------------------- collector
impl<'a> CollectorRun<'a> {
    #[verifier::external_body]
    pub fn was_updated(&self, ca: &CaCert) -> (r: bool) { unimplemented!() }
}

// ---------------------------------------------------------------- processor traits
// Ghost record of one payload sink call.
pub enum Item {
    Roa(ResourceCert, RouteOriginAttestation),
    Aspa(ResourceCert, AsProviderAttestation),
    Gbr(ResourceCert, Bytes),
    Router(Cert),
}

// crate::engine::ProcessPubPoint. `log()` is the ghost history of payload
// sink calls since the processor was created or last restarted. The
// preconditions are the C01 typestate the trait itself can see.
trait ProcessPubPoint: Sized {
    spec fn log(&self) -> Seq<Item>;
    // a processor that never reports an error (true of PubPointProcessor: unit validation_sink)
    spec fn infallible() -> bool;
    // the processor's own choice whether to look at an object
    spec fn wants(&self, uri: &RsyncUri) -> bool;
    // the processor's own choice whether to descend into a child CA
    spec fn accepts_ca(&self, uri: &RsyncUri, cert: &CaCert) -> bool;

    fn repository_index(&mut self, repository_index: usize)
        ensures final(self).log() == old(self).log();

    fn point_validity(&mut self, manifest_ee: Validity, stale: Time)
        ensures final(self).log() == old(self).log();

    fn want(&self, uri: &RsyncUri) -> (r: Result<bool, Failed>)
        ensures r matches Ok(b) ==> b == self.wants(uri), Self::infallible() ==> r is Ok;

    fn process_ca(&mut self, uri: &RsyncUri, cert: &CaCert) -> (r: Result<Option<Self>, Failed>)
        requires
            // C01: a child CA is handed over only when validated under its parent
            cert.parent matches Some(p) && valid_ca(cert.cert, p.cert),
        ensures
            final(self).log() == old(self).log(),
            r matches Ok(o) ==> o.is_some() == old(self).accepts_ca(uri, cert),
            r matches Ok(Some(child)) ==> child.log() == Seq::<Item>::empty(),
            Self::infallible() ==> r is Ok;

    fn process_router_cert(&mut self, uri: &RsyncUri, cert: Cert, ca_cert: &CaCert) -> (r: Result<(), Failed>)
        requires valid_router(cert, ca_cert.cert),
        ensures r is Ok ==> final(self).log() == old(self).log().push(Item::Router(cert)),
            Self::infallible() ==> r is Ok;

    fn process_roa(&mut self, uri: &RsyncUri, cert: ResourceCert, route: RouteOriginAttestation) -> (r: Result<(), Failed>)
        requires ee_validated(cert),
        ensures r is Ok ==> final(self).log() == old(self).log().push(Item::Roa(cert, route)),
            Self::infallible() ==> r is Ok;

    fn process_aspa(&mut self, uri: &RsyncUri, cert: ResourceCert, aspa: AsProviderAttestation) -> (r: Result<(), Failed>)
        requires ee_validated(cert),
        ensures r is Ok ==> final(self).log() == old(self).log().push(Item::Aspa(cert, aspa)),
            Self::infallible() ==> r is Ok;

    fn process_gbr(&mut self, uri: &RsyncUri, cert: ResourceCert, content: Bytes) -> (r: Result<(), Failed>)
        requires ee_validated(cert),
        ensures r is Ok ==> final(self).log() == old(self).log().push(Item::Gbr(cert, content)),
            Self::infallible() ==> r is Ok;

    fn restart(&mut self) -> (r: Result<(), Failed>)
        ensures r is Ok ==> final(self).log() == Seq::<Item>::empty(), Self::infallible() ==> r is Ok;

    fn commit(self);

    fn cancel(self, cert: &CaCert);
}

trait ProcessRun {
    type PubPoint: ProcessPubPoint;
}

// Repository functions of CaCert that are not extracted here.
impl CaCert {
    // C07 (unit cacert): Ok iff the key identifier does not occur in the chain
    uninterp spec fn loop_free(&self, cert: &Cert) -> bool;
    #[verifier::external_body]
    fn check_loop(&self, cert: &Cert) -> (r: Result<(), Failed>)
        ensures r is Ok <==> self.loop_free(cert),
    { unimplemented!() }
    #[verifier::external_body]
    fn repository_switch(&self) -> (r: bool) { unimplemented!() }
}

// ================================================================ point level
#[verifier::external_body] pub struct Manifest { _opaque: () }
#[verifier::external_body] pub struct PublicKey { _opaque: () }
#[verifier::external_body] pub struct ManifestHash { _opaque: () }
#[verifier::external_body] pub struct RunMetrics { _opaque: () }
#[verifier::external_body] pub struct LogBook { _opaque: () }
#[verifier::external_body] pub struct StoredPoint { _opaque: () }
#[verifier::external_body] pub struct ParseError { _opaque: () }
#[verifier::external_body] pub struct CollRepository<'a> { _p: &'a Collector }

impl Clone for Bytes {
    #[verifier::external_body]
    fn clone(&self) -> (r: Bytes) ensures r == *self { unimplemented!() }
}

// ---- time (opaque, ordered; nothing about deadlines is claimed here: C39)
impl Time { pub uninterp spec fn t(&self) -> int; }
impl Clone for Time {
    #[verifier::external_body]
    fn clone(&self) -> (r: Time) ensures r == *self { unimplemented!() }
}
impl Copy for Time {}
impl PartialEqSpecImpl for Time {
    open spec fn obeys_eq_spec() -> bool { true }
    open spec fn eq_spec(&self, other: &Time) -> bool { self.t() == other.t() }
}
impl PartialEq for Time {
    #[verifier::external_body]
    fn eq(&self, other: &Self) -> bool { unimplemented!() }
}
impl Eq for Time {}
impl PartialOrdSpecImpl for Time {
    open spec fn obeys_partial_cmp_spec() -> bool { true }
    open spec fn partial_cmp_spec(&self, other: &Time) -> Option<Ordering> {
        if self.t() < other.t() { Some(Ordering::Less) }
        else if self.t() == other.t() { Some(Ordering::Equal) }
        else { Some(Ordering::Greater) }
    }
}
impl PartialOrd for Time {
    #[verifier::external_body]
    fn partial_cmp(&self, other: &Time) -> Option<Ordering> { unimplemented!() }
}
impl OrdSpecImpl for Time {
    open spec fn obeys_cmp_spec() -> bool { true }
    open spec fn cmp_spec(&self, other: &Time) -> Ordering {
        if self.t() < other.t() { Ordering::Less }
        else if self.t() == other.t() { Ordering::Equal }
        else { Ordering::Greater }
    }
}
impl Ord for Time {
    #[verifier::external_body]
    fn cmp(&self, other: &Time) -> Ordering { unimplemented!() }
}
pub assume_specification<T: Ord + core::marker::Destruct> [std::cmp::min] (a: T, b: T) -> (r: T)
    ensures
        T::obeys_cmp_spec() ==> r == (if b.cmp_spec(&a) == Ordering::Less { b } else { a }),
;

// ---- manifest / CRL validation typestate (C01)
// (ee, content) came out of Manifest::validate under `issuer`
pub uninterp spec fn valid_mft(ee: ResourceCert, content: ManifestContent, issuer: ResourceCert) -> bool;
// Crl::verify_signature with this key was Ok
pub uninterp spec fn crl_signed_by(crl: Crl, key: PublicKey) -> bool;
pub uninterp spec fn mft_decode(b: Bytes, strict: bool) -> Option<Manifest>;
pub uninterp spec fn crl_decode(b: Bytes) -> Option<Crl>;

impl Manifest {
    #[verifier::external_body]
    pub fn decode(source: Bytes, strict: bool) -> (r: Result<Manifest, DecodeError>)
        ensures r.ok() == mft_decode(source, strict),
    { unimplemented!() }

    #[verifier::external_body]
    pub fn validate(self, issuer: &ResourceCert, strict: bool)
        -> (r: Result<(ResourceCert, ManifestContent), ValidationError>)
        ensures r matches Ok((ee, content)) ==> valid_mft(ee, content, *issuer),
    { unimplemented!() }
}
impl ManifestContent {
    #[verifier::external_body]
    pub fn is_stale(&self) -> (r: bool) { unimplemented!() }
    #[verifier::external_body]
    pub fn len(&self) -> (r: usize) { unimplemented!() }
    #[verifier::external_body]
    pub fn next_update(&self) -> (r: Time) { unimplemented!() }
}
impl Cert {
    pub uninterp spec fn spki_spec(&self) -> PublicKey;
    #[verifier::external_body]
    pub fn subject_public_key_info(&self) -> (r: &PublicKey) ensures *r == self.spki_spec() { unimplemented!() }
    #[verifier::external_body]
    pub fn validity(&self) -> (r: Validity) { unimplemented!() }
}
impl Crl {
    #[verifier::external_body]
    pub fn decode(source: Bytes) -> (r: Result<Crl, DecodeError>)
        ensures r.ok() == crl_decode(source),
    { unimplemented!() }
    #[verifier::external_body]
    pub fn verify_signature(&self, key: &PublicKey) -> (r: Result<(), ValidationError>)
        ensures r is Ok ==> crl_signed_by(*self, *key),
    { unimplemented!() }
    #[verifier::external_body]
    pub fn is_stale(&self) -> (r: bool) { unimplemented!() }
    #[verifier::external_body]
    pub fn next_update(&self) -> (r: Time) { unimplemented!() }
    // turns on an internal lookup cache: the list itself is unchanged
    #[verifier::external_body]
    pub fn cache_serials(&mut self)
        ensures
            forall|s: Serial| final(self).contains_spec(s) == old(self).contains_spec(s),
            forall|k: PublicKey| crl_signed_by(*final(self), k) == crl_signed_by(*old(self), k),
    { unimplemented!() }
}

// ---- metrics
impl Default for PublicationMetrics {
    #[verifier::external_body]
    fn default() -> (r: PublicationMetrics) { unimplemented!() }
}
impl vstd::std_specs::ops::AddAssignSpecImpl for PublicationMetrics {
    open spec fn obeys_add_assign_spec() -> bool { false }
    open spec fn add_assign_req(&self, rhs: PublicationMetrics) -> bool { true }
    uninterp spec fn add_assign_spec(&self, rhs: PublicationMetrics) -> &PublicationMetrics;
}
impl std::ops::AddAssign for PublicationMetrics {
    #[verifier::external_body]
    fn add_assign(&mut self, other: PublicationMetrics) { unimplemented!() }
}
impl RunMetrics {
    #[verifier::external_body]
    pub fn append_log(&mut self, uri: RsyncUri, book: LogBook) { unimplemented!() }
}
impl LogBookWriter {
    #[verifier::external_body]
    pub fn into_book(self) -> (r: LogBook) { unimplemented!() }
}
impl LogBook {
    #[verifier::external_body]
    pub fn is_empty(&self) -> (r: bool) { unimplemented!() }
}

// ---- store
impl ParseError {
    pub uninterp spec fn fatal_spec(&self) -> bool;
    #[verifier::external_body]
    pub fn is_fatal(&self) -> (r: bool) ensures r == self.fatal_spec() { unimplemented!() }
}
// Reading this stored point hits a fatal I/O error somewhere (a timeless attribute of the point's
// file; C41: the one legitimate source of Err in process_stored)
pub uninterp spec fn stored_read_fatal(p: StoredPoint) -> bool;
impl StoredPoint {
    pub uninterp spec fn manifest_spec(&self) -> Option<StoredManifest>;
    // objects not read yet (a file is finite)
    pub uninterp spec fn pending(&self) -> nat;

    #[verifier::external_body]
    pub fn manifest(&self) -> (r: Option<&StoredManifest>)
        ensures r matches Some(m) ==> self.manifest_spec() == Some(*m), r is None ==> self.manifest_spec() is None,
    { unimplemented!() }
    #[verifier::external_body]
    pub fn is_new(&self) -> (r: bool) { unimplemented!() }

    // Iterator::next of StoredPoint (R9 calls it directly)
    #[verifier::external_body]
    pub fn next(&mut self) -> (r: Option<Result<StoredObject, ParseError>>)
        ensures
            final(self).manifest_spec() == old(self).manifest_spec(),
            r is Some ==> final(self).pending() < old(self).pending(),
            (r matches Some(Err(e)) && e.fatal_spec()) ==> stored_read_fatal(*old(self)) && io_failure(),
            stored_read_fatal(*final(self)) == stored_read_fatal(*old(self)),
    { unimplemented!() }
}

// ---- repository functions of PubPoint / Run that are not extracted here
impl<'a, P: ProcessRun> PubPoint<'a, P> {
    #[verifier::external_body]
    fn apply_metrics(&mut self, metrics: &mut RunMetrics)
        ensures
            final(self).run == old(self).run, final(self).cert == old(self).cert,
            final(self).processor.log() == old(self).processor.log(),
    { unimplemented!() }
}

// C41: "some store / collector operation failed fatally (I/O) during this run". Every assumed
// function of the store and the collector that can return an error says so here; nothing about the
// content of a repository can make it true.
pub uninterp spec fn io_failure() -> bool;
// Failure sources outside this unit (C41: the only places an Err can come from)
pub uninterp spec fn store_open_failed(s: &StoreRun, ca: &CaCert) -> bool;
// The certificate's manifest URI / rpkiNotify map to a path the store cannot use for a stored point.
// An attribute of the CERTIFICATE (chosen by that CA), not of Routinator's storage.
pub uninterp spec fn path_unusable(ca: &CaCert) -> bool;
pub uninterp spec fn collector_failed(c: &CollectorRun, ca: &CaCert) -> bool;
impl<'a> StoreRun<'a> {
    #[verifier::external_body]
    // store::Run::pub_point -> Repository::get_point -> StoredPoint::open / create: the file path is
    // derived from the CA's own manifest URI (and rpkiNotify). It fails when Routinator's own
    // storage fails (io_failure) OR when that CA-chosen path cannot hold a stored point
    // (path_unusable: nested under another point's file `.../b.mft/c.mft`, trailing slash, a path
    // segment longer than the file system allows, ...) - a fault of THAT CA's content.
    pub fn pub_point(&self, ca: &CaCert) -> (r: Result<StoredPoint, Failed>)
        ensures r is Err ==> store_open_failed(self, ca) && (io_failure() || path_unusable(ca)),
    { unimplemented!() }
}
impl<'a> CollectorRun<'a> {
    #[verifier::external_body]
    pub fn repository<'s>(&'s self, ca: &CaCert) -> (r: Result<Option<CollRepository<'s>>, RunFailed>)
        ensures r is Err ==> collector_failed(self, ca) && io_failure(),
    { unimplemented!() }
}
impl<'a, P: ProcessRun> Run<'a, P> {
    #[verifier::external_body]
    fn run_failed(&self, err: RunFailed) { unimplemented!() }
}
impl<'a, P: ProcessRun> PubPoint<'a, P> {
    // PubPoint::validate_collected_manifest (engine.rs:900): ASSUMED here, proved in unit
    // manifest_policy (accepted = decoded, validated under this CA, CRL listed / hash-checked /
    // signed by the CA key, manifest EE certificate not revoked).
    #[verifier::external_body]
    fn validate_collected_manifest(&mut self, manifest_bytes: Bytes, repository: &CollRepository)
        -> (r: Result<Option<ValidPointManifest>, RunFailed>)
        ensures
            final(self).run == old(self).run, final(self).cert == old(self).cert,
            final(self).repository_index == old(self).repository_index,
            final(self).processor == old(self).processor,
            r matches Ok(Some(m)) ==> mft_ok(&m, &**old(self).cert) && m.manifest_bytes == manifest_bytes,
            // an error is a failure to read from the collector, nothing else (unit manifest_policy)
            r is Err ==> io_failure(),
    { unimplemented!() }

    // PubPoint::check_collected_is_newer (engine.rs:982): ASSUMED frame; its result is C05 (unit newer).
    #[verifier::external_body]
    fn check_collected_is_newer(&mut self, collected: &ValidPointManifest, stored: &mut StoredPoint)
        -> (r: Result<bool, Failed>)
        ensures
            final(self).run == old(self).run, final(self).cert == old(self).cert,
            final(self).repository_index == old(self).repository_index,
            final(self).processor == old(self).processor,
            // an error is a failure to rewrite the stored point (StoredPoint::reject), nothing else
            r is Err ==> io_failure(),
    { unimplemented!() }
}

// ================================================================ collected path
#[verifier::external_body] pub struct MftItem { _opaque: () }            // rpki FileAndHash<Bytes, Bytes>
#[verifier::external_body] pub struct MftIter { _opaque: () }            // rpki FileListIter
#[verifier::external_body] pub struct DigestAlgorithm { _opaque: () }
#[verifier::external_body] pub struct HashMismatch { _opaque: () }
#[verifier::external_body] pub struct AsciiError { _opaque: () }
#[verifier::external_body] #[derive(Debug)] pub struct UriError { _opaque: () }
#[verifier::external_body] pub struct ThreadRng { _opaque: () }

impl PartialEqSpecImpl for Bytes {
    open spec fn obeys_eq_spec() -> bool { true }
    open spec fn eq_spec(&self, other: &Bytes) -> bool { *self == *other }
}
impl PartialEq for Bytes {
    #[verifier::external_body]
    fn eq(&self, other: &Self) -> bool { unimplemented!() }
}

// ---- manifest content
impl MftItem {
    pub uninterp spec fn file_spec(&self) -> Bytes;
    pub uninterp spec fn hash_spec(&self) -> Bytes;
    #[verifier::external_body]
    pub fn file(&self) -> (r: &Bytes) ensures *r == self.file_spec() { unimplemented!() }
    #[verifier::external_body]
    pub fn hash(&self) -> (r: &Bytes) ensures *r == self.hash_spec() { unimplemented!() }
}
impl ManifestContent {
    // `item` is an entry of this manifest's file list
    pub uninterp spec fn lists(&self, item: MftItem) -> bool;
    pub uninterp spec fn alg_spec(&self) -> DigestAlgorithm;
    #[verifier::external_body]
    pub fn iter(&self) -> (r: MftIter)
        ensures r.of() == *self,
    { unimplemented!() }
    #[verifier::external_body]
    pub fn file_hash_alg(&self) -> (r: DigestAlgorithm) ensures r == self.alg_spec() { unimplemented!() }
}
impl MftIter {
    pub uninterp spec fn of(&self) -> ManifestContent;
    // Iterator::collect::<Vec<_>>() of the file list iterator
    #[verifier::external_body]
    pub fn collect(self) -> (r: Vec<MftItem>)
        ensures forall|i: int| 0 <= i < r@.len() ==> self.of().lists(#[trigger] r@[i]),
    { unimplemented!() }
}
// rand::seq::SliceRandom::shuffle: a permutation
pub trait SliceRandom {
    fn shuffle(&mut self, rng: &mut ThreadRng);
}
impl SliceRandom for Vec<MftItem> {
    #[verifier::external_body]
    fn shuffle(&mut self, rng: &mut ThreadRng)
        ensures
            final(self)@.to_multiset() == old(self)@.to_multiset(),
            // (a consequence of being a permutation, stated for the solver)
            final(self)@.len() == old(self)@.len(),
            forall|i: int| 0 <= i < final(self)@.len() ==> old(self)@.contains(#[trigger] final(self)@[i]),
    { unimplemented!() }
}
#[verifier::external_body]
pub fn rand_rng() -> (r: ThreadRng) { unimplemented!() }

// ---- manifest hash (C01: "listed with a matching hash")
pub uninterp spec fn hash_ok(hash: Bytes, alg: DigestAlgorithm, content: Bytes) -> bool;
impl ManifestHash {
    pub uninterp spec fn hash_spec(&self) -> Bytes;
    pub uninterp spec fn alg_spec(&self) -> DigestAlgorithm;
    #[verifier::external_body]
    pub fn new(hash: Bytes, algorithm: DigestAlgorithm) -> (r: ManifestHash)
        ensures r.hash_spec() == hash, r.alg_spec() == algorithm,
    { unimplemented!() }
    #[verifier::external_body]
    pub fn verify(&self, t: &Bytes) -> (r: Result<(), HashMismatch>)
        ensures r is Ok <==> hash_ok(self.hash_spec(), self.alg_spec(), *t),
    { unimplemented!() }
}

// ---- names and URIs
// rpki's manifest decoder admits only RFC 9286 file names, and those join to a URI
pub uninterp spec fn join_spec(base: RsyncUri, name: Bytes) -> RsyncUri;
// crate::utils::str::str_from_ascii (takes &[u8]; here applied to &Bytes, deref coercion)
#[verifier::external_body] pub struct AsciiName { _opaque: () }
impl AsciiName {
    pub uninterp spec fn bytes_spec(&self) -> Bytes;
    // <str as AsRef<[u8]>>::as_ref
    #[verifier::external_body]
    pub fn as_ref(&self) -> (r: &AsciiName) ensures r == self { unimplemented!() }
}
#[verifier::external_body]
pub fn str_from_ascii(src: &Bytes) -> (r: Result<&AsciiName, AsciiError>)
    ensures r matches Ok(n) ==> n.bytes_spec() == *src,
{ unimplemented!() }
impl RsyncUri {
    #[verifier::external_body]
    pub fn join(&self, path: &AsciiName) -> (r: Result<RsyncUri, UriError>)
        // Ok for every name the manifest decoder admits (paper step: FileAndHash::validate_file_name)
        ensures r is Ok, r->Ok_0 == join_spec(*self, path.bytes_spec()),
    { unimplemented!() }
}

// ---- collector / store
pub uninterp spec fn repo_load_failed(r: &CollRepository, uri: &RsyncUri) -> bool;
impl<'a> CollRepository<'a> {
    #[verifier::external_body]
    pub fn load_object(&self, uri: &RsyncUri) -> (r: Result<Option<Bytes>, RunFailed>)
        ensures r is Err ==> repo_load_failed(self, uri) && io_failure(),
    { unimplemented!() }
}
impl StoredManifest {
    #[verifier::external_body]
    pub fn new(ee_cert: &ResourceCert, manifest: &ManifestContent, ca_cert: &CaCert,
               manifest_bytes: Bytes, crl_uri: RsyncUri, crl: Bytes) -> (r: StoredManifest)
    { unimplemented!() }
}

impl StoredPoint {
    // store::StoredPoint::update (store.rs:959) with the object closure of
    // PubPoint::process_collected passed as its captured variables (R17).
    // ASSUMED generator rule: `update` calls the closure repeatedly until it
    // returns Ok(None) or Err, and touches the captured state in no other way,
    // so an invariant of the closure (proved for
    // PubPoint::process_collected_object) holds afterwards, and Ok means the
    // closure's own end-of-objects condition was reached.
    #[verifier::external_body]
    fn update<'a, P: ProcessRun>(
        &mut self, store: &Store, manifest: StoredManifest,
        this: &mut PubPoint<'a, P>, items: &mut std::vec::IntoIter<MftItem>,
        collected: &mut ValidPointManifest, collector: &CollRepository,
        ca_tasks: &mut Vec<CaTask<P::PubPoint>>, point_ok: &mut bool,
    ) -> (r: Result<(), UpdateError>)
        requires
            gen_inv(old(this), old(collected), old(ca_tasks)@, old(this), old(collected)),
            items_listed((*old(items)).remaining(), old(collected)),
            (*old(items)).obeys_prophetic_iter_laws(),
        ensures
            // (claimed for Ok only: after an abandoned or failed update nothing is known)
            r is Ok ==> gen_inv(final(this), final(collected), final(ca_tasks)@, old(this), old(collected)),
            *final(point_ok) == *old(point_ok),
            final(this).same_ctx(old(this)),
            // C03 + C04 (generator rule, second half): `update` finalises and persists the new point only
            // after a generator call returned Ok(None) (store.rs:1003; proved in unit store_update), and
            // the generator returns Ok(None) only with its item list exhausted, one yielded object per
            // entry (proved for process_collected_object): so on Ok the persisted object set is the
            // FULL item list of the manifest - every entry was loaded, hash-checked and processed
            r is Ok ==> (*final(items)).remaining().len() == 0,
            // `update` fails (as opposed to: is abandoned) only when the closure fails or the file
            // system does
            r matches Err(UpdateError::Failed(_)) ==> !P::PubPoint::infallible() || io_failure(),
    { unimplemented!() }
}

// ---------------------------------------------------------------- std functions without a vstd specification (assumed: their std definitions)
pub assume_specification<T: core::marker::Destruct> [Option::<T>::or] (a: Option<T>, b: Option<T>) -> (r: Option<T>)
    ensures r == (if a is Some { a } else { b });
pub assume_specification<T: core::marker::Destruct, U: core::marker::Destruct> [Option::<T>::and] (a: Option<T>, b: Option<U>) -> (r: Option<U>)
    ensures r == (if a is Some { b } else { None::<U> });
pub assume_specification<T: core::marker::Destruct> [Option::<T>::xor] (a: Option<T>, b: Option<T>) -> (r: Option<T>)
    ensures r == (if a is Some && b is None { a } else if a is None && b is Some { b } else { None::<T> });
pub assume_specification<T: core::marker::Destruct, P: FnOnce(&T) -> bool + core::marker::Destruct> [Option::<T>::filter] (a: Option<T>, p: P) -> (r: Option<T>)
    requires a matches Some(v) ==> p.requires((&v,)),
    ensures
        a is None ==> r is None,
        a matches Some(v) ==> (p.ensures((&v,), true) ==> r == a) && (p.ensures((&v,), false) ==> r is None) && (r is None || r == a),
        // the predicate returned SOME boolean for the element, and the result follows it
        a is Some ==> exists|__b: bool| p.ensures((&a->Some_0,), __b) && r == (if __b { a } else { None::<T> });
pub assume_specification<T, U: core::marker::Destruct, F: FnOnce(T) -> U + core::marker::Destruct> [Option::<T>::map_or] (a: Option<T>, d: U, f: F) -> (r: U)
    requires a matches Some(v) ==> f.requires((v,)),
    ensures a is None ==> r == d, a matches Some(v) ==> f.ensures((v,), r);
pub assume_specification<T, E, U, F: FnOnce(T) -> Result<U, E> + core::marker::Destruct> [Result::<T, E>::and_then] (a: Result<T, E>, f: F) -> (r: Result<U, E>)
    requires a matches Ok(v) ==> f.requires((v,)),
    ensures a matches Err(e) ==> r == Err::<U, E>(e), a matches Ok(v) ==> f.ensures((v,), r);
pub assume_specification<T: core::marker::Destruct, E: core::marker::Destruct> [Result::<T, E>::unwrap_or] (a: Result<T, E>, d: T) -> (r: T)
    ensures r == (match a { Ok(v) => v, Err(_) => d });
pub assume_specification<T, E, F: FnOnce(E) -> T + core::marker::Destruct> [Result::<T, E>::unwrap_or_else] (a: Result<T, E>, f: F) -> (r: T)
    requires a matches Err(e) ==> f.requires((e,)),
    ensures a matches Ok(v) ==> r == v, a matches Err(e) ==> f.ensures((e,), r);
pub assume_specification<T: core::marker::Destruct, E: core::marker::Destruct, F: FnOnce(T) -> bool + core::marker::Destruct> [Result::<T, E>::is_ok_and] (a: Result<T, E>, f: F) -> (r: bool)
    requires a matches Ok(v) ==> f.requires((v,)),
    ensures a is Err ==> !r, a matches Ok(v) ==> f.ensures((v,), r);
pub assume_specification<T: Ord + core::marker::Destruct> [std::cmp::max] (a: T, b: T) -> (r: T)
    ensures T::obeys_cmp_spec() ==> r == (if a.cmp_spec(&b) == Ordering::Greater { a } else { b });

// ---------------------------------------------------------------- further accessors of the env types used in engine.rs
impl KeyIdentifier {
    pub uninterp spec fn id(&self) -> int;
}
impl PartialEqSpecImpl for KeyIdentifier {
    open spec fn obeys_eq_spec() -> bool { true }
    open spec fn eq_spec(&self, other: &KeyIdentifier) -> bool { self.id() == other.id() }
}
impl PartialEq for KeyIdentifier {
    #[verifier::external_body]
    fn eq(&self, other: &Self) -> bool { unimplemented!() }
}
impl PartialEqSpecImpl for Serial {
    open spec fn obeys_eq_spec() -> bool { true }
    open spec fn eq_spec(&self, other: &Serial) -> bool { *self == *other }
}
impl PartialEq for Serial {
    #[verifier::external_body]
    fn eq(&self, other: &Self) -> bool { unimplemented!() }
}
impl Cert {
    pub uninterp spec fn ski_spec(&self) -> KeyIdentifier;
    #[verifier::external_body]
    pub fn subject_key_identifier(&self) -> (r: KeyIdentifier) ensures r == self.ski_spec() { unimplemented!() }
    #[verifier::external_body]
    pub fn ca_repository(&self) -> (r: Option<&RsyncUri>) { unimplemented!() }
    #[verifier::external_body]
    pub fn rpki_manifest(&self) -> (r: Option<&RsyncUri>) { unimplemented!() }
    #[verifier::external_body]
    pub fn rpki_notify(&self) -> (r: Option<&HttpsUri>) { unimplemented!() }
}
impl ResourceCert {
    #[verifier::external_body]
    pub fn validity(&self) -> (r: Validity) { unimplemented!() }
    #[verifier::external_body]
    pub fn rpki_notify(&self) -> (r: Option<&HttpsUri>) { unimplemented!() }
    #[verifier::external_body]
    pub fn as_cert(&self) -> (r: &Cert) ensures *r == self.cert_spec() { unimplemented!() }
}
impl Validity {
    #[verifier::external_body]
    pub fn not_after(self) -> (r: Time) { unimplemented!() }
    #[verifier::external_body]
    pub fn not_before(self) -> (r: Time) { unimplemented!() }
    #[verifier::external_body]
    pub fn trim(self, other: Validity) -> (r: Validity) { unimplemented!() }
}
impl Clone for Validity {
    #[verifier::external_body]
    fn clone(&self) -> (r: Validity) ensures r == *self { unimplemented!() }
}
impl Copy for Validity {}
impl Time {
    #[verifier::external_body]
    pub fn now() -> (r: Time) { unimplemented!() }
}
impl Manifest {
    #[verifier::external_body]
    pub fn content(&self) -> (r: &ManifestContent) { unimplemented!() }
}
impl ManifestContent {
    #[verifier::external_body]
    pub fn this_update(&self) -> (r: Time) { unimplemented!() }
    #[verifier::external_body]
    pub fn manifest_number(&self) -> (r: Serial) { unimplemented!() }
    #[verifier::external_body]
    pub fn is_empty(&self) -> (r: bool) { unimplemented!() }
}
impl MftItem {
    #[verifier::external_body]
    pub fn into_pair(self) -> (r: (Bytes, Bytes)) ensures r.0 == self.file_spec(), r.1 == self.hash_spec() { unimplemented!() }
}
impl Crl {
    #[verifier::external_body]
    pub fn this_update(&self) -> (r: Time) { unimplemented!() }
}
impl RsyncUri {
    #[verifier::external_body]
    pub fn relative_to(&self, base: &RsyncUri) -> (r: Option<&[u8]>) { unimplemented!() }
    #[verifier::external_body]
    pub fn as_str(&self) -> (r: &str) { unimplemented!() }
}
impl LogBookWriter {
    #[verifier::external_body]
    pub fn error(&mut self, args: FmtArgs) { unimplemented!() }
}
impl StoredPoint {
    #[verifier::external_body]
    pub fn reject(&mut self) -> (r: Result<(), Failed>)
        ensures r is Err ==> io_failure(),
    { unimplemented!() }
}
impl Bytes {
    #[verifier::external_body]
    pub fn len(&self) -> (r: usize) { unimplemented!() }
    #[verifier::external_body]
    pub fn is_empty(&self) -> (r: bool) { unimplemented!() }
}
impl<'a> CollectorRun<'a> {
    #[verifier::external_body]
    pub fn load_ta(&self, uri: &TalUri) -> (r: Option<Bytes>) { unimplemented!() }
}
impl<'a> StoreRun<'a> {
    #[verifier::external_body]
    pub fn load_ta(&self, uri: &TalUri) -> (r: Result<Option<Bytes>, Failed>)
        ensures r is Err ==> io_failure(),
    { unimplemented!() }
}

// ================================================================ rest of the public API of the env types
// (declared so that a refactoring that reaches for a sibling accessor still type-checks and is
// verified; unless a contract is given nothing is known about the result)
#[verifier::external_body] pub struct AsResources { _opaque: () }
#[verifier::external_body] pub struct IpResources { _opaque: () }
#[verifier::external_body] pub struct IpBlocks { _opaque: () }
#[verifier::external_body] pub struct AsBlocks { _opaque: () }
#[verifier::external_body] pub struct TalInfo { _opaque: () }
#[verifier::external_body] pub struct VerificationError { _opaque: () }
#[verifier::external_body] pub struct X509Name { _opaque: () }
impl Cert {
    #[verifier::external_body]
    pub fn issuer(&self) -> (r: &X509Name)
    { unimplemented!() }
}
impl Cert {
    #[verifier::external_body]
    pub fn subject(&self) -> (r: &X509Name)
    { unimplemented!() }
}
impl Cert {
    #[verifier::external_body]
    pub fn authority_key_identifier(&self) -> (r: Option<KeyIdentifier>)
    { unimplemented!() }
}
impl Cert {
    #[verifier::external_body]
    pub fn basic_ca(&self) -> (r: Option<bool>)
    { unimplemented!() }
}
impl Cert {
    #[verifier::external_body]
    pub fn ca_issuer(&self) -> (r: Option<&RsyncUri>)
    { unimplemented!() }
}
impl Cert {
    #[verifier::external_body]
    pub fn signed_object(&self) -> (r: Option<&RsyncUri>)
    { unimplemented!() }
}
impl Cert {
    #[verifier::external_body]
    pub fn has_ip_resources(&self) -> (r: bool)
    { unimplemented!() }
}
impl Cert {
    #[verifier::external_body]
    pub fn as_resources(&self) -> (r: &AsResources)
    { unimplemented!() }
}
impl Cert {
    #[verifier::external_body]
    pub fn v4_resources(&self) -> (r: &IpResources)
    { unimplemented!() }
}
impl Cert {
    #[verifier::external_body]
    pub fn v6_resources(&self) -> (r: &IpResources)
    { unimplemented!() }
}
impl Cert {
    #[verifier::external_body]
    pub fn validate_ta(self, info: Arc<TalInfo>, strict: bool) -> (r: Result<ResourceCert, ValidationError>)
    { unimplemented!() }
}
impl Cert {
    #[verifier::external_body]
    pub fn validate_ta_at(self, info: Arc<TalInfo>, strict: bool, now: Time) -> (r: Result<ResourceCert, ValidationError>)
    { unimplemented!() }
}
impl Cert {
    #[verifier::external_body]
    pub fn validate_ca_at(self, issuer: &ResourceCert, strict: bool, now: Time) -> (r: Result<ResourceCert, ValidationError>)
    { unimplemented!() }
}
impl Cert {
    #[verifier::external_body]
    pub fn validate_ee(self, issuer: &ResourceCert, strict: bool) -> (r: Result<ResourceCert, ValidationError>)
    { unimplemented!() }
}
impl Cert {
    #[verifier::external_body]
    pub fn validate_ee_at(self, issuer: &ResourceCert, strict: bool, now: Time) -> (r: Result<ResourceCert, ValidationError>)
    { unimplemented!() }
}
impl Cert {
    #[verifier::external_body]
    pub fn validate_router_at(&self, issuer: &ResourceCert, strict: bool, now: Time) -> (r: Result<(), ValidationError>)
    { unimplemented!() }
}
impl Cert {
    #[verifier::external_body]
    pub fn inspect_ta(&self, strict: bool) -> (r: Result<(), InspectionError>)
    { unimplemented!() }
}
impl Cert {
    #[verifier::external_body]
    pub fn inspect_ca(&self, strict: bool) -> (r: Result<(), InspectionError>)
    { unimplemented!() }
}
impl Cert {
    #[verifier::external_body]
    pub fn inspect_ee(&self, strict: bool) -> (r: Result<(), InspectionError>)
    { unimplemented!() }
}
impl Cert {
    #[verifier::external_body]
    pub fn inspect_router(&self, strict: bool) -> (r: Result<(), InspectionError>)
    { unimplemented!() }
}
impl Cert {
    #[verifier::external_body]
    pub fn verify_ta(self, info: Arc<TalInfo>, strict: bool) -> (r: Result<ResourceCert, VerificationError>)
    { unimplemented!() }
}
impl Cert {
    #[verifier::external_body]
    pub fn verify_ca(self, issuer: &ResourceCert, strict: bool) -> (r: Result<ResourceCert, VerificationError>)
    { unimplemented!() }
}
impl Cert {
    #[verifier::external_body]
    pub fn verify_ee(self, issuer: &ResourceCert, strict: bool) -> (r: Result<ResourceCert, VerificationError>)
    { unimplemented!() }
}
impl Cert {
    #[verifier::external_body]
    pub fn verify_router(&self, issuer: &ResourceCert, strict: bool) -> (r: Result<(), VerificationError>)
    { unimplemented!() }
}
impl ResourceCert {
    #[verifier::external_body]
    pub fn v4_resources(&self) -> (r: &IpBlocks)
    { unimplemented!() }
}
impl ResourceCert {
    #[verifier::external_body]
    pub fn v6_resources(&self) -> (r: &IpBlocks)
    { unimplemented!() }
}
impl ResourceCert {
    #[verifier::external_body]
    pub fn as_resources(&self) -> (r: &AsBlocks)
    { unimplemented!() }
}
impl ResourceCert {
    #[verifier::external_body]
    pub fn tal(&self) -> (r: &Arc<TalInfo>)
    { unimplemented!() }
}
impl ResourceCert {
    #[verifier::external_body]
    pub fn into_tal(self) -> (r: Arc<TalInfo>)
    { unimplemented!() }
}
impl Tal {
    #[verifier::external_body]
    pub fn key_info(&self) -> (r: &PublicKey)
    { unimplemented!() }
}
impl Tal {
    #[verifier::external_body]
    pub fn info(&self) -> (r: &Arc<TalInfo>)
    { unimplemented!() }
}
impl Tal {
    #[verifier::external_body]
    pub fn prefer_https(&mut self)
    { unimplemented!() }
}
impl TalInfo {
    #[verifier::external_body]
    pub fn name(&self) -> (r: &str)
    { unimplemented!() }
}
impl TalInfo {
    #[verifier::external_body]
    pub fn from_name(name: String) -> (r: TalInfo)
    { unimplemented!() }
}
impl TalInfo {
    #[verifier::external_body]
    pub fn into_arc(self) -> (r: Arc<TalInfo>)
    { unimplemented!() }
}
impl TalUri {
    #[verifier::external_body]
    pub fn is_rsync(&self) -> (r: bool)
        ensures r == (self is Rsync),
    { unimplemented!() }
}
impl TalUri {
    #[verifier::external_body]
    pub fn is_https(&self) -> (r: bool)
        ensures r == (self is Https),
    { unimplemented!() }
}
impl TalUri {
    #[verifier::external_body]
    pub fn as_str(&self) -> (r: &str)
    { unimplemented!() }
}
impl Crl {
    #[verifier::external_body]
    pub fn crl_number(&self) -> (r: Serial)
    { unimplemented!() }
}
impl Crl {
    #[verifier::external_body]
    pub fn authority_key_identifier(&self) -> (r: &KeyIdentifier)
    { unimplemented!() }
}
impl Crl {
    #[verifier::external_body]
    pub fn issuer(&self) -> (r: &X509Name)
    { unimplemented!() }
}
impl Manifest {
    #[verifier::external_body]
    pub fn validate_at(self, issuer: &ResourceCert, strict: bool, now: Time) -> (r: Result<(ResourceCert, ManifestContent), ValidationError>)
    { unimplemented!() }
}
impl Manifest {
    #[verifier::external_body]
    pub fn cert(&self) -> (r: &Cert)
    { unimplemented!() }
}
impl MftItem {
    #[verifier::external_body]
    pub fn new(file: Bytes, hash: Bytes) -> (r: MftItem)
        ensures r.file_spec() == file, r.hash_spec() == hash,
    { unimplemented!() }
}
impl MftIter {
    #[verifier::external_body]
    pub fn next(&mut self) -> (r: Option<MftItem>)
        ensures final(self).of() == old(self).of(), r matches Some(i) ==> old(self).of().lists(i),
    { unimplemented!() }
}
impl ManifestHash {
    #[verifier::external_body]
    pub fn algorithm(&self) -> (r: DigestAlgorithm)
        ensures r == self.alg_spec(),
    { unimplemented!() }
}
#[verifier::external_body] pub struct ProviderAsSet { _opaque: () }
#[verifier::external_body] pub struct SmallAsnSet { _opaque: () }
#[verifier::external_body] pub struct Asn { _opaque: () }
impl Roa {
    #[verifier::external_body]
    pub fn cert(&self) -> (r: &Cert)
        ensures *r == self.ee_spec(),
    { unimplemented!() }
}
impl Roa {
    #[verifier::external_body]
    pub fn content(&self) -> (r: &RouteOriginAttestation)
        ensures *r == self.content_spec(),
    { unimplemented!() }
}
impl Aspa {
    #[verifier::external_body]
    pub fn cert(&self) -> (r: &Cert)
        ensures *r == self.ee_spec(),
    { unimplemented!() }
}
impl Aspa {
    #[verifier::external_body]
    pub fn content(&self) -> (r: &AsProviderAttestation)
        ensures *r == self.content_spec(),
    { unimplemented!() }
}
impl SignedObject {
    #[verifier::external_body]
    pub fn cert(&self) -> (r: &Cert)
        ensures *r == self.ee_spec(),
    { unimplemented!() }
}
impl SignedObject {
    #[verifier::external_body]
    pub fn signing_time(&self) -> (r: Time)
    { unimplemented!() }
}
impl SignedObject {
    #[verifier::external_body]
    pub fn validate(self, issuer: &ResourceCert, strict: bool) -> (r: Result<ResourceCert, ValidationError>)
    { unimplemented!() }
}
impl SignedObject {
    #[verifier::external_body]
    pub fn validate_at(self, issuer: &ResourceCert, strict: bool, now: Time) -> (r: Result<ResourceCert, ValidationError>)
    { unimplemented!() }
}
#[verifier::external_body] pub struct RoaIpAddresses { _opaque: () }
#[verifier::external_body] pub struct RoaIpAddress { _opaque: () }
#[verifier::external_body] pub struct FriendlyRoaIpAddress { _opaque: () }
#[verifier::external_body] pub struct ResPrefix { _opaque: () }
impl RouteOriginAttestation {
    #[verifier::external_body]
    pub fn v4_addrs(&self) -> (r: &RoaIpAddresses)
    { unimplemented!() }
}
impl RouteOriginAttestation {
    #[verifier::external_body]
    pub fn v6_addrs(&self) -> (r: &RoaIpAddresses)
    { unimplemented!() }
}
impl RoaIpAddresses {
    #[verifier::external_body]
    pub fn is_empty(&self) -> (r: bool)
    { unimplemented!() }
}
impl RouteOriginAttestation {
    #[verifier::external_body]
    pub fn as_id(&self) -> (r: Asn)
    { unimplemented!() }
}
#[verifier::external_body] pub struct RoaIpAddressIter<'a> { _p: &'a () }
#[verifier::external_body] pub struct FriendlyIter<'a> { _p: &'a () }
impl RoaIpAddresses {
    #[verifier::external_body]
    pub fn iter(&self) -> (r: RoaIpAddressIter<'_>)
    { unimplemented!() }
}
impl<'a> RoaIpAddressIter<'a> {
    #[verifier::external_body]
    pub fn next(&mut self) -> (r: Option<RoaIpAddress>)
    { unimplemented!() }
}
impl RouteOriginAttestation {
    #[verifier::external_body]
    pub fn iter(&self) -> (r: FriendlyIter<'_>)
    { unimplemented!() }
}
impl<'a> FriendlyIter<'a> {
    #[verifier::external_body]
    pub fn next(&mut self) -> (r: Option<FriendlyRoaIpAddress>)
    { unimplemented!() }
}
impl RoaIpAddress {
    #[verifier::external_body]
    pub fn prefix(self) -> (r: ResPrefix)
    { unimplemented!() }
}
impl RoaIpAddress {
    #[verifier::external_body]
    pub fn max_length(self) -> (r: Option<u8>)
    { unimplemented!() }
}
impl FriendlyRoaIpAddress {
    #[verifier::external_body]
    pub fn prefix(self) -> (r: ResPrefix)
    { unimplemented!() }
}
impl FriendlyRoaIpAddress {
    #[verifier::external_body]
    pub fn is_v4(self) -> (r: bool)
    { unimplemented!() }
}
impl FriendlyRoaIpAddress {
    #[verifier::external_body]
    pub fn address_length(self) -> (r: u8)
    { unimplemented!() }
}
impl FriendlyRoaIpAddress {
    #[verifier::external_body]
    pub fn max_length(self) -> (r: u8)
    { unimplemented!() }
}
impl ResPrefix {
    #[verifier::external_body]
    pub fn addr_len(self) -> (r: u8)
    { unimplemented!() }
}
impl AsProviderAttestation {
    #[verifier::external_body]
    pub fn customer_as(&self) -> (r: Asn)
    { unimplemented!() }
}
impl AsProviderAttestation {
    #[verifier::external_body]
    pub fn provider_as_set(&self) -> (r: &ProviderAsSet)
    { unimplemented!() }
}
impl ProviderAsSet {
    #[verifier::external_body]
    pub fn to_set(&self) -> (r: SmallAsnSet)
    { unimplemented!() }
}
impl ProviderAsSet {
    #[verifier::external_body]
    pub fn len(&self) -> (r: usize)
    { unimplemented!() }
}
impl SmallAsnSet {
    #[verifier::external_body]
    pub fn len(&self) -> (r: usize)
    { unimplemented!() }
}
impl SmallAsnSet {
    #[verifier::external_body]
    pub fn is_empty(&self) -> (r: bool)
    { unimplemented!() }
}
impl Asn {
    #[verifier::external_body]
    pub fn into_u32(self) -> (r: u32)
    { unimplemented!() }
}
impl Asn {
    #[verifier::external_body]
    pub fn from_u32(v: u32) -> (r: Asn)
    { unimplemented!() }
}
impl RsyncUri {
    #[verifier::external_body]
    pub fn to_bytes(&self) -> (r: Bytes)
    { unimplemented!() }
}
impl RsyncUri {
    #[verifier::external_body]
    pub fn authority(&self) -> (r: &str)
    { unimplemented!() }
}
impl RsyncUri {
    #[verifier::external_body]
    pub fn module_name(&self) -> (r: &str)
    { unimplemented!() }
}
impl RsyncUri {
    #[verifier::external_body]
    pub fn module(&self) -> (r: &str)
    { unimplemented!() }
}
impl RsyncUri {
    #[verifier::external_body]
    pub fn path(&self) -> (r: &str)
    { unimplemented!() }
}
impl RsyncUri {
    #[verifier::external_body]
    pub fn path_is_dir(&self) -> (r: bool)
    { unimplemented!() }
}
impl RsyncUri {
    #[verifier::external_body]
    pub fn parent(&self) -> (r: Option<RsyncUri>)
    { unimplemented!() }
}
impl RsyncUri {
    #[verifier::external_body]
    pub fn is_parent_of(&self, other: &RsyncUri) -> (r: bool)
    { unimplemented!() }
}
impl RsyncUri {
    #[verifier::external_body]
    pub fn has_dubious_authority(&self) -> (r: bool)
    { unimplemented!() }
}
impl HttpsUri {
    #[verifier::external_body]
    pub fn as_str(&self) -> (r: &str)
    { unimplemented!() }
}
impl HttpsUri {
    #[verifier::external_body]
    pub fn authority(&self) -> (r: &str)
    { unimplemented!() }
}
impl HttpsUri {
    #[verifier::external_body]
    pub fn path(&self) -> (r: &str)
    { unimplemented!() }
}
impl Clone for HttpsUri {
    #[verifier::external_body]
    fn clone(&self) -> (r: HttpsUri) ensures r == *self { unimplemented!() }
}
impl Bytes {
    #[verifier::external_body]
    pub fn new() -> (r: Bytes)
    { unimplemented!() }
}
impl Validity {
    #[verifier::external_body]
    pub fn new(not_before: Time, not_after: Time) -> (r: Validity)
    { unimplemented!() }
}
impl Time {
    #[verifier::external_body]
    pub fn five_minutes_ago() -> (r: Time)
    { unimplemented!() }
}
impl Time {
    #[verifier::external_body]
    pub fn five_minutes_from_now() -> (r: Time)
    { unimplemented!() }
}
impl Time {
    #[verifier::external_body]
    pub fn tomorrow() -> (r: Time)
    { unimplemented!() }
}
impl Time {
    #[verifier::external_body]
    pub fn next_week() -> (r: Time)
    { unimplemented!() }
}
impl Time {
    #[verifier::external_body]
    pub fn next_year() -> (r: Time)
    { unimplemented!() }
}
impl Time {
    #[verifier::external_body]
    pub fn timestamp(&self) -> (r: i64)
    { unimplemented!() }
}
impl Time {
    #[verifier::external_body]
    pub fn to_binary_time(self) -> (r: i64)
    { unimplemented!() }
}
impl Clone for Serial {
    #[verifier::external_body]
    fn clone(&self) -> (r: Serial) ensures r == *self { unimplemented!() }
}
impl Copy for Serial {}
impl Clone for KeyIdentifier {
    #[verifier::external_body]
    fn clone(&self) -> (r: KeyIdentifier) ensures r == *self { unimplemented!() }
}
impl Copy for KeyIdentifier {}
impl Clone for Asn {
    #[verifier::external_body]
    fn clone(&self) -> (r: Asn) ensures r == *self { unimplemented!() }
}
impl Copy for Asn {}
impl PublicKey {
    #[verifier::external_body]
    pub fn allow_rpki_cert(&self) -> (r: bool)
    { unimplemented!() }
}
impl PublicKey {
    #[verifier::external_body]
    pub fn allow_router_cert(&self) -> (r: bool)
    { unimplemented!() }
}
impl PublicKey {
    #[verifier::external_body]
    pub fn key_identifier(&self) -> (r: KeyIdentifier)
    { unimplemented!() }
}
impl PublicKey {
    #[verifier::external_body]
    pub fn to_info_bytes(&self) -> (r: Bytes)
    { unimplemented!() }
}
impl PublicKey {
    #[verifier::external_body]
    pub fn bits_bytes(&self) -> (r: Bytes)
    { unimplemented!() }
}
impl AsResources {
    #[verifier::external_body]
    pub fn is_inherited(&self) -> (r: bool)
    { unimplemented!() }
}
impl AsResources {
    #[verifier::external_body]
    pub fn is_present(&self) -> (r: bool)
    { unimplemented!() }
}
impl IpResources {
    #[verifier::external_body]
    pub fn is_inherited(&self) -> (r: bool)
    { unimplemented!() }
}
impl IpResources {
    #[verifier::external_body]
    pub fn is_present(&self) -> (r: bool)
    { unimplemented!() }
}
impl AsBlocks {
    #[verifier::external_body]
    pub fn is_empty(&self) -> (r: bool)
    { unimplemented!() }
}
impl IpBlocks {
    #[verifier::external_body]
    pub fn is_empty(&self) -> (r: bool)
    { unimplemented!() }
}
impl PublicationMetrics {
    #[verifier::external_body]
    pub fn stale_objects(&self) -> (r: u32)
    { unimplemented!() }
}
impl RunMetrics {
    #[verifier::external_body]
    pub fn fork(&self) -> (r: RunMetrics)
    { unimplemented!() }
}
impl RunMetrics {
    #[verifier::external_body]
    fn repository_index(&self, cert: &CaCert) -> (r: usize)
    { unimplemented!() }
}
impl RunMetrics {
    #[verifier::external_body]
    fn apply(&mut self, metrics: &PublicationMetrics, repository_index: usize, tal_index: usize)
    { unimplemented!() }
}
impl LogBookWriter {
    #[verifier::external_body]
    pub fn new(process_prefix: Option<String>) -> (r: LogBookWriter)
    { unimplemented!() }
}
impl LogBookWriter {
    #[verifier::external_body]
    pub fn trace(&mut self, args: FmtArgs)
    { unimplemented!() }
}
impl LogBookWriter {
    #[verifier::external_body]
    pub fn debug(&mut self, args: FmtArgs)
    { unimplemented!() }
}
impl LogBookWriter {
    #[verifier::external_body]
    pub fn info(&mut self, args: FmtArgs)
    { unimplemented!() }
}
impl LogBookWriter {
    #[verifier::external_body]
    pub fn append(&mut self, other: LogBookWriter)
    { unimplemented!() }
}
impl LogBookWriter {
    #[verifier::external_body]
    pub fn sort(&mut self)
    { unimplemented!() }
}
impl<'a> CollRepository<'a> {
    #[verifier::external_body]
    pub fn is_rrdp(&self) -> (r: bool)
    { unimplemented!() }
}
impl<'a> StoreRun<'a> {
    #[verifier::external_body]
    fn update_ta(&self, uri: &TalUri, content: &Bytes) -> (r: Result<(), Failed>)
    { unimplemented!() }
}
impl ParseError {
    #[verifier::external_body]
    pub fn is_eof(&self) -> (r: bool)
    { unimplemented!() }
}
