//@ fn RunFailed::from_failed
//@ params
_failed: Failed
//@ fn CaCert::cert
//@ spec
    ensures *res == self.cert,
//@ fn CaCert::ca_repository
//@ spec
    ensures *res == self.ca_repository,
//@ fn CaCert::rpki_manifest
//@ spec
    ensures *res == self.rpki_manifest,
//@ fn CaCert::new
//@ spec
    ensures
        res is Ok <==> cert.ca_repository_spec() is Some && cert.rpki_manifest_spec() is Some,
        res matches Ok(c) ==> *c == (CaCert {
            cert, uri, ca_repository: *cert.ca_repository_spec()->Some_0,
            rpki_manifest: *cert.rpki_manifest_spec()->Some_0, parent, chain_len, tal }),
//@ fn CaCert::chain
//@ spec
    ensures
        res is Ok <==> issuer.chain_len + 1 <= max_depth
            && cert.ca_repository_spec() is Some && cert.rpki_manifest_spec() is Some,
        // C01: the child is chained to exactly this issuer
        res matches Ok(c) ==> *c == chained(*issuer, uri, cert),
//@ fn ValidPointManifest::check_crl
//@ spec
    ensures
        // C01: Ok exactly when the certificate names this manifest's CRL and is not on it
        res is Ok <==> self.crl_accepts(cert),
//@ fn PubPoint::process_roa
//@ spec
    ensures
        final(self).same_ctx(old(self)), final(manifest).same_core(old(manifest)),
        // C41: an object-level fault is never an error
        P::PubPoint::infallible() ==> res is Ok,
        // C01 + C02: the processor receives exactly the route origin attestation of a ROA that decodes,
        // validates under this CA and is accepted by this manifest's CRL - and nothing otherwise
        res is Ok ==> final(self).processor.log() == old(self).processor.log()
            + roa_contrib(content, &**old(self).cert, old(manifest), old(self).run.validation.strict),
        // C01 typestate of what was added
        res is Ok ==> new_items_ok(old(self).processor.log(), final(self).processor.log(), &**old(self).cert, old(manifest)),
//@ closure 1
|cert: &Cert| -> (r: Result<(), ValidationError>) ensures r is Ok <==> manifest.crl_accepts(cert)
//@ fn PubPoint::process_aspa
//@ spec
    ensures
        final(self).same_ctx(old(self)), final(manifest).same_core(old(manifest)),
        P::PubPoint::infallible() ==> res is Ok,
        // C01 + C02
        res is Ok ==> final(self).processor.log() == old(self).processor.log()
            + aspa_contrib(content, &**old(self).cert, old(manifest), old(self).run.validation.strict),
        res is Ok ==> new_items_ok(old(self).processor.log(), final(self).processor.log(), &**old(self).cert, old(manifest)),
//@ closure 1
|cert: &Cert| -> (r: Result<(), ValidationError>) ensures r is Ok <==> manifest.crl_accepts(cert)
//@ fn PubPoint::process_gbr
//@ spec
    ensures
        final(self).same_ctx(old(self)), final(manifest).same_core(old(manifest)),
        P::PubPoint::infallible() ==> res is Ok,
        res is Ok ==> final(self).processor.log() == old(self).processor.log()
            + gbr_contrib(content, &**old(self).cert, old(manifest), old(self).run.validation.strict),
        res is Ok ==> new_items_ok(old(self).processor.log(), final(self).processor.log(), &**old(self).cert, old(manifest)),
//@ closure 1
|cert: &Cert| -> (r: Result<(), ValidationError>) ensures r is Ok <==> manifest.crl_accepts(cert)
//@ fn PubPoint::process_router_cert
//@ spec
    ensures
        final(self).same_ctx(old(self)), final(manifest).same_core(old(manifest)),
        P::PubPoint::infallible() ==> res is Ok,
        // C01 + C02
        res is Ok ==> final(self).processor.log() == old(self).processor.log()
            + router_contrib(cert, &**old(self).cert, old(manifest), old(self).run.validation.strict),
        res is Ok ==> new_items_ok(old(self).processor.log(), final(self).processor.log(), &**old(self).cert, old(manifest)),
//@ fn PubPoint::process_ca_cer
//@ spec
    ensures
        final(self).same_ctx(old(self)), final(manifest).same_core(old(manifest)),
        P::PubPoint::infallible() ==> res is Ok,
        // a CA certificate contributes no payload itself
        final(self).processor.log() == old(self).processor.log(),
        // C01: at most one task is appended, for a child validated under this CA, accepted by the CRL,
        // loop free, within the depth limit, with a fresh processor
        res is Ok ==> ca_tasks_step(old(ca_task)@, final(ca_task)@, *old(self).cert, old(manifest), old(self).run.validation.max_ca_depth),
        // C02: a CA certificate passing all checks yields exactly one task unless the processor declines it
        res is Ok && ca_cer_ok(cert, *old(self).cert, old(manifest), old(self).run.validation.strict, old(self).run.validation.max_ca_depth)
            && old(self).processor.accepts_ca(uri, &chained(*old(self).cert, *uri,
                    cert.ca_validates(&old(self).cert.cert, old(self).run.validation.strict)->Some_0))
            ==> final(ca_task)@.len() == old(ca_task)@.len() + 1,
        // C01: and none otherwise
        res is Ok && !ca_cer_ok(cert, *old(self).cert, old(manifest), old(self).run.validation.strict, old(self).run.validation.max_ca_depth)
            ==> final(ca_task)@ == old(ca_task)@,
//@ fn PubPoint::process_cer
//@ spec
    ensures
        final(self).same_ctx(old(self)), final(manifest).same_core(old(manifest)),
        P::PubPoint::infallible() ==> res is Ok,
        res is Ok ==> final(self).processor.log() == old(self).processor.log()
            + cer_contrib(content, &**old(self).cert, old(manifest), old(self).run.validation.strict),
        res is Ok ==> new_items_ok(old(self).processor.log(), final(self).processor.log(), &**old(self).cert, old(manifest)),
        res is Ok ==> ca_tasks_step(old(ca_task)@, final(ca_task)@, *old(self).cert, old(manifest), old(self).run.validation.max_ca_depth),
//@ fn PubPoint::process_object
//@ spec
    ensures
        final(self).same_ctx(old(self)), final(manifest).same_core(old(manifest)),
        // C02/C41: a fault in one object never rejects the publication point and is never an error
        res matches Ok(keep) ==> keep,
        P::PubPoint::infallible() ==> res is Ok,
        // C01 + C02: exactly the payload of this object, if it passes all checks
        res is Ok ==> final(self).processor.log() == old(self).processor.log()
            + object_contrib(old(self).processor.wants(uri), uri, content, &**old(self).cert, old(manifest), old(self).run.validation.strict),
        res is Ok ==> new_items_ok(old(self).processor.log(), final(self).processor.log(), &**old(self).cert, old(manifest)),
        res is Ok ==> ca_tasks_step(old(ca_task)@, final(ca_task)@, *old(self).cert, old(manifest), old(self).run.validation.max_ca_depth),
//@ fn ValidPointManifest::point_validity
//@ spec
    ensures final(processor).log() == old(processor).log(),
//@ fn PubPoint::validate_stored_manifest
//@ spec
    ensures
        final(self).run == old(self).run, final(self).cert == old(self).cert,
        final(self).repository_index == old(self).repository_index,
        final(self).processor == old(self).processor,
        // C01: the stored manifest is used only if it validates under this CA, its CRL is signed by this
        // CA's key and does not revoke the manifest's EE certificate
        res matches Ok(m) ==> mft_ok(&m, &**old(self).cert)
            && m.manifest_bytes == stored_manifest.manifest && m.crl_bytes == stored_manifest.crl,
//@ fn PubPoint::accept_point
//@ spec
    requires
        // C01/C03: what is committed was validated under this CA against this one manifest
        mft_ok(&manifest, &**self.cert),
        all_ok(self.processor.log(), &**self.cert, &manifest),
//@ fn PubPoint::reject_point
//@ spec
//@ fn PubPoint::process_stored
//@ spec
    requires
        // C03: the stored object set is processed by a processor that holds nothing yet
        self.processor.log() == Seq::<Item>::empty(),
    ensures
        // C41: manifest- and object-level faults reject the point, they are not errors
        P::PubPoint::infallible() && !stored_read_fatal(store) ==> res is Ok,
        // C41: (the same, in terms of the run-wide I/O failure flag)
        P::PubPoint::infallible() && !io_failure() ==> res is Ok,
        // C01: every child task returned is for a CA validated under this one
        res matches Ok(tasks) ==> forall|i: int| 0 <= i < tasks@.len() ==>
            child_ok(#[trigger] tasks@[i], *self.cert, self.run.validation.max_ca_depth),
//@ loop 1
            invariant
                self_.run == self.run, self_.cert == self.cert,
                store_.manifest_spec() == store.manifest_spec(),
                stored_read_fatal(store_) == stored_read_fatal(store),
                manifest.same_core(&manifest0), mft_ok(&manifest0, &**self.cert),
                // C01/C03: everything collected so far was validated under this CA against this manifest
                all_ok(self_.processor.log(), &**self.cert, &manifest0),
                forall|i: int| 0 <= i < ca_tasks@.len() ==>
                    task_ok(#[trigger] ca_tasks@[i], *self.cert, &manifest0, self.run.validation.max_ca_depth),
            decreases store_.pending(),
//@ beforeloop 1
        let ghost manifest0 = manifest;
//@ fn UpdateError::from_run_failed
//@ fn UpdateError::from_failed
//@ params
_failed: Failed
//@ fn StoredObject::new
//@ spec
    ensures res.uri == uri && res.content == content && res.hash == hash,
//@ fn PubPoint::process_collected_object
//@ spec
    requires
        gen_inv(old(self), old(collected), old(ca_tasks)@, old(self), old(collected)),
        items_listed((*old(items)).remaining(), old(collected)),
        (*old(items)).obeys_prophetic_iter_laws(),
    ensures
        // C01/C03: the generator invariant: everything fed to the processor so far was validated
        // under this CA against this one manifest; the child tasks likewise
        res is Ok ==> gen_inv(final(self), final(collected), final(ca_tasks)@, old(self), old(collected)),
        items_listed((*final(items)).remaining(), old(collected)),
        (*final(items)).obeys_prophetic_iter_laws(),
        // C02/C41: an object-level fault never makes the point unacceptable
        *final(point_ok) == *old(point_ok),
        // C41 frame
        final(self).same_ctx(old(self)),
        // C01: an object is handed on (and stored) only when it is listed on this manifest with a
        // matching hash
        res matches Ok(Some(obj)) ==> object_listed(obj.uri, obj.content, old(collected), &**old(self).cert),
        // C03 + C04: the generator walks the manifest's item list one entry per call and never skips or
        // truncates it: "end of objects" (Ok(None)) is reported only when every listed entry has been
        // consumed ...
        res matches Ok(None) ==> (*old(items)).remaining().len() == 0,
        // C03 + C04: ... and an object is yielded for exactly the next entry of the list (its URI is the
        // CA repository joined with that entry's file name, its bytes match that entry's hash), which
        // is then the only entry consumed. Every other outcome is an error (abandon / fail).
        res matches Ok(Some(obj)) ==> (*old(items)).remaining().len() > 0
            && (*final(items)).remaining() == (*old(items)).remaining().skip(1)
            && object_for(obj.uri, obj.content, (*old(items)).remaining()[0], old(collected), &**old(self).cert),
        // C41: the update is abandoned (not failed) for a missing or mismatching file
        res matches Err(UpdateError::Failed(_)) ==> !P::PubPoint::infallible() || io_failure(),
//@ fn PubPoint::process_collected
//@ spec
    requires
        // C03
        self.processor.log() == Seq::<Item>::empty(),
    ensures
        res matches Ok(Err(this)) ==> this.run == self.run && this.cert == self.cert,
        // C41: whatever the repository serves (missing, corrupt, stale, mismatching objects) the result is
        // a list of child tasks or the fallback to the stored point, never an error
        P::PubPoint::infallible() && !io_failure() ==> res is Ok,
        // C01: child tasks are for CAs validated under this one
        res matches Ok(Ok(tasks)) ==> forall|i: int| 0 <= i < tasks@.len() ==>
            child_ok(#[trigger] tasks@[i], *self.cert, self.run.validation.max_ca_depth),
//@ closureopaque 1 &mut self_, &mut items, &mut collected, &collector, &mut ca_tasks, &mut point_ok
//@ fn PubPoint::process
//@ spec
    requires
        // C03 (paper step: process_ca_task hands over the fresh processor of process_ta / process_ca)
        self.processor.log() == Seq::<Item>::empty(),
    ensures
        // C41: a publication point never fails the run because of what a repository contains: Err arises
        // only from the processor, from fatal store / collector I/O, or from the initial-run shortcut
        P::PubPoint::infallible() && !io_failure() && !self.run.initial ==> res is Ok,
        // C41: the same for a CA whose manifest URI maps to a usable store path (this weaker clause holds
        // on the tree on which the clause above is a recorded finding, and keeps guarding every other exit)
        P::PubPoint::infallible() && !io_failure() && !self.run.initial && !path_unusable(&**self.cert)
            ==> res is Ok,
        // C01: child tasks are for CAs validated under this one
        res matches Ok(tasks) ==> forall|i: int| 0 <= i < tasks@.len() ==>
            child_ok(#[trigger] tasks@[i], *self.cert, self.run.validation.max_ca_depth),
//@ global
impl vstd::std_specs::convert::FromSpecImpl<Failed> for UpdateError {
    open spec fn obeys_from_spec() -> bool { false }
    uninterp spec fn from_spec(v: Failed) -> UpdateError;
}
impl vstd::std_specs::convert::FromSpecImpl<RunFailed> for UpdateError {
    open spec fn obeys_from_spec() -> bool { false }
    uninterp spec fn from_spec(v: RunFailed) -> UpdateError;
}
impl vstd::std_specs::convert::FromSpecImpl<Failed> for RunFailed {
    open spec fn obeys_from_spec() -> bool { false }
    uninterp spec fn from_spec(v: Failed) -> RunFailed;
}

impl ValidPointManifest {
    // C01 "not revoked by the manifest CRL": names this manifest's CRL and its serial is not on it
    spec fn crl_accepts(&self, cert: &Cert) -> bool {
        cert.crl_uri_spec() matches Some(u) && *u == self.crl_uri && !self.crl.contains_spec(cert.serial_spec())
    }
    // everything except the metrics
    spec fn same_core(&self, o: &ValidPointManifest) -> bool {
        self.ee_cert == o.ee_cert && self.content == o.content && self.crl_uri == o.crl_uri
        && self.crl == o.crl && self.manifest_bytes == o.manifest_bytes && self.crl_bytes == o.crl_bytes
    }
}

impl<'a, P: ProcessRun> PubPoint<'a, P> {
    // C41 frame: processing an object touches nothing of the point but its processor (and log book)
    spec fn same_ctx(&self, o: &PubPoint<'a, P>) -> bool {
        self.run == o.run && self.cert == o.cert && self.repository_index == o.repository_index
        && self.metrics == o.metrics
    }
}

spec fn chained(issuer: Arc<CaCert>, uri: RsyncUri, cert: ResourceCert) -> CaCert {
    CaCert {
        cert, uri: TalUri::Rsync(uri),
        ca_repository: *cert.ca_repository_spec()->Some_0,
        rpki_manifest: *cert.rpki_manifest_spec()->Some_0,
        parent: Some(issuer), chain_len: (issuer.chain_len + 1) as usize, tal: issuer.tal,
    }
}

// C01: a logged payload item is backed by a validation under this CA and this manifest's CRL
spec fn item_ok(it: Item, ca: &CaCert, m: &ValidPointManifest) -> bool {
    match it {
        Item::Roa(c, _) => valid_ee(c, ca.cert) && m.crl_accepts(&c.cert_spec()),
        Item::Aspa(c, _) => valid_ee(c, ca.cert) && m.crl_accepts(&c.cert_spec()),
        Item::Gbr(c, _) => valid_ee(c, ca.cert) && m.crl_accepts(&c.cert_spec()),
        Item::Router(c) => valid_router(c, ca.cert) && m.crl_accepts(&c),
    }
}

spec fn new_items_ok(old_log: Seq<Item>, new_log: Seq<Item>, ca: &CaCert, m: &ValidPointManifest) -> bool {
    &&& old_log.len() <= new_log.len()
    &&& forall|i: int| 0 <= i < old_log.len() ==> new_log[i] == old_log[i]
    &&& forall|i: int| old_log.len() <= i < new_log.len() ==> item_ok(#[trigger] new_log[i], ca, m)
}

// C01: a child CA task is backed by validate_ca under this CA, the CRL, the loop and depth checks
spec fn task_ok<T: ProcessPubPoint>(t: CaTask<T>, ca: Arc<CaCert>, m: &ValidPointManifest, max_depth: usize) -> bool {
    &&& t.cert.parent == Some(ca)
    &&& valid_ca(t.cert.cert, ca.cert)
    &&& m.crl_accepts(&t.cert.cert.cert_spec())
    &&& ca.loop_free(&t.cert.cert.cert_spec())
    &&& t.cert.chain_len <= max_depth
    &&& t.cert.tal == ca.tal
    &&& t.processor.log() == Seq::<Item>::empty()
}

spec fn ca_tasks_step<T: ProcessPubPoint>(o: Seq<CaTask<T>>, n: Seq<CaTask<T>>, ca: Arc<CaCert>,
                                          m: &ValidPointManifest, max_depth: usize) -> bool {
    ||| n == o
    ||| (n.len() == o.len() + 1 && (forall|i: int| 0 <= i < o.len() ==> n[i] == o[i])
         && task_ok(n[o.len() as int], ca, m, max_depth))
}

spec fn ca_cer_ok(cert: Cert, ca: Arc<CaCert>, m: &ValidPointManifest, strict: bool, max_depth: usize) -> bool {
    &&& ca.loop_free(&cert)
    &&& cert.ca_validates(&ca.cert, strict) matches Some(rc)
        && rc.ca_repository_spec() is Some && rc.rpki_manifest_spec() is Some
    &&& m.crl_accepts(&cert)
    &&& ca.chain_len + 1 <= max_depth
}

// ---- what each object kind contributes (written from the property's list of checks)
spec fn roa_contrib(content: Bytes, ca: &CaCert, m: &ValidPointManifest, strict: bool) -> Seq<Item> {
    match roa_decode(content, strict) {
        Some(roa) => match roa.validates(&ca.cert, strict) {
            Some(c) => if m.crl_accepts(&roa.ee_spec()) { seq![Item::Roa(c, roa.content_spec())] } else { Seq::empty() },
            None => Seq::empty(),
        },
        None => Seq::empty(),
    }
}
spec fn aspa_contrib(content: Bytes, ca: &CaCert, m: &ValidPointManifest, strict: bool) -> Seq<Item> {
    match aspa_decode(content, strict) {
        Some(o) => match o.validates(&ca.cert, strict) {
            Some(c) => if m.crl_accepts(&o.ee_spec()) { seq![Item::Aspa(c, o.content_spec())] } else { Seq::empty() },
            None => Seq::empty(),
        },
        None => Seq::empty(),
    }
}
spec fn gbr_contrib(content: Bytes, ca: &CaCert, m: &ValidPointManifest, strict: bool) -> Seq<Item> {
    match sigobj_decode(content, strict) {
        Some(o) => match o.validates(&ca.cert, strict) {
            Some(c) => if m.crl_accepts(&o.ee_spec()) { seq![Item::Gbr(c, o.content_spec())] } else { Seq::empty() },
            None => Seq::empty(),
        },
        None => Seq::empty(),
    }
}
spec fn router_contrib(cert: Cert, ca: &CaCert, m: &ValidPointManifest, strict: bool) -> Seq<Item> {
    if cert.router_validates(&ca.cert, strict) && m.crl_accepts(&cert) { seq![Item::Router(cert)] } else { Seq::empty() }
}
spec fn cer_contrib(content: Bytes, ca: &CaCert, m: &ValidPointManifest, strict: bool) -> Seq<Item> {
    match cert_decode(content) {
        Some(cert) => if cert.key_usage_spec() == KeyUsage::Ca { Seq::empty() } else { router_contrib(cert, ca, m, strict) },
        None => Seq::empty(),
    }
}
spec fn object_contrib(wanted: bool, uri: &RsyncUri, content: Bytes, ca: &CaCert, m: &ValidPointManifest, strict: bool) -> Seq<Item> {
    if !wanted { Seq::empty() }
    else if uri.ends_with_spec(".cer") { cer_contrib(content, ca, m, strict) }
    else if uri.ends_with_spec(".roa") { roa_contrib(content, ca, m, strict) }
    else if uri.ends_with_spec(".asa") { aspa_contrib(content, ca, m, strict) }
    else if uri.ends_with_spec(".gbr") { gbr_contrib(content, ca, m, strict) }
    else { Seq::empty() }
}

// C01: "listed on a current, valid manifest of its CA" - the manifest part
spec fn mft_ok(m: &ValidPointManifest, ca: &CaCert) -> bool {
    &&& valid_mft(m.ee_cert, m.content, ca.cert)
    &&& crl_signed_by(m.crl, ca.cert.cert_spec().spki_spec())
    &&& !m.crl.contains_spec(m.ee_cert.cert_spec().serial_spec())
}

spec fn all_ok(log: Seq<Item>, ca: &CaCert, m: &ValidPointManifest) -> bool {
    forall|i: int| 0 <= i < log.len() ==> item_ok(#[trigger] log[i], ca, m)
}

// what a caller of process_stored / process_collected learns about a returned child task
spec fn child_ok<T: ProcessPubPoint>(t: CaTask<T>, ca: Arc<CaCert>, max_depth: usize) -> bool {
    &&& t.cert.parent == Some(ca)
    &&& valid_ca(t.cert.cert, ca.cert)
    &&& ca.loop_free(&t.cert.cert.cert_spec())
    &&& t.cert.chain_len <= max_depth
    &&& t.cert.tal == ca.tal
    &&& t.processor.log() == Seq::<Item>::empty()
}

// The invariant of the object generator of process_collected (relative to the point `p0` and the
// validated manifest `m0` at the time the update starts).
spec fn gen_inv<'a, P: ProcessRun>(p: &PubPoint<'a, P>, m: &ValidPointManifest, tasks: Seq<CaTask<P::PubPoint>>,
                                   p0: &PubPoint<'a, P>, m0: &ValidPointManifest) -> bool {
    &&& p.same_ctx(p0)
    &&& m.same_core(m0)
    &&& mft_ok(m0, &**p0.cert)
    &&& all_ok(p.processor.log(), &**p0.cert, m0)
    &&& forall|i: int| 0 <= i < tasks.len() ==>
            task_ok(#[trigger] tasks[i], *p0.cert, m0, p0.run.validation.max_ca_depth)
}

spec fn items_listed(items: Seq<MftItem>, m: &ValidPointManifest) -> bool {
    forall|i: int| 0 <= i < items.len() ==> m.content.lists(#[trigger] items[i])
}

// C03 + C04: the object (uri, content) is the one the manifest entry `item` names
spec fn object_for(uri: RsyncUri, content: Bytes, item: MftItem, m: &ValidPointManifest, ca: &CaCert) -> bool {
    uri == join_spec(ca.ca_repository, item.file_spec())
    && hash_ok(item.hash_spec(), m.content.alg_spec(), content)
}

// C01: "listed with a matching hash on the manifest"
spec fn object_listed(uri: RsyncUri, content: Bytes, m: &ValidPointManifest, ca: &CaCert) -> bool {
    exists|item: MftItem| #[trigger] m.content.lists(item)
        && uri == join_spec(ca.ca_repository, item.file_spec())
        && hash_ok(item.hash_spec(), m.content.alg_spec(), content)
}
