//@ fn RtrPerAddrMetrics::get
//@ spec
    requires writer_mutex(&self.addrs) == &self.write,
    ensures
        // C36: the metrics handed out for an address are the registry's (single) entry for that address
        has_entry(&self.addrs, addr, res),
        final(clk).now >= old(clk).now,
//@ entry
        broadcast use axiom_ip_key_injective;
        broadcast use axiom_pair_clone;
        broadcast use axiom_comparator_total;
//@ envcall into vec_into_arc new_addrs
//@ beforecall store 1
        // trigger term for the `exists .. is_insert(v, new@, k, new@[k])` precondition of ArcSwap::store (the
        // code need not index the new vector itself)
        let ghost __inserted = new_addrs@[idx as int];
//@ closure binary_search_by 1 optional
|x: &(IpAddr, Arc<RtrMetricsData>)| -> (r: Ordering) ensures r == ip_cmp(x.0, addr)
//@ closure binary_search_by 2 optional
|x: &(IpAddr, Arc<RtrMetricsData>)| -> (r: Ordering) ensures r == ip_cmp(x.0, addr)
