// Environment of unit `rtr_metrics` (C36).

#[verifier::external_body] pub struct RtrMetricsData { _opaque: () }
impl Default for RtrMetricsData {
    #[verifier::external_body] fn default() -> Self { unimplemented!() }
}
#[verifier::external_body] #[verifier::reject_recursive_types(T)] pub struct Mutex<T> { _t: T }
#[verifier::external_body] #[verifier::reject_recursive_types(T)] pub struct MutexGuard<'a, T> { _t: &'a T }
#[verifier::external_body] #[verifier::reject_recursive_types(T)] pub struct ArcSwap<T> { _t: T }

// std::net::IpAddr: a totally ordered value (Ord consistent with Eq) -- ASSUMED.
#[derive(Clone, Copy)]
#[verifier::external_body] pub struct IpAddr { _opaque: () }
pub uninterp spec fn ip_key(a: IpAddr) -> int;
pub broadcast axiom fn axiom_ip_key_injective(a: IpAddr, b: IpAddr)
    ensures #[trigger] ip_key(a) == #[trigger] ip_key(b) ==> a == b;
pub open spec fn ip_cmp(a: IpAddr, b: IpAddr) -> Ordering {
    if ip_key(a) < ip_key(b) { Ordering::Less } else if ip_key(a) == ip_key(b) { Ordering::Equal } else { Ordering::Greater }
}
impl PartialEqSpecImpl for IpAddr {
    open spec fn obeys_eq_spec() -> bool { true }
    open spec fn eq_spec(&self, other: &IpAddr) -> bool { ip_key(*self) == ip_key(*other) }
}
impl PartialEq for IpAddr { #[verifier::external_body] fn eq(&self, other: &Self) -> bool { unimplemented!() } }
impl Eq for IpAddr {}
impl PartialOrdSpecImpl for IpAddr {
    open spec fn obeys_partial_cmp_spec() -> bool { true }
    open spec fn partial_cmp_spec(&self, other: &IpAddr) -> Option<Ordering> { Some(ip_cmp(*self, *other)) }
}
impl PartialOrd for IpAddr { #[verifier::external_body] fn partial_cmp(&self, other: &IpAddr) -> Option<Ordering> { unimplemented!() } }
impl OrdSpecImpl for IpAddr {
    open spec fn obeys_cmp_spec() -> bool { true }
    open spec fn cmp_spec(&self, other: &IpAddr) -> Ordering { ip_cmp(*self, *other) }
}
impl Ord for IpAddr { #[verifier::external_body] fn cmp(&self, other: &IpAddr) -> Ordering { unimplemented!() } }

// ---- the registry: an ArcSwap holding the sorted list of (address, metrics) pairs, and the
// mutex that serialises writers.
// Ghost clock (rewrite R20): every load / store / lock of the call is one step; the step number
// is threaded through these calls as an erased argument, so their ORDER can be stated.
// `held`: the acquisition steps of the mutex guards this call holds: `lock` adds its step, an explicit
// `drop(guard)` removes it (end of scope: unit rtr_registry_hold).
pub tracked struct Clock { pub ghost now: nat, pub ghost held: Set<nat> }
// Ghost facts about this call (each produced only by the `ensures` of the operation named):
//   loaded_at(s, v, t)        load at step t returned the list v
//   lock_acquired_at(mx, t)   lock at step t acquired mx
//   has_entry(s, a, m)        the pair (a, m) is in the content of s; stable because the guarantee
//                             of `store` (below) never removes or replaces an entry
pub uninterp spec fn loaded_at(s: &ArcSwap<Vec<(IpAddr, Arc<RtrMetricsData>)>>, v: Seq<(IpAddr, Arc<RtrMetricsData>)>, t: nat) -> bool;
pub uninterp spec fn lock_acquired_at<T>(mx: &Mutex<T>, t: nat) -> bool;
pub uninterp spec fn has_entry(s: &ArcSwap<Vec<(IpAddr, Arc<RtrMetricsData>)>>, a: IpAddr, m: Arc<RtrMetricsData>) -> bool;
// the mutex that guards writes to this ArcSwap (a ghost link between the two fields)
pub uninterp spec fn writer_mutex(s: &ArcSwap<Vec<(IpAddr, Arc<RtrMetricsData>)>>) -> &Mutex<()>;

// I: the list is strictly sorted by address (hence no address twice)
pub open spec fn sorted_strict(v: Seq<(IpAddr, Arc<RtrMetricsData>)>) -> bool {
    forall|i: int, j: int| 0 <= i < j < v.len() ==> ip_key(#[trigger] v[i].0) < ip_key(#[trigger] v[j].0)
}
// n is v with the pair e inserted at position k; all pairs of v are kept as they are
pub open spec fn is_insert(v: Seq<(IpAddr, Arc<RtrMetricsData>)>, n: Seq<(IpAddr, Arc<RtrMetricsData>)>, k: int, e: (IpAddr, Arc<RtrMetricsData>)) -> bool {
    &&& 0 <= k <= v.len() && n.len() == v.len() + 1 && n[k] == e
    &&& forall|i: int| 0 <= i < k ==> #[trigger] n[i] == v[i]
    &&& forall|j: int| k < j < n.len() ==> #[trigger] n[j] == v[j - 1]
}

impl<'a, T> MutexGuard<'a, T> {
    pub uninterp spec fn mutex_spec(&self) -> &Mutex<T>;
    pub uninterp spec fn acquired_at(&self) -> nat;
}
impl<T> Mutex<T> {
    #[verifier::external_body]
    pub fn lock(&self, Tracked(clk): Tracked<&mut Clock>) -> (g: MutexGuard<'_, T>)
        ensures
            g.mutex_spec() == self, g.acquired_at() == old(clk).now,
            lock_acquired_at(self, old(clk).now),
            final(clk).now == old(clk).now + 1, final(clk).held == old(clk).held.insert(old(clk).now),
    { unimplemented!() }
}
impl ArcSwap<Vec<(IpAddr, Arc<RtrMetricsData>)>> {
    // arc_swap::ArcSwap::load: returns the current content (really a Guard that derefs to the
    // Arc; declared as the Arc here). Havoc on load: any list satisfying I and containing every
    // entry known to be present.
    #[verifier::external_body]
    pub fn load(&self, Tracked(clk): Tracked<&mut Clock>) -> (r: Arc<Vec<(IpAddr, Arc<RtrMetricsData>)>>)
        ensures
            sorted_strict(r@), loaded_at(self, r@, old(clk).now),
            final(clk).now == old(clk).now + 1, final(clk).held == old(clk).held,
            // an allocated Vec of 24-byte pairs is far shorter than usize::MAX
            r@.len() < usize::MAX,
            forall|i: int| 0 <= i < r@.len() ==> has_entry(self, (#[trigger] r@[i]).0, r@[i].1),
    { unimplemented!() }
    // arc_swap::ArcSwap::store. Guarantee conditions of the protocol:
    #[verifier::external_body]
    pub fn store(&self, new: Arc<Vec<(IpAddr, Arc<RtrMetricsData>)>>, Tracked(clk): Tracked<&mut Clock>)
        requires
            // C36: what is stored is sorted and duplicate free ...
            sorted_strict(new@),
            // C36: ... and is a list that was loaded AFTER this call acquired the write mutex (so no
            // other writer can have stored in between), plus exactly one pair: no address is lost or replaced
            exists|tl: nat, tv: nat, v: Seq<(IpAddr, Arc<RtrMetricsData>)>, k: int|
                #[trigger] lock_acquired_at(writer_mutex(self), tl) && #[trigger] loaded_at(self, v, tv)
                && tl < tv && tv < old(clk).now && is_insert(v, new@, k, #[trigger] new@[k])
                // ... and the mutex has not been released since
                && old(clk).held.contains(tl),
        ensures
            final(clk).now == old(clk).now + 1, final(clk).held == old(clk).held,
            forall|i: int| 0 <= i < new@.len() ==> has_entry(self, (#[trigger] new@[i]).0, new@[i].1),
    { unimplemented!() }
}

// ---- <[T]>::binary_search_by (std), ASSUMED, stated through the comparator's own contract.
// A comparator closure verified by Verus terminates and does not panic, so it has a result for
// every argument satisfying its `requires`; `result_of` names it (ASSUMED).
// Ok(i): the comparator answers Equal for element i. Err(i): if the comparator's answers are
// monotone along the slice (Less <= Equal <= Greater, i.e. the slice is sorted for it), i is the
// partition point: Less before i, Greater from i on.
pub open spec fn ord_rank(o: Ordering) -> int {
    match o { Ordering::Less => 0, Ordering::Equal => 1, Ordering::Greater => 2 }
}
pub uninterp spec fn result_of<T, F>(f: F, x: &T) -> Ordering;
pub broadcast axiom fn axiom_comparator_total<T, F: FnMut(&T) -> Ordering>(f: F, x: &T)
    ensures f.requires((x,)) ==> f.ensures((x,), #[trigger] result_of(f, x));
pub assume_specification<'a, T, F> [ <[T]>::binary_search_by ] (s: &'a [T], f: F) -> (r: Result<usize, usize>)
    where F: FnMut(&'a T) -> Ordering,
    ensures
        r matches Ok(i) ==> i < s@.len() && f.ensures((&s@[i as int],), Ordering::Equal),
        r matches Err(i) ==> i <= s@.len(),
        (forall|j: int, k: int| 0 <= j < k < s@.len() ==> ord_rank(#[trigger] result_of(f, &s@[j])) <= ord_rank(#[trigger] result_of(f, &s@[k])))
        ==> (r matches Err(i) ==>
                (forall|j: int| 0 <= j < i ==> result_of(f, &#[trigger] s@[j]) == Ordering::Less)
             && (forall|j: int| i <= j < s@.len() ==> result_of(f, &#[trigger] s@[j]) == Ordering::Greater)),
;

// Clone of a pair (IpAddr is Copy, Arc::clone yields the same Arc): the same pair. ASSUMED
// (Verus has no specification for the built-in tuple Clone).
pub broadcast axiom fn axiom_pair_clone(a: (IpAddr, Arc<RtrMetricsData>), b: (IpAddr, Arc<RtrMetricsData>))
    ensures #[trigger] cloned(a, b) ==> a == b;

// `Vec<T>::into()` for Arc<Vec<T>> (std `From<T> for Arc<T>`): moves the vector into a new Arc.
#[verifier::external_body]
pub fn vec_into_arc<T>(v: Vec<T>) -> (r: Arc<Vec<T>>) ensures r@ == v@ { unimplemented!() }

// ---- std functions without a vstd specification (ASSUMED; their std definitions). Declared so
// that a change of the code to one of these combinators is verified instead of rejected.
pub assume_specification<T: Ord + core::marker::Destruct> [std::cmp::max] (a: T, b: T) -> (r: T)
    ensures <T as vstd::std_specs::cmp::OrdSpec>::obeys_cmp_spec() ==> r == (if vstd::std_specs::cmp::OrdSpec::cmp_spec(&a, &b) == std::cmp::Ordering::Greater { a } else { b });
pub assume_specification<T: Ord + core::marker::Destruct> [std::cmp::min] (a: T, b: T) -> (r: T)
    ensures <T as vstd::std_specs::cmp::OrdSpec>::obeys_cmp_spec() ==> r == (if vstd::std_specs::cmp::OrdSpec::cmp_spec(&a, &b) == std::cmp::Ordering::Greater { b } else { a });
pub assume_specification<T> [bool::then_some] (b: bool, t: T) -> (r: Option<T>)
    ensures r == (if b { Some(t) } else { None::<T> });
pub assume_specification<T, U> [Option::<T>::and] (a: Option<T>, b: Option<U>) -> (r: Option<U>)
    ensures r == (if a is Some { b } else { None::<U> });
pub assume_specification<T> [Option::<T>::or] (a: Option<T>, b: Option<T>) -> (r: Option<T>)
    ensures r == (if a is Some { a } else { b });
pub assume_specification<T> [Option::<T>::xor] (a: Option<T>, b: Option<T>) -> (r: Option<T>)
    ensures r == (if a is Some && b is None { a } else if a is None && b is Some { b } else { None::<T> });
pub assume_specification<T, U> [Option::<T>::zip] (a: Option<T>, b: Option<U>) -> (r: Option<(T, U)>)
    ensures r == (if a is Some && b is Some { Some((a->Some_0, b->Some_0)) } else { None::<(T, U)> });
pub assume_specification<T> [Option::<T>::replace] (a: &mut Option<T>, v: T) -> (r: Option<T>)
    ensures r == *old(a), *final(a) == Some(v);
pub assume_specification<T, F: FnOnce(T) -> bool> [Option::<T>::is_some_and] (a: Option<T>, f: F) -> (r: bool)
    requires a is Some ==> f.requires((a->Some_0,)),
    ensures a is None ==> !r, a is Some ==> f.ensures((a->Some_0,), r);
pub assume_specification<T, U, F: FnOnce(T) -> U> [Option::<T>::map_or] (a: Option<T>, default: U, f: F) -> (r: U)
    requires a is Some ==> f.requires((a->Some_0,)),
    ensures a is None ==> r == default, a is Some ==> f.ensures((a->Some_0,), r);
pub assume_specification<T, P: FnOnce(&T) -> bool> [Option::<T>::filter] (a: Option<T>, p: P) -> (r: Option<T>)
    requires a is Some ==> p.requires((&a->Some_0,)),
    ensures a is None ==> r is None, r is Some ==> r == a,
            a is Some ==> (p.ensures((&a->Some_0,), true) ==> r == a) && (p.ensures((&a->Some_0,), false) ==> r is None),
        // the predicate returned SOME boolean for the element, and the result follows it
        a is Some ==> exists|__b: bool| p.ensures((&a->Some_0,), __b) && r == (if __b { a } else { None::<T> });
pub assume_specification<T, E, U, F: FnOnce(T) -> Result<U, E>> [Result::<T, E>::and_then] (a: Result<T, E>, f: F) -> (r: Result<U, E>)
    requires a is Ok ==> f.requires((a->Ok_0,)),
    ensures a is Err ==> r == Err::<U, E>(a->Err_0), a is Ok ==> f.ensures((a->Ok_0,), r);
pub assume_specification<T, E, U> [Result::<T, E>::and] (a: Result<T, E>, b: Result<U, E>) -> (r: Result<U, E>)
    ensures r == (if a is Ok { b } else { Err::<U, E>(a->Err_0) });
pub assume_specification<T, E, F> [Result::<T, E>::or] (a: Result<T, E>, b: Result<T, F>) -> (r: Result<T, F>)
    ensures r == (if a is Ok { Ok::<T, F>(a->Ok_0) } else { b });
pub assume_specification<T, E, F: FnOnce(T) -> bool> [Result::<T, E>::is_ok_and] (a: Result<T, E>, f: F) -> (r: bool)
    requires a is Ok ==> f.requires((a->Ok_0,)),
    ensures a is Err ==> !r, a is Ok ==> f.ensures((a->Ok_0,), r);
pub assume_specification<T, E> [Result::<T, E>::unwrap_or] (a: Result<T, E>, default: T) -> (r: T)
    ensures r == (if a is Ok { a->Ok_0 } else { default });
pub assume_specification<T, E, F: FnOnce(E) -> T> [Result::<T, E>::unwrap_or_else] (a: Result<T, E>, f: F) -> (r: T)
    requires a is Err ==> f.requires((a->Err_0,)),
    ensures a is Ok ==> r == a->Ok_0, a is Err ==> f.ensures((a->Err_0,), r);

// std::mem::drop applied to a mutex guard: releases the mutex -- a clocked event (rule R20, "drop" in
// clock_calls). Shadows the prelude's `drop` inside the generated module.
#[verifier::external_body]
pub fn drop<'a, T>(g: MutexGuard<'a, T>, Tracked(clk): Tracked<&mut Clock>)
    ensures final(clk).now == old(clk).now + 1, final(clk).held == old(clk).held.remove(g.acquired_at()),
{ unimplemented!() }
