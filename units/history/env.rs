// Environment of unit `history`.
// rpki::rtr::Serial: a transparent u32 newtype (pub field in rpki). The
// contracts of its comparison operators and `add` are ASSUMED here and
// DISCHARGED against the real rpki code by Kani harnesses
// (payload::history::kani_verif::serial_*), over all u32 x u32.

#[derive(Clone, Copy)]
pub struct Serial(pub u32);

pub open spec fn serial_cmp(a: u32, b: u32) -> Option<Ordering> {
    if a == b { Some(Ordering::Equal) }
    else if a < b {
        if b - a < 0x8000_0000 { Some(Ordering::Less) }
        else if b - a > 0x8000_0000 { Some(Ordering::Greater) }
        else { None }
    } else {
        if a - b < 0x8000_0000 { Some(Ordering::Greater) }
        else if a - b > 0x8000_0000 { Some(Ordering::Less) }
        else { None }
    }
}

pub open spec fn wadd(a: u32, b: int) -> u32 { ((a as int + b) % 0x1_0000_0000) as u32 }
pub open spec fn wsub(a: u32, b: u32) -> u32 { ((a as int - b as int) % 0x1_0000_0000) as u32 }

impl PartialEqSpecImpl for Serial {
    open spec fn obeys_eq_spec() -> bool { true }
    open spec fn eq_spec(&self, other: &Serial) -> bool { self.0 == other.0 }
}
impl PartialEq for Serial {
    #[verifier::external_body]
    fn eq(&self, other: &Self) -> bool { unimplemented!() }
}
impl PartialEqSpecImpl<u32> for Serial {
    open spec fn obeys_eq_spec() -> bool { true }
    open spec fn eq_spec(&self, other: &u32) -> bool { self.0 == *other }
}
impl PartialEq<u32> for Serial {
    #[verifier::external_body]
    fn eq(&self, other: &u32) -> bool { unimplemented!() }
}
impl PartialOrdSpecImpl for Serial {
    open spec fn obeys_partial_cmp_spec() -> bool { true }
    open spec fn partial_cmp_spec(&self, other: &Serial) -> Option<Ordering> { serial_cmp(self.0, other.0) }
}
impl PartialOrd for Serial {
    #[verifier::external_body]
    fn partial_cmp(&self, other: &Serial) -> Option<Ordering> { unimplemented!() }
}
impl Serial {
    #[verifier::external_body]
    pub fn add(self, other: u32) -> (r: Serial)
        requires other <= 0x7FFF_FFFF,
        ensures r.0 == wadd(self.0, other as int),
    { unimplemented!() }
}
impl vstd::std_specs::convert::FromSpecImpl<u32> for Serial {
    open spec fn obeys_from_spec() -> bool { true }
    open spec fn from_spec(v: u32) -> Serial { Serial(v) }
}
impl From<u32> for Serial {
    #[verifier::external_body]
    fn from(value: u32) -> Serial { unimplemented!() }
}

// Opaque payload types.
#[verifier::external_body] pub struct PayloadSnapshot { _opaque: () }
#[verifier::external_body] pub struct Metrics { _opaque: () }
#[verifier::external_body] pub struct Duration { _opaque: () }
#[verifier::external_body] pub struct SystemTime { _opaque: () }
#[verifier::external_body] pub struct Utc { _opaque: () }
#[verifier::external_body] #[verifier::reject_recursive_types(T)] pub struct DateTime<T> { _t: T }
#[verifier::external_body] pub struct FilterPolicy { _opaque: () }
#[verifier::external_body] pub struct Timing { _opaque: () }

// PayloadDelta is abstract here: its target serial and the ghost relation
// `spans(a, b)` = "this delta is exactly the change from the data set served
// at serial a to the data set served at serial b". The contracts of `empty`
// and `merge` are ASSUMED here; they are the delta unit's C11/C12 results.
#[verifier::external_body] pub struct PayloadDelta { _opaque: () }

impl PayloadDelta {
    pub uninterp spec fn serial_spec(&self) -> Serial;
    pub uninterp spec fn spans(&self, a: u32, b: u32) -> bool;
    pub uninterp spec fn is_empty_spec(&self) -> bool;

    #[verifier::external_body]
    pub fn serial(&self) -> (r: Serial)
        ensures r == self.serial_spec(),
    { unimplemented!() }

    #[verifier::external_body]
    pub fn empty(serial: Serial) -> (r: PayloadDelta)
        ensures r.serial_spec() == serial, r.is_empty_spec(),
                forall|v: u32| r.spans(v, v),
    { unimplemented!() }

    #[verifier::external_body]
    pub fn merge(&self, new: &PayloadDelta) -> (r: PayloadDelta)
        ensures r.serial_spec() == new.serial_spec(),
                forall|a: u32, b: u32, c: u32| self.spans(a, b) && new.spans(b, c) ==> r.spans(a, c),
    { unimplemented!() }
}

// std functions without a vstd specification (assumed).
pub assume_specification<T, A: std::alloc::Allocator> [std::collections::VecDeque::<T, A>::front]
    (v: &std::collections::VecDeque<T, A>) -> (r: Option<&T>)
    ensures
        v@.len() == 0 ==> r is None,
        v@.len() > 0 ==> r == Some(&v@[0]),
;

pub assume_specification<T: Ord + core::marker::Destruct> [std::cmp::max] (a: T, b: T) -> (r: T)
    ensures
        T::obeys_cmp_spec() ==> r == (if a.cmp_spec(&b) == Ordering::Greater { a } else { b }),
;
