//@ fn PayloadHistory::serial
//@ spec
    ensures res == self.cur(),
//@ closure map 1 optional
|delta: &Arc<PayloadDelta>| -> (r: Serial) ensures r == delta.serial_spec()
//@ closure unwrap_or_else 1 optional
|| -> (r: Serial) ensures r == Serial(0u32)
//@ fn PayloadHistory::rtr_session
//@ spec
    ensures res == self.session as u16,
//@ fn PayloadHistory::is_active
//@ spec
    ensures res == self.current.is_some(),
//@ fn PayloadHistory::push_delta
//@ spec
    requires
        old(self).wf(), old(self).bounded(),
        delta.serial_spec().0 == wadd(old(self).cur().0, 1),
        delta.spans(old(self).cur().0, delta.serial_spec().0),
    ensures
        // C14: never more than max(history-size, 1) change sets are retained
        final(self).bounded(),
        // C14 + C13 + C16 (a change set is tagged with the current serial, which must identify the data; the HTTP ETag is session + this serial,
        // so a changed data set must come with a changed serial): the new change set is the newest one, so the serial advanced by exactly one
        final(self).cur().0 == wadd(old(self).cur().0, 1),
        final(self).deltas@.len() >= 1 && *final(self).deltas@[0] == delta,
        // frame
        final(self).keep == old(self).keep, final(self).session == old(self).session,
        final(self).current == old(self).current,
        // C13: the window invariant is preserved
        old(self).deltas@.len() + 1 < 0x8000_0000 ==> final(self).wf(),
//@ fn PayloadHistory::delta_since
//@ spec
    requires self.wf(),
    ensures
        // C13: a change set is returned exactly for the serials of the retained window
        // (current serial included, distance measured modulo 2^32) ...
        res is Some ==> wsub(self.cur().0, serial.0) as int <= self.deltas@.len(),
        // (the client's serial is the current one, or the target of a retained older delta)
        (wsub(self.cur().0, serial.0) == 0 || (wsub(self.cur().0, serial.0) as int) < self.deltas@.len())
            ==> res is Some,
        // ... and it is tagged with the current serial and turns the data at the
        // client's serial into the current data.
        res matches Some(d) ==> d.serial_spec() == self.cur() && d.spans(serial.0, self.cur().0),
        // a client at the current serial gets an empty change set
        res matches Some(d) ==> (serial == self.cur() ==> d.is_empty_spec()),
//@ beforeloop 1
        let ghost rem0 = iter.remaining();
        let ghost len = self.deltas@.len() as int;
        proof {
            assert(rem0.len() == len);
            assert forall|j: int| 0 <= j < len implies **#[trigger] rem0[j] == *self.deltas@[len - 1 - j] by {}
            assert(**rem0[len - 1] == *self.deltas@[0]);
        }
//@ loop 1
            invariant_except_break
                // C13: every delta skipped so far has a target serial strictly older than the client's
                forall|j: int| 0 <= j < len - iter.remaining().len() ==>
                    serial_cmp((**#[trigger] rem0[j]).serial_spec().0, serial.0) == Some(Ordering::Less),
                // if the client's serial is the target of a retained delta, that delta is still ahead
                (wsub(self.cur().0, serial.0) as int) < len ==>
                    len - iter.remaining().len() <= len - 1 - wsub(self.cur().0, serial.0),
            invariant
                self.wf(), len == self.deltas@.len(), len >= 1,
                rem0.len() == len,
                forall|j: int| 0 <= j < len ==> **#[trigger] rem0[j] == *self.deltas@[len - 1 - j],
                (**rem0[len - 1]).serial_spec() == self.cur(),
                iter.obeys_prophetic_iter_laws(), iter.decrease() is Some,
                iter.remaining().len() <= len,
                iter.remaining() == rem0.skip(len - iter.remaining().len()),
                serial_cmp(self.cur().0, serial.0) != Some(Ordering::Less),
                self.cur().0 != serial.0,
            ensures
                // the newest delta is never the one the loop stops at
                iter.remaining().len() > 0,
                ({
                    let m = len - iter.remaining().len();
                    ||| (m >= 1 && (**rem0[m - 1]).serial_spec().0 == serial.0)
                    ||| (m == len && forall|j: int| 0 <= j < len ==>
                            serial_cmp((**#[trigger] rem0[j]).serial_spec().0, serial.0) == Some(Ordering::Less))
                }),
            decreases iter.decrease()->Some_0,
//@ beforeloop 2
        let ghost rem2 = iter.remaining();
        proof {
            lemma_wadd_props();
        }
//@ loopvar 2 it
//@ loop 2
            invariant
                self.wf(), len == self.deltas@.len(), len >= 1, rem0.len() == len,
                forall|j: int| 0 <= j < len ==> **#[trigger] rem0[j] == *self.deltas@[len - 1 - j],
                it.seq() == rem2,
                rem2.len() < len,
                rem2 == rem0.skip(len - rem2.len()),
                0 <= it.index@ <= rem2.len(),
                // res covers serial -> target of the newest delta merged so far
                res.serial_spec().0 == wadd(self.cur().0, -(rem2.len() - it.index@)),
                res.spans(serial.0, wadd(self.cur().0, -(rem2.len() - it.index@))),
//@ global
impl PayloadHistory {
    // The serial of the current data set: target serial of the newest delta, 0 if none.
    spec fn cur(&self) -> Serial {
        if self.deltas@.len() > 0 { self.deltas@[0].serial_spec() } else { Serial(0u32) }
    }

    // C14: at most max(history-size, 1) change sets are retained.
    spec fn bound(&self) -> int { if self.keep >= 1 { self.keep as int } else { 1 } }

    spec fn bounded(&self) -> bool { self.deltas@.len() <= self.bound() }

    // Window invariant: newest first; consecutive serials (wrapping); delta i is the
    // change from serial cur-(i+1) to serial cur-i; window shorter than 2^31.
    spec fn wf(&self) -> bool {
        &&& self.deltas@.len() < 0x8000_0000
        &&& forall|i: int| 0 <= i < self.deltas@.len() ==>
                (#[trigger] self.deltas@[i]).serial_spec().0 == wadd(self.cur().0, -i)
        &&& forall|i: int| 0 <= i < self.deltas@.len() ==>
                (#[trigger] self.deltas@[i]).spans(wadd(self.cur().0, -i - 1), wadd(self.cur().0, -i))
    }
}

proof fn lemma_wadd_props()
    ensures
        forall|a: u32| wadd(a, 0) == a,
{
}
