//@ fn Parse<R> for HashMap<K, V>::parse
//@ spec
    ensures
        // C28: a stored map decodes to a map with exactly the stored number of entries, and exactly
        // that many key/value pairs (after the count) are consumed from the input
        K::is_item() && V::is_item() && obeys_key_model::<K>() ==> (res matches Ok(m) ==> {
            let n = old(source).remaining()[0].as_u64() as int;
            &&& old(source).remaining().len() >= 1 + 2 * n
            &&& m@.len() == n
            &&& final(source).remaining() == old(source).remaining().skip(1 + 2 * n)
        }),
//@ closure 1
|_e: std::num::TryFromIntError| -> (r: ParseError)
//@ entry
    broadcast use vstd::std_specs::hash::group_hash_axioms;
//@ beforeloop 1
    let ghost input = old(source).remaining();
    proof { lemma_skips(input); }
//@ loopvar 1 it
//@ loop 1
        invariant
            input == old(source).remaining(),
            skip_facts(input),
            res@.dom().finite(),
            // C28: after i rounds exactly i pairs have been consumed and the map has i entries
            K::is_item() && V::is_item() && obeys_key_model::<K>() ==> {
                &&& len as int == input[0].as_u64() as int
                &&& input.len() >= 1 + 2 * it.index@
                &&& res@.len() == it.index@
                &&& source.remaining() == input.skip(1 + 2 * it.index@)
            },
//@ loopentry 1
    broadcast use vstd::std_specs::hash::group_hash_axioms;
//@ global
spec fn skip_facts(s: Seq<Item>) -> bool {
    &&& forall|a: int, n: int| 0 <= a && 0 <= n && a + n <= s.len() ==> #[trigger] s.skip(a).skip(n) == s.skip(a + n)
    &&& forall|a: int| 0 <= a <= s.len() ==> (#[trigger] s.skip(a)).len() == s.len() - a
}
proof fn lemma_skips(s: Seq<Item>)
    ensures skip_facts(s),
{
    assert forall|a: int, n: int| 0 <= a && 0 <= n && a + n <= s.len() implies #[trigger] s.skip(a).skip(n) == s.skip(a + n) by {
        assert(s.skip(a).skip(n) =~= s.skip(a + n));
    }
}
