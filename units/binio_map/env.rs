// Environment of unit `binio_map` (C28, count-prefixed map decoder). Everything here is ASSUMED.

#[verifier::external_body] pub struct IoError { _opaque: () }
// utils::binio::ParseError
#[verifier::external_body] pub struct ParseError { _opaque: () }
impl ParseError {
    #[verifier::external_body]
    pub fn format<T>(err: T) -> (r: ParseError) { unimplemented!() }
    #[verifier::external_body]
    pub fn is_fatal(&self) -> (r: bool) { unimplemented!() }
    #[verifier::external_body]
    pub fn is_eof(&self) -> (r: bool) { unimplemented!() }
}

// One item of the input = what one parse call of the count or of a key / value type consumes.
#[verifier::external_body] pub struct Item { _opaque: () }
impl Item {
    // the number this item holds if it is read as a u64
    pub uninterp spec fn as_u64(&self) -> u64;
}
// std::io::Read over a ghost input: `remaining()` are the items not yet consumed.
pub trait IoRead {
    spec fn remaining(&self) -> Seq<Item>;
}
pub mod io { pub use super::IoRead as Read; pub use super::IoError as Error; }

// Whether a type is decoded from exactly one item (every key / value / number type) or from
// a count-prefixed sequence of items (the map itself).
pub trait ItemKind { spec fn is_item() -> bool; }
impl ItemKind for u64 { open spec fn is_item() -> bool { true } }
impl<K, V> ItemKind for HashMap<K, V> { open spec fn is_item() -> bool { false } }

// utils::binio::Parse. A successful parse of an item type consumes exactly the next item; a
// failed parse: nothing is claimed.
pub trait Parse<R: IoRead>: Sized + ItemKind {
    fn parse(source: &mut R) -> (r: Result<Self, ParseError>)
        ensures
            Self::is_item() ==> (r is Ok ==> old(source).remaining().len() > 0
                && final(source).remaining() == old(source).remaining().skip(1));
}
// the count: the value is the number the item holds
impl<R: IoRead> Parse<R> for u64 {
    #[verifier::external_body]
    fn parse(source: &mut R) -> (r: Result<u64, ParseError>)
        ensures r matches Ok(v) ==> v == old(source).remaining()[0].as_u64(),
    { unimplemented!() }
}
