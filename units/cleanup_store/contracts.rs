//@ fn StoredPoint::manifest
//@ spec
    ensures match res { Some(m) => self.manifest == Some(*m), None => self.manifest is None },
//@ fn StoredPoint::is_new
//@ spec
    ensures res == self.is_new,
//@ fn StoredPoint::path
//@ spec
    ensures *res == self.path.p,
//@ fn StoredPoint::retain
//@ spec
    ensures
        // C40: a stored point whose manifest certificate has not expired by the end of the
        // run (notAfter later than every clock reading of the run) is retained
        self.manifest matches Some(m) && m.not_after.ts() > run_end() ==> res,
        // exactly: the decision is `notAfter > now` for one clock reading `now`
        self.manifest matches Some(m) ==>
            exists|t: Time| #[trigger] is_clock_reading(t) && res == (m.not_after.ts() > t.ts()),
        // C40: a point without stored data is retained iff an update was attempted in this run
        self.manifest is None ==> res == (self.header.update_status matches UpdateStatus::LastAttempt(w)
                                          && w.ts() >= update_start.ts()),
//@ fn Run::cleanup_points_keep
//@ spec
    ensures
        res is Ok,
        // C40: the file of a publication point that is still needed is never reported as deletable
        res == Ok::<bool, Failed>(false) ==> !store_needed(self.started, *path),
        // C40: a retained point has its RRDP repository / rsync module registered with the collector
        res == Ok::<bool, Failed>(true) ==> (stored_at(*path) matches Some(pt) && registered(pt, *final(retain))),
        // frame: registrations are never withdrawn
        old(retain).rrdp_set().subset_of(final(retain).rrdp_set()),
        old(retain).rsync_set().subset_of(final(retain).rsync_set()),
//@ fn Run::recurse
//@ spec
    requires
        // the caller's keep criterion: whenever `op` answers Ok(false) the file is not needed
        keep_criterion(*old(op)),
    ensures
        keep_criterion(*final(op)),
        // C40: a directory is reported as removable only if no needed file is below it
        // (every remove_file / remove_dir_all inside carries its permission as a call-site obligation)
        res == Ok::<bool, Failed>(false) ==> !tree_needed(*base),
    decreases fs_depth(*base),
//@ loopvar 1 it
//@ loop 1
    invariant
        lists_seq(it.seq(), *base),
        keep_criterion(*op),
        !keep ==> forall|j: int| 0 <= j < it.index@ ==> !entry_needed(*base, #[trigger] listing(*base)[j]),
//@ global
// The contract recurse expects of the `keep` closure: callable on every path, and
// whenever it answers Ok(false) the file is not needed.
spec fn keep_criterion<F: FnMut(&Path) -> Result<bool, Failed>>(op: F) -> bool {
    &&& forall|p: &Path| op.requires((p,))
    &&& forall|p: &Path, r: Result<bool, Failed>| op.ensures((p,), r) ==> (r == Ok::<bool, Failed>(false) ==> !needed(*p))
}

// What StoredPoint::load_quietly yields for a path (None: no loadable point there).
uninterp spec fn stored_at(p: Path) -> Option<StoredPoint>;

impl StoredPoint {
    #[verifier::external_body]
    fn load_quietly(path: PathBuf) -> (r: Option<StoredPoint>)
        ensures r == stored_at(path.as_path()),
    { unimplemented!() }

    // C40: the stored data of this point must survive a cleanup of a run started at `started`.
    spec fn must_keep(&self, started: Time) -> bool {
        match self.manifest {
            Some(m) => m.not_after.ts() > run_end(),
            None => self.header.update_status matches UpdateStatus::LastAttempt(w) && w.ts() >= started.ts(),
        }
    }
}

spec fn store_needed(started: Time, p: Path) -> bool {
    stored_at(p) matches Some(pt) && pt.must_keep(started)
}

spec fn registered(pt: StoredPoint, c: Cleanup) -> bool {
    match pt.header.rpki_notify {
        Some(u) => c.rrdp_set().contains(u),
        None => c.rsync_set().contains(module_of(pt.header.manifest_uri)),
    }
}
