// Environment of unit `cleanup_store` (C40, store level). Everything here is ASSUMED.

// ---- time -------------------------------------------------------------
// rpki::repository::x509::Time: a Copy, totally ordered timestamp.
#[verifier::external_body] #[derive(Clone, Copy)] pub struct Time { _opaque: () }
// A time is a clock reading of this run if some Time::now() returned it.
pub uninterp spec fn is_clock_reading(t: Time) -> bool;
// An upper bound of every clock reading made during this run ("the end of the run").
pub uninterp spec fn run_end() -> int;
impl Time {
    pub uninterp spec fn ts(&self) -> int;
    #[verifier::external_body]
    pub fn now() -> (r: Time)
        ensures is_clock_reading(r), r.ts() <= run_end(),
    { unimplemented!() }
}
pub open spec fn int_cmp(a: int, b: int) -> Ordering {
    if a < b { Ordering::Less } else if a == b { Ordering::Equal } else { Ordering::Greater }
}
impl PartialEqSpecImpl for Time {
    open spec fn obeys_eq_spec() -> bool { true }
    open spec fn eq_spec(&self, other: &Time) -> bool { self.ts() == other.ts() }
}
impl PartialEq for Time {
    #[verifier::external_body]
    fn eq(&self, other: &Self) -> bool { unimplemented!() }
}
impl PartialOrdSpecImpl for Time {
    open spec fn obeys_partial_cmp_spec() -> bool { true }
    open spec fn partial_cmp_spec(&self, other: &Time) -> Option<Ordering> { Some(int_cmp(self.ts(), other.ts())) }
}
impl PartialOrd for Time {
    #[verifier::external_body]
    fn partial_cmp(&self, other: &Time) -> Option<Ordering> { unimplemented!() }
}

// ---- opaque data types --------------------------------------------------
#[verifier::external_body] pub struct UriRsync { _opaque: () }
#[verifier::external_body] pub struct UriHttps { _opaque: () }
#[verifier::external_body] pub struct Serial { _opaque: () }
#[verifier::external_body] pub struct Bytes { _opaque: () }
#[verifier::external_body] pub struct File { _opaque: () }
#[verifier::external_body] #[verifier::reject_recursive_types(T)] pub struct BufReader<T> { _t: T }

// ---- paths and directory listings ---------------------------------------
#[verifier::external_body] pub struct Path { _opaque: () }
// PathBuf: an owned Path.
pub struct PathBuf { pub p: Path }
impl PathBuf {
    pub open spec fn as_path(&self) -> Path { self.p }
}
impl<'a> vstd::std_specs::convert::FromSpecImpl<&'a Path> for PathBuf {
    open spec fn obeys_from_spec() -> bool { true }
    open spec fn from_spec(v: &'a Path) -> PathBuf { PathBuf { p: *v } }
}
impl<'a> From<&'a Path> for PathBuf {
    #[verifier::external_body]
    fn from(value: &'a Path) -> PathBuf { unimplemented!() }
}

// fatal::DirEntry
#[verifier::external_body] pub struct DirEntry { _opaque: () }
impl DirEntry {
    pub uninterp spec fn path_spec(&self) -> Path;
    pub uninterp spec fn is_dir_spec(&self) -> bool;
    pub uninterp spec fn is_file_spec(&self) -> bool;
    #[verifier::external_body]
    pub fn path(&self) -> (r: &Path) ensures *r == self.path_spec() { unimplemented!() }
    #[verifier::external_body]
    pub fn is_dir(&self) -> (r: bool) ensures r == self.is_dir_spec() { unimplemented!() }
    #[verifier::external_body]
    pub fn is_file(&self) -> (r: bool) ensures r == self.is_file_spec() { unimplemented!() }
}

// The entries of directory `dir` as they are listed when this cleanup reads it
// (each directory is read once), and the height of the tree below a path.
pub uninterp spec fn listing(dir: Path) -> Seq<DirEntry>;
pub uninterp spec fn fs_depth(p: Path) -> nat;

// fatal::ReadDir: yields Ok(entry) for the entries of the listing in order;
// an I/O error shows up as an Err item.
#[verifier::external_body] pub struct ReadDir<'a> { _opaque: &'a () }
impl<'a> ReadDir<'a> {
    pub uninterp spec fn rem(&self) -> Seq<Result<DirEntry, Failed>>;
}
impl<'a> Iterator for ReadDir<'a> {
    type Item = Result<DirEntry, Failed>;
    #[verifier::external_body]
    fn next(&mut self) -> Option<Result<DirEntry, Failed>> { unimplemented!() }
}
impl<'a> IteratorSpecImpl for ReadDir<'a> {
    open spec fn obeys_prophetic_iter_laws(&self) -> bool { true }
    #[verifier::prophetic]
    open spec fn remaining(&self) -> Seq<Result<DirEntry, Failed>> { self.rem() }
    #[verifier::prophetic]
    open spec fn will_return_none(&self) -> bool { true }
    open spec fn decrease(&self) -> Option<nat> { Some(self.rem().len()) }
    open spec fn peek(&self, i: int) -> Option<Result<DirEntry, Failed>> { None }
}
pub open spec fn lists_seq(s: Seq<Result<DirEntry, Failed>>, dir: Path) -> bool {
    &&& s.len() == listing(dir).len()
    &&& forall|i: int| 0 <= i < s.len() ==>
            ((#[trigger] s[i]) matches Ok(e) ==> e == listing(dir)[i] && fs_depth(e.path_spec()) < fs_depth(dir))
}
pub open spec fn lists(d: ReadDir, dir: Path) -> bool { lists_seq(d.rem(), dir) }
#[verifier::external_body]
pub fn fatal_read_dir<'a>(path: &'a Path) -> (r: Result<ReadDir<'a>, Failed>)
    ensures r matches Ok(d) ==> lists(d, *path),
{ unimplemented!() }
#[verifier::external_body]
pub fn fatal_read_existing_dir<'a>(path: &'a Path) -> (r: Result<Option<ReadDir<'a>>, Failed>)
    ensures
        r matches Ok(Some(d)) ==> lists(d, *path),
        r matches Ok(None) ==> listing(*path).len() == 0,
{ unimplemented!() }

// ---- deletion permissions -------------------------------------------------
// needed(p): the file p must survive this cleanup_dir_tree call (the criterion
// is fixed by the caller through the contract of its `keep` closure).
pub uninterp spec fn needed(p: Path) -> bool;
// A directory tree is needed if it contains a needed regular file.
pub open spec fn tree_needed(d: Path) -> bool
    decreases fs_depth(d)
{
    exists|i: int| 0 <= i < listing(d).len() && entry_needed(d, #[trigger] listing(d)[i])
}
pub open spec fn entry_needed(d: Path, e: DirEntry) -> bool
    decreases fs_depth(d), 0nat
{
    if e.is_dir_spec() {
        fs_depth(e.path_spec()) < fs_depth(d) && tree_needed(e.path_spec())
    } else {
        e.is_file_spec() && needed(e.path_spec())
    }
}
#[verifier::external_body]
pub fn fatal_remove_file(path: &Path) -> (r: Result<(), Failed>)
    requires !needed(*path),
{ unimplemented!() }
#[verifier::external_body]
pub fn fatal_remove_dir_all(path: &Path) -> (r: Result<(), Failed>)
    requires !tree_needed(*path),
{ unimplemented!() }

// ---- collector::Cleanup: the sets registered for retention ----------------
#[verifier::external_body] pub struct RsyncModule { _opaque: () }
pub uninterp spec fn module_of(uri: UriRsync) -> RsyncModule;
#[verifier::external_body] pub struct Cleanup { _opaque: () }
impl Cleanup {
    pub uninterp spec fn rrdp_set(&self) -> Set<UriHttps>;
    pub uninterp spec fn rsync_set(&self) -> Set<RsyncModule>;
    #[verifier::external_body]
    pub fn add_rrdp_repository(&mut self, rpki_notify: &UriHttps)
        ensures final(self).rrdp_set() == old(self).rrdp_set().insert(*rpki_notify),
                final(self).rsync_set() == old(self).rsync_set(),
    { unimplemented!() }
    #[verifier::external_body]
    pub fn add_rsync_module(&mut self, uri: &UriRsync)
        ensures final(self).rsync_set() == old(self).rsync_set().insert(module_of(*uri)),
                final(self).rrdp_set() == old(self).rrdp_set(),
    { unimplemented!() }
}
