// Environment of unit `cleanup_store` (C40, store level). Everything here is ASSUMED.

// ---- time -------------------------------------------------------------
// rpki::repository::x509::Time: a Copy, totally ordered timestamp.
#[verifier::external_body] #[derive(Clone, Copy)] pub struct Time { _opaque: () }
// A time is a clock reading of this run if some Time::now() returned it.
pub uninterp spec fn is_clock_reading(t: Time) -> bool;
// An upper bound of every clock reading made during this run ("the end of the run").
pub uninterp spec fn run_end() -> int;
impl Time {
    pub uninterp spec fn ts(&self) -> int;
    #[verifier::external_body]
    pub fn now() -> (r: Time)
        ensures is_clock_reading(r), r.ts() <= run_end(),
    { unimplemented!() }
}
pub open spec fn int_cmp(a: int, b: int) -> Ordering {
    if a < b { Ordering::Less } else if a == b { Ordering::Equal } else { Ordering::Greater }
}
impl Time {
    // seconds since the epoch
    #[verifier::external_body]
    pub fn timestamp(&self) -> (r: i64) ensures r as int == self.ts() { unimplemented!() }
    #[verifier::external_body]
    pub fn utc(year: i32, month: u32, day: u32, hour: u32, min: u32, sec: u32) -> (r: Time) { unimplemented!() }
}
impl Eq for Time {}
impl OrdSpecImpl for Time {
    open spec fn obeys_cmp_spec() -> bool { true }
    open spec fn cmp_spec(&self, other: &Time) -> Ordering { int_cmp(self.ts(), other.ts()) }
}
impl Ord for Time {
    #[verifier::external_body]
    fn cmp(&self, other: &Time) -> Ordering { unimplemented!() }
}
impl PartialEqSpecImpl for Time {
    open spec fn obeys_eq_spec() -> bool { true }
    open spec fn eq_spec(&self, other: &Time) -> bool { self.ts() == other.ts() }
}
impl PartialEq for Time {
    #[verifier::external_body]
    fn eq(&self, other: &Self) -> bool { unimplemented!() }
}
impl PartialOrdSpecImpl for Time {
    open spec fn obeys_partial_cmp_spec() -> bool { true }
    open spec fn partial_cmp_spec(&self, other: &Time) -> Option<Ordering> { Some(int_cmp(self.ts(), other.ts())) }
}
impl PartialOrd for Time {
    #[verifier::external_body]
    fn partial_cmp(&self, other: &Time) -> Option<Ordering> { unimplemented!() }
}

// ---- opaque data types --------------------------------------------------
#[verifier::external_body] pub struct UriRsync { _opaque: () }
impl Clone for UriRsync {
    #[verifier::external_body]
    fn clone(&self) -> (r: Self) ensures r == *self { unimplemented!() }
}
#[verifier::external_body] pub struct UriHttps { _opaque: () }
impl Clone for UriHttps {
    #[verifier::external_body]
    fn clone(&self) -> (r: Self) ensures r == *self { unimplemented!() }
}
#[verifier::external_body] pub struct Serial { _opaque: () }
impl Clone for Serial {
    #[verifier::external_body]
    fn clone(&self) -> (r: Self) ensures r == *self { unimplemented!() }
}
#[verifier::external_body] pub struct Bytes { _opaque: () }
impl Clone for Bytes {
    #[verifier::external_body]
    fn clone(&self) -> (r: Self) ensures r == *self { unimplemented!() }
}
#[verifier::external_body] pub struct File { _opaque: () }
#[verifier::external_body] #[verifier::reject_recursive_types(T)] pub struct BufReader<T> { _t: T }

// ---- paths and directory listings ---------------------------------------
#[verifier::external_body] pub struct Path { _opaque: () }
// PathBuf: an owned Path.
pub struct PathBuf { pub p: Path }
impl PathBuf {
    pub open spec fn as_path(&self) -> Path { self.p }
    #[verifier::external_body]
    pub fn join(&self, name: &str) -> (r: PathBuf) { unimplemented!() }
    #[verifier::external_body]
    pub fn parent(&self) -> (r: Option<&Path>) { unimplemented!() }
}
impl Clone for PathBuf {
    #[verifier::external_body]
    fn clone(&self) -> (r: PathBuf) ensures r == *self { unimplemented!() }
}
impl std::ops::Deref for PathBuf {
    type Target = Path;
    #[verifier::external_body]
    fn deref(&self) -> (r: &Path) ensures *r == self.p { unimplemented!() }
}
impl Path {
    #[verifier::external_body]
    pub fn to_path_buf(&self) -> (r: PathBuf) ensures r.p == *self { unimplemented!() }
    #[verifier::external_body]
    pub fn join(&self, name: &str) -> (r: PathBuf) { unimplemented!() }
    #[verifier::external_body]
    pub fn parent(&self) -> (r: Option<&Path>) { unimplemented!() }
    // file-system queries: nothing is known about their answers
    #[verifier::external_body]
    pub fn is_dir(&self) -> (r: bool) { unimplemented!() }
    #[verifier::external_body]
    pub fn is_file(&self) -> (r: bool) { unimplemented!() }
    #[verifier::external_body]
    pub fn exists(&self) -> (r: bool) { unimplemented!() }
}
impl<'a> vstd::std_specs::convert::FromSpecImpl<&'a Path> for PathBuf {
    open spec fn obeys_from_spec() -> bool { true }
    open spec fn from_spec(v: &'a Path) -> PathBuf { PathBuf { p: *v } }
}
impl<'a> From<&'a Path> for PathBuf {
    #[verifier::external_body]
    fn from(value: &'a Path) -> PathBuf { unimplemented!() }
}

// fatal::DirEntry
#[verifier::external_body] pub struct DirEntry { _opaque: () }
impl DirEntry {
    pub uninterp spec fn path_spec(&self) -> Path;
    pub uninterp spec fn is_dir_spec(&self) -> bool;
    pub uninterp spec fn is_file_spec(&self) -> bool;
    #[verifier::external_body]
    pub fn path(&self) -> (r: &Path) ensures *r == self.path_spec() { unimplemented!() }
    #[verifier::external_body]
    pub fn is_dir(&self) -> (r: bool) ensures r == self.is_dir_spec() { unimplemented!() }
    #[verifier::external_body]
    pub fn is_file(&self) -> (r: bool) ensures r == self.is_file_spec() { unimplemented!() }
    #[verifier::external_body]
    pub fn into_path(self) -> (r: PathBuf) ensures r.p == self.path_spec() { unimplemented!() }
    #[verifier::external_body]
    pub fn metadata(&self) -> (r: &Metadata)
        ensures r.is_dir_spec() == self.is_dir_spec(), r.is_file_spec() == self.is_file_spec(),
    { unimplemented!() }
    #[verifier::external_body]
    pub fn file_name(&self) -> (r: &OsStr) { unimplemented!() }
    #[verifier::external_body]
    pub fn len(&self) -> (r: u64) { unimplemented!() }
}
#[verifier::external_body] pub struct OsStr { _opaque: () }
#[verifier::external_body] pub struct Metadata { _opaque: () }
impl Metadata {
    pub uninterp spec fn is_dir_spec(&self) -> bool;
    pub uninterp spec fn is_file_spec(&self) -> bool;
    #[verifier::external_body]
    pub fn is_dir(&self) -> (r: bool) ensures r == self.is_dir_spec() { unimplemented!() }
    #[verifier::external_body]
    pub fn is_file(&self) -> (r: bool) ensures r == self.is_file_spec() { unimplemented!() }
}

// The entries of directory `dir` as they are listed when this cleanup reads it
// (each directory is read once), and the height of the tree below a path.
pub uninterp spec fn listing(dir: Path) -> Seq<DirEntry>;
pub uninterp spec fn fs_depth(p: Path) -> nat;

// fatal::ReadDir: yields Ok(entry) for the entries of the listing in order;
// an I/O error shows up as an Err item.
#[verifier::external_body] pub struct ReadDir<'a> { _opaque: &'a () }
impl<'a> ReadDir<'a> {
    pub uninterp spec fn rem(&self) -> Seq<Result<DirEntry, Failed>>;
}
impl<'a> Iterator for ReadDir<'a> {
    type Item = Result<DirEntry, Failed>;
    #[verifier::external_body]
    fn next(&mut self) -> Option<Result<DirEntry, Failed>> { unimplemented!() }
}
impl<'a> IteratorSpecImpl for ReadDir<'a> {
    open spec fn obeys_prophetic_iter_laws(&self) -> bool { true }
    #[verifier::prophetic]
    open spec fn remaining(&self) -> Seq<Result<DirEntry, Failed>> { self.rem() }
    #[verifier::prophetic]
    open spec fn will_return_none(&self) -> bool { true }
    open spec fn decrease(&self) -> Option<nat> { Some(self.rem().len()) }
    open spec fn peek(&self, i: int) -> Option<Result<DirEntry, Failed>> { None }
}
pub open spec fn lists_seq(s: Seq<Result<DirEntry, Failed>>, dir: Path) -> bool {
    &&& s.len() == listing(dir).len()
    &&& forall|i: int| 0 <= i < s.len() ==>
            ((#[trigger] s[i]) matches Ok(e) ==> e == listing(dir)[i] && fs_depth(e.path_spec()) < fs_depth(dir))
}
pub open spec fn lists(d: ReadDir, dir: Path) -> bool { lists_seq(d.rem(), dir) }
#[verifier::external_body]
pub fn fatal_read_dir<'a>(path: &'a Path) -> (r: Result<ReadDir<'a>, Failed>)
    ensures r matches Ok(d) ==> lists(d, *path),
{ unimplemented!() }
#[verifier::external_body]
pub fn fatal_read_existing_dir<'a>(path: &'a Path) -> (r: Result<Option<ReadDir<'a>>, Failed>)
    ensures
        r matches Ok(Some(d)) ==> lists(d, *path),
        r matches Ok(None) ==> listing(*path).len() == 0,
{ unimplemented!() }

// ---- deletion permissions -------------------------------------------------
// needed(p): the file p must survive this cleanup_dir_tree call (the criterion
// is fixed by the caller through the contract of its `keep` closure).
pub uninterp spec fn needed(p: Path) -> bool;
// A directory tree is needed if it contains a needed regular file.
pub open spec fn tree_needed(d: Path) -> bool
    decreases fs_depth(d)
{
    exists|i: int| 0 <= i < listing(d).len() && entry_needed(d, #[trigger] listing(d)[i])
}
pub open spec fn entry_needed(d: Path, e: DirEntry) -> bool
    decreases fs_depth(d), 0nat
{
    if e.is_dir_spec() {
        fs_depth(e.path_spec()) < fs_depth(d) && tree_needed(e.path_spec())
    } else {
        e.is_file_spec() && needed(e.path_spec())
    }
}
#[verifier::external_body]
pub fn fatal_remove_file(path: &Path) -> (r: Result<(), Failed>)
    requires !needed(*path),
{ unimplemented!() }
#[verifier::external_body]
pub fn fatal_remove_dir_all(path: &Path) -> (r: Result<(), Failed>)
    requires !tree_needed(*path),
{ unimplemented!() }

// The other removal primitives of utils::fatal / std::fs carry the same permissions.
#[verifier::external_body]
pub fn fatal_remove_all(path: &Path) -> (r: Result<(), Failed>)
    requires !needed(*path), !tree_needed(*path),
{ unimplemented!() }
#[verifier::external_body] pub struct IoError { _opaque: () }
#[verifier::external_body]
pub fn fs_remove_file(path: &Path) -> (r: Result<(), IoError>)
    requires !needed(*path),
{ unimplemented!() }
#[verifier::external_body]
pub fn fs_remove_dir_all(path: &Path) -> (r: Result<(), IoError>)
    requires !tree_needed(*path),
{ unimplemented!() }
// Non-deleting helpers of utils::fatal used in store.rs.
#[verifier::external_body]
pub fn fatal_read_file(path: &Path) -> (r: Result<Vec<u8>, Failed>) { unimplemented!() }
#[verifier::external_body]
pub fn fatal_read_existing_file(path: &Path) -> (r: Result<Option<Vec<u8>>, Failed>) { unimplemented!() }
#[verifier::external_body]
pub fn fatal_create_dir_all(path: &Path) -> (r: Result<(), Failed>) { unimplemented!() }

// ---- collector::Cleanup: the sets registered for retention ----------------
#[verifier::external_body] pub struct RsyncModule { _opaque: () }
pub uninterp spec fn module_of(uri: UriRsync) -> RsyncModule;
#[verifier::external_body] pub struct Cleanup { _opaque: () }
impl Cleanup {
    #[verifier::external_body]
    pub fn new() -> (r: Cleanup) ensures r.rrdp_set() == Set::<UriHttps>::empty(), r.rsync_set() == Set::<RsyncModule>::empty() { unimplemented!() }
    pub uninterp spec fn rrdp_set(&self) -> Set<UriHttps>;
    pub uninterp spec fn rsync_set(&self) -> Set<RsyncModule>;
    #[verifier::external_body]
    pub fn add_rrdp_repository(&mut self, rpki_notify: &UriHttps)
        ensures final(self).rrdp_set() == old(self).rrdp_set().insert(*rpki_notify),
                final(self).rsync_set() == old(self).rsync_set(),
    { unimplemented!() }
    #[verifier::external_body]
    pub fn add_rsync_module(&mut self, uri: &UriRsync)
        ensures final(self).rsync_set() == old(self).rsync_set().insert(module_of(*uri)),
                final(self).rrdp_set() == old(self).rrdp_set(),
    { unimplemented!() }
}

pub assume_specification<T: core::marker::Destruct> [std::mem::drop] (_0: T);
// ---- std functions without a vstd specification (ASSUMED: their std definitions).
// Declared so that a refactoring that starts using one of them is verified, not rejected.
pub assume_specification<T: Ord + core::marker::Destruct> [std::cmp::min] (a: T, b: T) -> (r: T)
    ensures <T as vstd::std_specs::cmp::OrdSpec>::obeys_cmp_spec() ==> r == (if vstd::std_specs::cmp::OrdSpec::cmp_spec(&b, &a) == std::cmp::Ordering::Less { b } else { a }),
;
pub assume_specification<T: Ord + core::marker::Destruct> [std::cmp::max] (a: T, b: T) -> (r: T)
    ensures <T as vstd::std_specs::cmp::OrdSpec>::obeys_cmp_spec() ==> r == (if vstd::std_specs::cmp::OrdSpec::cmp_spec(&b, &a) == std::cmp::Ordering::Less { a } else { b }),
;
pub assume_specification [std::cmp::Ordering::is_lt] (o: std::cmp::Ordering) -> (r: bool)
    ensures r == (o == std::cmp::Ordering::Less);
pub assume_specification [std::cmp::Ordering::is_gt] (o: std::cmp::Ordering) -> (r: bool)
    ensures r == (o == std::cmp::Ordering::Greater);
pub assume_specification [std::cmp::Ordering::is_le] (o: std::cmp::Ordering) -> (r: bool)
    ensures r == (o != std::cmp::Ordering::Greater);
pub assume_specification [std::cmp::Ordering::is_ge] (o: std::cmp::Ordering) -> (r: bool)
    ensures r == (o != std::cmp::Ordering::Less);
pub assume_specification<T: core::marker::Destruct> [bool::then_some] (b: bool, t: T) -> (r: Option<T>)
    ensures r == (if b { Some(t) } else { None::<T> });
pub assume_specification<T: core::marker::Destruct> [std::option::Option::<T>::xor] (a: Option<T>, b: Option<T>) -> (r: Option<T>)
    ensures r == (match (a, b) { (Some(x), None) => Some(x), (None, Some(y)) => Some(y), _ => None::<T> });
pub assume_specification<'a, T: Copy> [std::option::Option::<&T>::copied] (o: Option<&'a T>) -> (r: Option<T>)
    ensures r == (match o { Some(x) => Some(*x), None => None::<T> });
pub assume_specification<T: core::marker::Destruct> [std::option::Option::<T>::or] (a: Option<T>, b: Option<T>) -> (r: Option<T>)
    ensures r == (if a is Some { a } else { b });
pub assume_specification<T: core::marker::Destruct, U: core::marker::Destruct> [std::option::Option::<T>::and] (a: Option<T>, b: Option<U>) -> (r: Option<U>)
    ensures r == (if a is Some { b } else { None::<U> });
pub assume_specification<T: core::marker::Destruct, U: core::marker::Destruct> [std::option::Option::<T>::zip] (a: Option<T>, b: Option<U>) -> (r: Option<(T, U)>)
    ensures r == (match (a, b) { (Some(x), Some(y)) => Some((x, y)), _ => None::<(T, U)> });
pub assume_specification<T, F: FnOnce(T) -> bool + core::marker::Destruct> [std::option::Option::<T>::is_some_and] (o: Option<T>, f: F) -> (r: bool)
    requires o matches Some(x) ==> f.requires((x,)),
    ensures match o { Some(x) => f.ensures((x,), r), None => !r };
pub assume_specification<T, F: FnOnce(T) -> bool + core::marker::Destruct> [std::option::Option::<T>::is_none_or] (o: Option<T>, f: F) -> (r: bool)
    requires o matches Some(x) ==> f.requires((x,)),
    ensures match o { Some(x) => f.ensures((x,), r), None => r };
pub assume_specification<T: core::marker::Destruct, P: FnOnce(&T) -> bool + core::marker::Destruct> [std::option::Option::<T>::filter] (o: Option<T>, p: P) -> (r: Option<T>)
    requires o matches Some(x) ==> p.requires((&x,)),
    ensures match o { Some(x) => (r == Some(x) && p.ensures((&x,), true)) || (r is None && p.ensures((&x,), false)), None => r is None },
        // the predicate returned SOME boolean for the element, and the result follows it
        o is Some ==> exists|__b: bool| p.ensures((&o->Some_0,), __b) && r == (if __b { o } else { None::<T> });
pub assume_specification<T: core::marker::Destruct, F: FnOnce() -> Option<T> + core::marker::Destruct> [std::option::Option::<T>::or_else] (o: Option<T>, f: F) -> (r: Option<T>)
    requires o is None ==> f.requires(()),
    ensures match o { Some(x) => r == o, None => f.ensures((), r) };
pub assume_specification<T, U: core::marker::Destruct, F: FnOnce(T) -> U + core::marker::Destruct> [std::option::Option::<T>::map_or] (o: Option<T>, d: U, f: F) -> (r: U)
    requires o matches Some(x) ==> f.requires((x,)),
    ensures match o { Some(x) => f.ensures((x,), r), None => r == d };
pub assume_specification<T, U, D: FnOnce() -> U + core::marker::Destruct, F: FnOnce(T) -> U + core::marker::Destruct> [std::option::Option::<T>::map_or_else] (o: Option<T>, d: D, f: F) -> (r: U)
    requires o matches Some(x) ==> f.requires((x,)), o is None ==> d.requires(()),
    ensures match o { Some(x) => f.ensures((x,), r), None => d.ensures((), r) };
pub assume_specification<T: core::marker::Destruct, E: core::marker::Destruct> [std::result::Result::<T, E>::unwrap_or] (x: Result<T, E>, d: T) -> (r: T)
    ensures r == (match x { Ok(v) => v, Err(_) => d });
pub assume_specification<T, E: core::marker::Destruct, F: core::marker::Destruct> [std::result::Result::<T, E>::or] (a: Result<T, E>, b: Result<T, F>) -> (r: Result<T, F>)
    ensures match a { Ok(v) => r == Ok::<T, F>(v), Err(_) => r == b };
pub assume_specification<T, E, U, F: FnOnce(T) -> Result<U, E> + core::marker::Destruct> [std::result::Result::<T, E>::and_then] (x: Result<T, E>, f: F) -> (r: Result<U, E>)
    requires x matches Ok(v) ==> f.requires((v,)),
    ensures match x { Ok(v) => f.ensures((v,), r), Err(e) => r == Err::<U, E>(e) };
pub assume_specification<T, E: core::marker::Destruct, F: FnOnce(T) -> bool + core::marker::Destruct> [std::result::Result::<T, E>::is_ok_and] (x: Result<T, E>, f: F) -> (r: bool)
    requires x matches Ok(v) ==> f.requires((v,)),
    ensures match x { Ok(v) => f.ensures((v,), r), Err(_) => !r };
pub assume_specification<T, E, F: FnOnce(E) -> T + core::marker::Destruct> [std::result::Result::<T, E>::unwrap_or_else] (x: Result<T, E>, f: F) -> (r: T)
    requires x matches Err(e) ==> f.requires((e,)),
    ensures match x { Ok(v) => r == v, Err(e) => f.ensures((e,), r) };
pub assume_specification<T> [std::mem::replace] (dest: &mut T, src: T) -> (r: T)
    ensures r == *old(dest), *final(dest) == src;
pub assume_specification<T: Default + core::marker::Destruct, E: core::marker::Destruct> [std::result::Result::<T, E>::unwrap_or_default] (x: Result<T, E>) -> (r: T)
    ensures x matches Ok(v) ==> r == v;
pub assume_specification<T, E, U: core::marker::Destruct, F: FnOnce(T) -> U + core::marker::Destruct> [std::result::Result::<T, E>::map_or] (x: Result<T, E>, d: U, f: F) -> (r: U)
    requires x matches Ok(v) ==> f.requires((v,)),
    ensures match x { Ok(v) => f.ensures((v,), r), Err(_) => r == d };
pub assume_specification [<std::cmp::Ordering as PartialEq>::eq] (a: &std::cmp::Ordering, b: &std::cmp::Ordering) -> (r: bool)
    ensures r == (*a == *b);
