// Environment of unit `fetch_once_rrdp` (C37, gate part of C31): opaque types, ASSUMED
// contracts, and the lock protocol as monotone ghost facts (see units/fetch_once_rsync/env.rs
// for the reading of the facts; here the key is the rpkiNotify URI).

#[verifier::external_body] pub struct PathBuf { _opaque: () }
#[verifier::external_body] pub struct HttpClient { _opaque: () }
#[verifier::external_body] pub struct RunFailed { _opaque: () }
#[verifier::external_body] pub struct LogBookWriter { _opaque: () }
#[verifier::external_body] pub struct LogBook { _opaque: () }
#[verifier::external_body] pub struct FmtArgs { _opaque: () }
#[verifier::external_body] pub struct Duration { _opaque: () }
#[verifier::external_body] pub struct SystemTimeError { _opaque: () }
#[derive(Clone, Copy)]
pub struct StatusCode(pub u16);
#[verifier::external_body] pub struct Uuid { _opaque: () }
#[verifier::external_body] pub struct ReadRepository { _opaque: () }
#[verifier::external_body] pub struct Repository { _opaque: () }
#[derive(Clone, Copy)]
#[verifier::external_body] pub struct FallbackTime { _opaque: () }
#[verifier::external_body] #[verifier::reject_recursive_types(T)] pub struct RwLock<T> { _t: T }
#[verifier::external_body] #[verifier::reject_recursive_types(T)] pub struct Mutex<T> { _t: T }
#[verifier::external_body] #[verifier::reject_recursive_types(T)] pub struct RwLockReadGuard<'a, T> { _t: &'a T }
#[verifier::external_body] #[verifier::reject_recursive_types(T)] pub struct RwLockWriteGuard<'a, T> { _t: &'a T }
#[verifier::external_body] #[verifier::reject_recursive_types(T)] pub struct MutexGuard<'a, T> { _t: &'a T }

#[verifier::external_body] pub fn fmt_opaque() -> FmtArgs { unimplemented!() }

#[verifier::external_body] pub struct Https { _opaque: () }
impl Clone for Https {
    #[verifier::external_body]
    fn clone(&self) -> (r: Self) ensures r == *self { unimplemented!() }
}
impl Https {
    pub uninterp spec fn dubious_spec(&self) -> bool;
    // utils::uri::UriExt::has_dubious_authority (classifier: Kani part of C31)
    #[verifier::external_body]
    pub fn has_dubious_authority(&self) -> (r: bool) ensures r == self.dubious_spec() { unimplemented!() }
}

pub uninterp spec fn run_of<T>(l: &RwLock<T>) -> int;
pub uninterp spec fn in_updated(run: int, uri: Https) -> bool;
// Ghost clock (rewrite R20): every read()/write()/lock() and the fetch call is one step.
// `held`: the acquisition steps of the mutex guards this call holds: `lock` adds its step, an explicit
// `drop(guard)` removes it (a guard that simply goes out of scope at the end of the function is the
// business of the *_hold unit).
pub tracked struct Clock { pub ghost now: nat, pub ghost held: Set<nat> }
// the guard acquired at step t read `updated` and found the URI absent
pub uninterp spec fn seen_absent_at(run: int, uri: Https, t: nat) -> bool;
pub uninterp spec fn mutex_of(run: int, uri: Https, mx: &Mutex<()>) -> bool;
pub uninterp spec fn lock_acquired_at<T>(mx: &Mutex<T>, t: nat) -> bool;
pub uninterp spec fn fetched(run: int, uri: Https) -> bool;

impl LogBookWriter {
    #[verifier::external_body] pub fn new(process_prefix: Option<FmtArgs>) -> LogBookWriter { unimplemented!() }
    #[verifier::external_body] pub fn warn(&mut self, args: FmtArgs) { unimplemented!() }
    #[verifier::external_body] pub fn into_book(self) -> LogBook { unimplemented!() }
}
impl LogBook {
    #[verifier::external_body] pub fn is_empty(&self) -> bool { unimplemented!() }
}
impl Repository {
    // opens the archive for reading (its own mutex is internal); not a step of the protocol
    #[verifier::external_body]
    fn read(&self, Tracked(clk): Tracked<&mut Clock>) -> (r: Result<Arc<ReadRepository>, RunFailed>)
        ensures final(clk).now == old(clk).now, final(clk).held == old(clk).held,
    { unimplemented!() }
}
impl RrdpRepositoryMetrics {
    #[verifier::external_body] fn new(notify_uri: Https) -> RrdpRepositoryMetrics { unimplemented!() }
}

// ---- the fetch: RepositoryUpdate::try_update contacts the RRDP server (unit rrdp_update, C25)
#[verifier::external_body] pub struct RepositoryUpdate<'a> { _p: &'a () }
impl<'a> RepositoryUpdate<'a> {
    uninterp spec fn collector_spec(&self) -> &Collector;
    pub uninterp spec fn uri_spec(&self) -> Https;
    // creating the update object computes a path; no request is made
    #[verifier::external_body]
    fn new(collector: &'a Collector, rpki_notify: &'a Https, log: &'a mut LogBookWriter) -> (r: Result<RepositoryUpdate<'a>, RunFailed>)
        ensures r matches Ok(u) ==> u.collector_spec() == collector && u.uri_spec() == *rpki_notify,
    { unimplemented!() }
    #[verifier::external_body]
    fn try_update(self, Tracked(clk): Tracked<&mut Clock>) -> (r: Result<(LoadResult<Repository>, RrdpRepositoryMetrics), RunFailed>)
        requires
            // C31 (gate): no RRDP request for a dubious host while filtering is on
            !(self.collector_spec().config.filter_dubious && self.uri_spec().dubious_spec()),
            // C37 (G4): fetch only after acquiring a mutex taken from running[uri] and AFTERWARDS
            // having read `updated` and found the URI absent
            exists|mx: &Mutex<()>, tl: nat, tc: nat| #[trigger] mutex_of(self.collector_spec().run_spec(), self.uri_spec(), mx)
                && #[trigger] lock_acquired_at(mx, tl) && #[trigger] seen_absent_at(self.collector_spec().run_spec(), self.uri_spec(), tc)
                && tl < tc && tc < old(clk).now
                // ... and that mutex has not been released since
                && old(clk).held.contains(tl),
        ensures fetched(self.collector_spec().run_spec(), self.uri_spec()), final(clk).now == old(clk).now + 1, final(clk).held == old(clk).held,
    { unimplemented!() }
}
impl Collector {
    // ghost back-pointer: the run that uses this collector
    uninterp spec fn run_spec(&self) -> int;
}

// ---- locks
impl<T> RwLock<T> {
    #[verifier::external_body]
    pub fn read(&self, Tracked(clk): Tracked<&mut Clock>) -> (g: RwLockReadGuard<'_, T>)
        ensures g.run() == run_of(self), g.time() == old(clk).now, final(clk).now == old(clk).now + 1, final(clk).held == old(clk).held,
    { unimplemented!() }
    #[verifier::external_body]
    pub fn write(&self, Tracked(clk): Tracked<&mut Clock>) -> (g: RwLockWriteGuard<'_, T>)
        ensures g.run() == run_of(self), g.time() == old(clk).now, final(clk).now == old(clk).now + 1, final(clk).held == old(clk).held,
    { unimplemented!() }
}
impl<'a, T> RwLockReadGuard<'a, T> { pub uninterp spec fn run(&self) -> int; pub uninterp spec fn time(&self) -> nat; }
impl<'a, T> RwLockWriteGuard<'a, T> { pub uninterp spec fn run(&self) -> int; pub uninterp spec fn time(&self) -> nat; }
impl<T> Mutex<T> {
    #[verifier::external_body]
    pub fn lock(&self, Tracked(clk): Tracked<&mut Clock>) -> (g: MutexGuard<'_, T>)
        ensures g.mutex_spec() == self, g.acquired_at() == old(clk).now, lock_acquired_at(self, old(clk).now),
                final(clk).now == old(clk).now + 1, final(clk).held == old(clk).held.insert(old(clk).now),
    { unimplemented!() }
}
impl<'a, T> MutexGuard<'a, T> {
    pub uninterp spec fn mutex_spec(&self) -> &Mutex<T>;
    pub uninterp spec fn acquired_at(&self) -> nat;
}

// `updated`: rpkiNotify URI -> result of the update
impl<'a> RwLockReadGuard<'a, HashMap<Https, LoadResult<Repository>>> {
    #[verifier::external_body]
    fn get(&self, uri: &Https) -> (r: Option<&LoadResult<Repository>>)
        ensures r is Some ==> in_updated(self.run(), *uri), r is None ==> seen_absent_at(self.run(), *uri, self.time()),
    { unimplemented!() }
}
impl<'a> RwLockWriteGuard<'a, HashMap<Https, LoadResult<Repository>>> {
    #[verifier::external_body]
    fn insert(&mut self, uri: Https, repo: LoadResult<Repository>, Tracked(clk): Tracked<&mut Clock>) -> (r: Option<LoadResult<Repository>>)
        requires
            // C37 (G3): a repository is recorded as updated only by a thread that acquired its mutex
            // before and has NOT released it since
            exists|mx: &Mutex<()>, tl: nat| #[trigger] mutex_of(old(self).run(), uri, mx)
                && #[trigger] lock_acquired_at(mx, tl) && tl < old(self).time() && old(clk).held.contains(tl),
        ensures in_updated(old(self).run(), uri), final(self).run() == old(self).run(), final(self).time() == old(self).time(),
                final(clk).now == old(clk).now, final(clk).held == old(clk).held,
    { unimplemented!() }
}
// `running`: rpkiNotify URI -> mutex
#[verifier::external_body] pub struct RunningEntry<'a> { _p: &'a () }
impl<'a> RunningEntry<'a> {
    pub uninterp spec fn run(&self) -> int;
    pub uninterp spec fn key(&self) -> Https;
    #[verifier::external_body]
    pub fn or_default(self) -> (r: &'a mut Arc<Mutex<()>>)
        ensures mutex_of(self.run(), self.key(), &**r),
    { unimplemented!() }
}
impl<'a> RwLockWriteGuard<'a, HashMap<Https, Arc<Mutex<()>>>> {
    #[verifier::external_body]
    pub fn entry(&mut self, key: Https) -> (r: RunningEntry<'_>)
        ensures r.run() == old(self).run(), r.key() == key, final(self).run() == old(self).run(), final(self).time() == old(self).time(),
    { unimplemented!() }
    #[verifier::external_body]
    pub fn remove(&mut self, uri: &Https) -> (r: Option<Arc<Mutex<()>>>)
        requires
            // C37 (G2): the in-progress marker of a repository is removed only once it is in `updated`
            in_updated(old(self).run(), *uri),
        ensures final(self).run() == old(self).run(), final(self).time() == old(self).time(),
    { unimplemented!() }
}
impl<'a> MutexGuard<'a, Vec<RrdpRepositoryMetrics>> {
    #[verifier::external_body]
    fn push(&mut self, m: RrdpRepositoryMetrics) { unimplemented!() }
}

// ---- further guard API used in collector/rrdp/base.rs
impl<'a> RwLockReadGuard<'a, HashMap<Https, LoadResult<Repository>>> {
    #[verifier::external_body]
    fn contains_key(&self, uri: &Https) -> (r: bool)
        ensures r ==> in_updated(self.run(), *uri), !r ==> seen_absent_at(self.run(), *uri, self.time()),
    { unimplemented!() }
    #[verifier::external_body] fn len(&self) -> usize { unimplemented!() }
    #[verifier::external_body] fn is_empty(&self) -> bool { unimplemented!() }
}
impl<'a> RwLockWriteGuard<'a, HashMap<Https, LoadResult<Repository>>> {
    #[verifier::external_body]
    fn get(&self, uri: &Https) -> (r: Option<&LoadResult<Repository>>)
        ensures r is Some ==> in_updated(self.run(), *uri), r is None ==> seen_absent_at(self.run(), *uri, self.time()),
    { unimplemented!() }
    #[verifier::external_body]
    fn contains_key(&self, uri: &Https) -> (r: bool)
        ensures r ==> in_updated(self.run(), *uri), !r ==> seen_absent_at(self.run(), *uri, self.time()),
    { unimplemented!() }
}
impl<'a> RwLockReadGuard<'a, HashMap<Https, Arc<Mutex<()>>>> {
    #[verifier::external_body] fn contains_key(&self, uri: &Https) -> bool { unimplemented!() }
    #[verifier::external_body]
    fn get(&self, uri: &Https) -> (r: Option<&Arc<Mutex<()>>>)
        ensures r matches Some(mx) ==> mutex_of(self.run(), *uri, &**mx),
    { unimplemented!() }
}
impl<'a> RwLockWriteGuard<'a, HashMap<Https, Arc<Mutex<()>>>> {
    #[verifier::external_body] fn contains_key(&self, uri: &Https) -> bool { unimplemented!() }
    // inserting a fresh mutex REPLACES the entry: only allowed once the repository is in `updated` (G2)
    #[verifier::external_body]
    fn insert(&mut self, uri: Https, mx: Arc<Mutex<()>>, Tracked(clk): Tracked<&mut Clock>) -> (r: Option<Arc<Mutex<()>>>)
        requires in_updated(old(self).run(), uri),
        ensures final(self).run() == old(self).run(), final(self).time() == old(self).time(),
                final(clk).now == old(clk).now, final(clk).held == old(clk).held,
    { unimplemented!() }
}
impl LogBookWriter {
    #[verifier::external_body] pub fn info(&mut self, args: FmtArgs) { unimplemented!() }
    #[verifier::external_body] pub fn debug(&mut self, args: FmtArgs) { unimplemented!() }
    #[verifier::external_body] pub fn error(&mut self, args: FmtArgs) { unimplemented!() }
}

// ---- std functions without a vstd specification (ASSUMED; their std definitions). Declared so
// that a change of the code to one of these combinators is verified instead of rejected.
pub assume_specification<T: Ord + core::marker::Destruct> [std::cmp::max] (a: T, b: T) -> (r: T)
    ensures <T as vstd::std_specs::cmp::OrdSpec>::obeys_cmp_spec() ==> r == (if vstd::std_specs::cmp::OrdSpec::cmp_spec(&a, &b) == std::cmp::Ordering::Greater { a } else { b });
pub assume_specification<T: Ord + core::marker::Destruct> [std::cmp::min] (a: T, b: T) -> (r: T)
    ensures <T as vstd::std_specs::cmp::OrdSpec>::obeys_cmp_spec() ==> r == (if vstd::std_specs::cmp::OrdSpec::cmp_spec(&a, &b) == std::cmp::Ordering::Greater { b } else { a });
pub assume_specification<T> [bool::then_some] (b: bool, t: T) -> (r: Option<T>)
    ensures r == (if b { Some(t) } else { None::<T> });
pub assume_specification<T, U> [Option::<T>::and] (a: Option<T>, b: Option<U>) -> (r: Option<U>)
    ensures r == (if a is Some { b } else { None::<U> });
pub assume_specification<T> [Option::<T>::or] (a: Option<T>, b: Option<T>) -> (r: Option<T>)
    ensures r == (if a is Some { a } else { b });
pub assume_specification<T> [Option::<T>::xor] (a: Option<T>, b: Option<T>) -> (r: Option<T>)
    ensures r == (if a is Some && b is None { a } else if a is None && b is Some { b } else { None::<T> });
pub assume_specification<T, U> [Option::<T>::zip] (a: Option<T>, b: Option<U>) -> (r: Option<(T, U)>)
    ensures r == (if a is Some && b is Some { Some((a->Some_0, b->Some_0)) } else { None::<(T, U)> });
pub assume_specification<T> [Option::<T>::replace] (a: &mut Option<T>, v: T) -> (r: Option<T>)
    ensures r == *old(a), *final(a) == Some(v);
pub assume_specification<T, F: FnOnce(T) -> bool> [Option::<T>::is_some_and] (a: Option<T>, f: F) -> (r: bool)
    requires a is Some ==> f.requires((a->Some_0,)),
    ensures a is None ==> !r, a is Some ==> f.ensures((a->Some_0,), r);
pub assume_specification<T, U, F: FnOnce(T) -> U> [Option::<T>::map_or] (a: Option<T>, default: U, f: F) -> (r: U)
    requires a is Some ==> f.requires((a->Some_0,)),
    ensures a is None ==> r == default, a is Some ==> f.ensures((a->Some_0,), r);
pub assume_specification<T, P: FnOnce(&T) -> bool> [Option::<T>::filter] (a: Option<T>, p: P) -> (r: Option<T>)
    requires a is Some ==> p.requires((&a->Some_0,)),
    ensures a is None ==> r is None, r is Some ==> r == a,
            a is Some ==> (p.ensures((&a->Some_0,), true) ==> r == a) && (p.ensures((&a->Some_0,), false) ==> r is None),
        // the predicate returned SOME boolean for the element, and the result follows it
        a is Some ==> exists|__b: bool| p.ensures((&a->Some_0,), __b) && r == (if __b { a } else { None::<T> });
pub assume_specification<T, E, U, F: FnOnce(T) -> Result<U, E>> [Result::<T, E>::and_then] (a: Result<T, E>, f: F) -> (r: Result<U, E>)
    requires a is Ok ==> f.requires((a->Ok_0,)),
    ensures a is Err ==> r == Err::<U, E>(a->Err_0), a is Ok ==> f.ensures((a->Ok_0,), r);
pub assume_specification<T, E, U> [Result::<T, E>::and] (a: Result<T, E>, b: Result<U, E>) -> (r: Result<U, E>)
    ensures r == (if a is Ok { b } else { Err::<U, E>(a->Err_0) });
pub assume_specification<T, E, F> [Result::<T, E>::or] (a: Result<T, E>, b: Result<T, F>) -> (r: Result<T, F>)
    ensures r == (if a is Ok { Ok::<T, F>(a->Ok_0) } else { b });
pub assume_specification<T, E, F: FnOnce(T) -> bool> [Result::<T, E>::is_ok_and] (a: Result<T, E>, f: F) -> (r: bool)
    requires a is Ok ==> f.requires((a->Ok_0,)),
    ensures a is Err ==> !r, a is Ok ==> f.ensures((a->Ok_0,), r);
pub assume_specification<T, E> [Result::<T, E>::unwrap_or] (a: Result<T, E>, default: T) -> (r: T)
    ensures r == (if a is Ok { a->Ok_0 } else { default });
pub assume_specification<T, E, F: FnOnce(E) -> T> [Result::<T, E>::unwrap_or_else] (a: Result<T, E>, f: F) -> (r: T)
    requires a is Err ==> f.requires((a->Err_0,)),
    ensures a is Ok ==> r == a->Ok_0, a is Err ==> f.ensures((a->Err_0,), r);

impl Default for Mutex<()> {
    // a brand-new mutex: not the mutex of any module/repository of this run
    #[verifier::external_body] fn default() -> Self { unimplemented!() }
}

// std::mem::drop applied to a mutex guard: releases the mutex -- a clocked event (rule R20, "drop" in
// clock_calls). Shadows the prelude's `drop` inside the generated module.
#[verifier::external_body]
pub fn drop<'a, T>(g: MutexGuard<'a, T>, Tracked(clk): Tracked<&mut Clock>)
    ensures final(clk).now == old(clk).now + 1, final(clk).held == old(clk).held.remove(g.acquired_at()),
{ unimplemented!() }

// std::borrow::Cow<'_, str> (stand-in with the two variants) and rpki's canonical_authority
pub enum Cow<'a> { Borrowed(&'a str), Owned(String) }
impl<'a> Cow<'a> {
    pub open spec fn view(&self) -> Seq<char> {
        match *self { Cow::Borrowed(s) => s@, Cow::Owned(s) => s@ }
    }
    #[verifier::external_body]
    pub fn as_ref(&self) -> (r: &str) ensures r@ == self.view() { unimplemented!() }
}
impl Https {
    pub uninterp spec fn canonical_authority_spec(&self) -> Seq<char>;
    #[verifier::external_body]
    pub fn canonical_authority(&self) -> (r: Cow<'_>) ensures r.view() == self.canonical_authority_spec() { unimplemented!() }
    #[verifier::external_body] pub fn authority(&self) -> (r: &str) { unimplemented!() }
    #[verifier::external_body] pub fn as_str(&self) -> (r: &str) { unimplemented!() }
}

// Collector::repository_path (same file; verified in unit `paths`, C30): the archive path of a
// repository; creates the authority directory, may fail fatally. It starts no request.
#[verifier::external_body] pub struct Fatal { _opaque: () }
impl From<Fatal> for RunFailed {
    #[verifier::external_body] fn from(err: Fatal) -> Self { unimplemented!() }
}
impl Collector {
    #[verifier::external_body]
    fn repository_path(&self, rpki_notify: &Https) -> (r: Result<PathBuf, Fatal>) { unimplemented!() }
}
impl PathBuf {
    // std::path::Path::exists / is_file / is_dir: what the file system holds; nothing is assumed
    #[verifier::external_body] pub fn exists(&self) -> bool { unimplemented!() }
    #[verifier::external_body] pub fn is_file(&self) -> bool { unimplemented!() }
    #[verifier::external_body] pub fn is_dir(&self) -> bool { unimplemented!() }
}
