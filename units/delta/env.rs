// Environment of unit `delta`.

// rpki::rtr::payload::Action: a plain two-variant Copy enum in rpki.
#[derive(Clone, Copy)]
pub enum Action { Announce, Withdraw }
