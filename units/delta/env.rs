// Environment of unit `delta`.

// rpki::rtr::payload::Action: a plain two-variant Copy enum in rpki.
#[derive(Clone, Copy)]
pub enum Action { Announce, Withdraw }
// derive(PartialEq, Eq) in rpki: structural equality (ASSUMED)
impl PartialEqSpecImpl for Action {
    open spec fn obeys_eq_spec() -> bool { true }
    open spec fn eq_spec(&self, other: &Action) -> bool { *self == *other }
}
impl PartialEq for Action {
    #[verifier::external_body]
    fn eq(&self, other: &Action) -> bool { unimplemented!() }
}
impl Eq for Action {}
impl Action {
    #[verifier::external_body]
    pub fn is_announce(self) -> (r: bool) ensures r == (self is Announce) { unimplemented!() }
    #[verifier::external_body]
    pub fn is_withdraw(self) -> (r: bool) ensures r == (self is Withdraw) { unimplemented!() }
}

// std: `impl<A: Clone, B: Clone> Clone for (A, B)` clones componentwise. Verus cannot express the
// built-in tuple impl, so rewrite R11 turns `x.clone()` on the listed pair-typed variables into
// this function (ASSUMED: the std semantics).
#[verifier::external_body]
pub fn clone_pair<A: Clone, B: Clone>(t: &(A, B)) -> (r: (A, B))
    ensures
        call_ensures(A::clone, (&t.0,), r.0),
        call_ensures(B::clone, (&t.1,), r.1),
{ unimplemented!() }

// std: `Iterator::cloned` over an iterator of `&(A, B)`. Verus has no specification for `cloned`,
// rejects one (provided trait method), and cannot resolve `Cloned<I>::Item` for tuple items (built-in
// tuple Clone). Rewrite R11 therefore turns `it.cloned()` into `iter_cloned_pairs(it)`, which returns
// this opaque stand-in iterator. ASSUMED (the std semantics of the adapter): it yields a
// componentwise clone of every item of `it`, in order, and is lawful, finite and exhausted exactly
// when `it` is.
#[verifier::external_body]
#[verifier::reject_recursive_types(I)]
pub struct ClonedPairs<I> { _inner: I }

impl<'a, A: 'a + Clone, B: 'a + Clone, I: Iterator<Item = &'a (A, B)>> Iterator for ClonedPairs<I> {
    type Item = (A, B);
    #[verifier::external_body]
    fn next(&mut self) -> Option<(A, B)> { unimplemented!() }
}

#[verifier::external_body]
pub fn iter_cloned_pairs<'a, A: 'a + Clone, B: 'a + Clone, I: Iterator<Item = &'a (A, B)>>(it: I)
    -> (r: ClonedPairs<I>)
    ensures
        it.obeys_prophetic_iter_laws() ==> r.obeys_prophetic_iter_laws(),
        (r.decrease() is Some) == (it.decrease() is Some),
        r.remaining().len() <= it.remaining().len(),
        r.will_return_none() ==> it.will_return_none() && r.remaining().len() == it.remaining().len(),
        forall|k: int| 0 <= k < r.remaining().len() ==>
            call_ensures(A::clone, (&it.remaining()[k].0,), (#[trigger] r.remaining()[k]).0)
            && call_ensures(B::clone, (&it.remaining()[k].1,), r.remaining()[k].1),
{ unimplemented!() }

// ---------------------------------------------------------------- ASPA payload types (rpki crate)
// rpki::resources::Asn: an opaque Copy value with a total order (derive(Ord) on a u32 newtype in
// rpki). Its order is not modelled; `total_order::<Asn>()` is an explicit precondition wherever used.
#[verifier::external_body]
pub struct Asn { _opaque: () }
impl Clone for Asn {
    #[verifier::external_body]
    fn clone(&self) -> (r: Asn) ensures r == *self { unimplemented!() }
}
impl Copy for Asn {}
// derive(Hash) in rpki
impl std::hash::Hash for Asn {
    #[verifier::external_body]
    fn hash<H: std::hash::Hasher>(&self, state: &mut H) { unimplemented!() }
}
impl Asn {
    pub uninterp spec fn as_u32(&self) -> u32;
    #[verifier::external_body]
    pub fn from_u32(value: u32) -> (r: Asn) ensures r.as_u32() == value { unimplemented!() }
    #[verifier::external_body]
    pub fn into_u32(self) -> (r: u32) ensures r == self.as_u32() { unimplemented!() }
}
impl PartialEqSpecImpl for Asn {
    open spec fn obeys_eq_spec() -> bool { true }
    open spec fn eq_spec(&self, other: &Asn) -> bool { *self == *other }
}
impl PartialEq for Asn {
    #[verifier::external_body]
    fn eq(&self, other: &Asn) -> bool { unimplemented!() }
}
impl Eq for Asn {}
impl PartialOrd for Asn {
    #[verifier::external_body]
    fn partial_cmp(&self, other: &Asn) -> Option<Ordering> { unimplemented!() }
}
impl Ord for Asn {
    #[verifier::external_body]
    fn cmp(&self, other: &Asn) -> Ordering { unimplemented!() }
}

// rpki::rtr::pdu::ProviderAsns: an opaque value (a byte string in rpki) with derived Clone and
// PartialEq. ASSUMED: `==` on it decides equality of the value, `clone` returns an equal value.
#[verifier::external_body]
pub struct ProviderAsns { _opaque: () }
impl ProviderAsns {
    pub uninterp spec fn empty_spec() -> ProviderAsns;
    pub uninterp spec fn asn_count_spec(&self) -> u16;
    #[verifier::external_body]
    pub fn empty() -> (r: ProviderAsns) ensures r == ProviderAsns::empty_spec() { unimplemented!() }
    #[verifier::external_body]
    pub fn asn_count(&self) -> (r: u16) ensures r == self.asn_count_spec() { unimplemented!() }

    // the provider ASNs in the order they are stored (a byte string of 4-byte groups in rpki).
    // ASSUMED: iter() yields exactly this sequence; nothing is assumed about how it relates to ==
    // beyond what == on the whole value says (equal values have equal sequences, by congruence).
    pub uninterp spec fn asns_spec(&self) -> Seq<Asn>;
    pub uninterp spec fn byte_len_spec(&self) -> usize;

    #[verifier::external_body]
    pub fn iter(&self) -> (r: ProviderIter<'_>)
        ensures
            r.obeys_prophetic_iter_laws(), r.decrease() is Some,
            r.remaining().is_prefix_of(self.asns_spec()),
            r.will_return_none() ==> r.remaining() == self.asns_spec(),
    { unimplemented!() }

    #[verifier::external_body]
    pub fn len(&self) -> (r: usize) ensures r == self.byte_len_spec() { unimplemented!() }

    #[verifier::external_body]
    pub fn is_empty(&self) -> (r: bool) ensures r == (self.byte_len_spec() == 0) { unimplemented!() }
}
// the iterator returned by ProviderAsns::iter (an `impl Iterator<Item = Asn>` in rpki)
#[verifier::external_body]
pub struct ProviderIter<'a> { _p: &'a ProviderAsns }
impl<'a> Iterator for ProviderIter<'a> {
    type Item = Asn;
    #[verifier::external_body]
    fn next(&mut self) -> Option<Asn> { unimplemented!() }
}
impl Eq for ProviderAsns {}
impl Clone for ProviderAsns {
    #[verifier::external_body]
    fn clone(&self) -> (r: ProviderAsns) ensures r == *self { unimplemented!() }
}
impl PartialEqSpecImpl for ProviderAsns {
    open spec fn obeys_eq_spec() -> bool { true }
    open spec fn eq_spec(&self, other: &ProviderAsns) -> bool { *self == *other }
}
impl PartialEq for ProviderAsns {
    #[verifier::external_body]
    fn eq(&self, other: &ProviderAsns) -> bool { unimplemented!() }
}

// rpki::rtr::payload::Aspa: two public fields in rpki. ASSUMED: key() is the customer ASN,
// withdraw() keeps the customer and has the empty provider set, clone returns an equal value.
pub struct Aspa {
    pub customer: Asn,
    pub providers: ProviderAsns,
}
impl Aspa {
    #[verifier::external_body]
    pub fn key(&self) -> (r: Asn)
        ensures r == self.customer,
    { unimplemented!() }

    #[verifier::external_body]
    pub fn withdraw(&self) -> (r: Aspa)
        ensures r == (Aspa { customer: self.customer, providers: ProviderAsns::empty_spec() }),
    { unimplemented!() }
}
impl Aspa {
    #[verifier::external_body]
    pub fn new(customer: Asn, providers: ProviderAsns) -> (r: Aspa)
        ensures r == (Aspa { customer, providers }),
    { unimplemented!() }
}
impl Clone for Aspa {
    #[verifier::external_body]
    fn clone(&self) -> (r: Aspa) ensures r == *self { unimplemented!() }
}
// derive(PartialEq, Eq, PartialOrd, Ord) in rpki: == is structural (ASSUMED); the order is not modelled
impl PartialEqSpecImpl for Aspa {
    open spec fn obeys_eq_spec() -> bool { true }
    open spec fn eq_spec(&self, other: &Aspa) -> bool { *self == *other }
}
impl PartialEq for Aspa {
    #[verifier::external_body]
    fn eq(&self, other: &Aspa) -> bool { unimplemented!() }
}
impl Eq for Aspa {}
impl PartialOrd for Aspa {
    #[verifier::external_body]
    fn partial_cmp(&self, other: &Aspa) -> Option<Ordering> { unimplemented!() }
}
impl Ord for Aspa {
    #[verifier::external_body]
    fn cmp(&self, other: &Aspa) -> Ordering { unimplemented!() }
}

// routinator's PayloadInfo: not used by the delta code beyond being passed along.
#[verifier::external_body]
pub struct PayloadInfo { _opaque: () }

// ---------------------------------------------------------------- PayloadDelta's environment
// rpki::rtr::Serial: a transparent u32 newtype. `add` wraps modulo 2^32 (ASSUMED here; the history
// unit discharges the same contract against the real rpki code with a Kani harness).
#[derive(Clone, Copy)]
pub struct Serial(pub u32);
pub open spec fn wadd(a: u32, b: int) -> u32 { ((a as int + b) % 0x1_0000_0000) as u32 }
impl PartialEqSpecImpl for Serial {
    open spec fn obeys_eq_spec() -> bool { true }
    open spec fn eq_spec(&self, other: &Serial) -> bool { self.0 == other.0 }
}
impl PartialEq for Serial {
    #[verifier::external_body]
    fn eq(&self, other: &Self) -> bool { unimplemented!() }
}
impl Eq for Serial {}
impl vstd::std_specs::convert::FromSpecImpl<u32> for Serial {
    open spec fn obeys_from_spec() -> bool { true }
    open spec fn from_spec(v: u32) -> Serial { Serial(v) }
}
impl From<u32> for Serial {
    #[verifier::external_body]
    fn from(value: u32) -> Serial { unimplemented!() }
}
impl vstd::std_specs::convert::FromSpecImpl<Serial> for u32 {
    open spec fn obeys_from_spec() -> bool { true }
    open spec fn from_spec(v: Serial) -> u32 { v.0 }
}
impl From<Serial> for u32 {
    #[verifier::external_body]
    fn from(value: Serial) -> u32 { unimplemented!() }
}
impl Serial {
    #[verifier::external_body]
    pub fn add(self, other: u32) -> (r: Serial)
        requires other <= 0x7FFF_FFFF,
        ensures r.0 == wadd(self.0, other as int),
    { unimplemented!() }
}

// rpki::rtr::payload::{RouteOrigin, RouterKey}: opaque values with derived Clone and Ord.
// ASSUMED: clone returns an equal value. Their order is not modelled; `total_order::<..>()` is an
// explicit precondition wherever used.
#[verifier::external_body]
pub struct RouteOrigin { _opaque: () }
impl Clone for RouteOrigin {
    #[verifier::external_body]
    fn clone(&self) -> (r: RouteOrigin) ensures r == *self { unimplemented!() }
}
impl Copy for RouteOrigin {}
impl PartialEqSpecImpl for RouteOrigin {
    open spec fn obeys_eq_spec() -> bool { true }
    open spec fn eq_spec(&self, other: &RouteOrigin) -> bool { *self == *other }
}
impl PartialEq for RouteOrigin {
    #[verifier::external_body]
    fn eq(&self, other: &RouteOrigin) -> bool { unimplemented!() }
}
impl Eq for RouteOrigin {}
impl PartialOrd for RouteOrigin {
    #[verifier::external_body]
    fn partial_cmp(&self, other: &RouteOrigin) -> Option<Ordering> { unimplemented!() }
}
impl Ord for RouteOrigin {
    #[verifier::external_body]
    fn cmp(&self, other: &RouteOrigin) -> Ordering { unimplemented!() }
}
#[verifier::external_body]
pub struct RouterKey { _opaque: () }
impl Clone for RouterKey {
    #[verifier::external_body]
    fn clone(&self) -> (r: RouterKey) ensures r == *self { unimplemented!() }
}
impl PartialEqSpecImpl for RouterKey {
    open spec fn obeys_eq_spec() -> bool { true }
    open spec fn eq_spec(&self, other: &RouterKey) -> bool { *self == *other }
}
impl PartialEq for RouterKey {
    #[verifier::external_body]
    fn eq(&self, other: &RouterKey) -> bool { unimplemented!() }
}
impl Eq for RouterKey {}
impl PartialOrd for RouterKey {
    #[verifier::external_body]
    fn partial_cmp(&self, other: &RouterKey) -> Option<Ordering> { unimplemented!() }
}
impl Ord for RouterKey {
    #[verifier::external_body]
    fn cmp(&self, other: &RouterKey) -> Ordering { unimplemented!() }
}

// routinator's PayloadSnapshot: three data sets. Abstract here: the ghost sequences are what the
// accessors iterate over. ASSUMED: each accessor returns a lawful finite iterator over
// (item, info) pairs whose items are, in order, the data set (all of it if the iterator is run to
// completion, a prefix of it otherwise).
#[verifier::external_body]
pub struct PayloadSnapshot { _opaque: () }

#[verifier::external_body]
#[verifier::reject_recursive_types(T)]
pub struct CollIter<'a, T> { _p: &'a T }
impl<'a, T> Iterator for CollIter<'a, T> {
    type Item = (&'a T, &'a PayloadInfo);
    #[verifier::external_body]
    fn next(&mut self) -> Option<(&'a T, &'a PayloadInfo)> { unimplemented!() }
    // std: `count` runs the iterator to completion and returns the number of items it yielded
    #[verifier::external_body]
    fn count(self) -> (r: usize)
        ensures self.will_return_none(), r == self.remaining().len(),
    { unimplemented!() }
}

pub open spec fn pair_firsts<T>(s: Seq<(&T, &PayloadInfo)>) -> Seq<T> { s.map_values(|x: (&T, &PayloadInfo)| *x.0) }

impl PayloadSnapshot {
    pub uninterp spec fn origins_spec(&self) -> Seq<RouteOrigin>;
    pub uninterp spec fn router_keys_spec(&self) -> Seq<RouterKey>;
    pub uninterp spec fn aspas_spec(&self) -> Seq<Aspa>;

    #[verifier::external_body]
    pub fn origin_refs(&self) -> (r: CollIter<'_, RouteOrigin>)
        ensures
            r.obeys_prophetic_iter_laws(), r.decrease() is Some,
            pair_firsts(r.remaining()).is_prefix_of(self.origins_spec()),
            r.will_return_none() ==> pair_firsts(r.remaining()) == self.origins_spec(),
    { unimplemented!() }

    #[verifier::external_body]
    pub fn router_keys(&self) -> (r: CollIter<'_, RouterKey>)
        ensures
            r.obeys_prophetic_iter_laws(), r.decrease() is Some,
            pair_firsts(r.remaining()).is_prefix_of(self.router_keys_spec()),
            r.will_return_none() ==> pair_firsts(r.remaining()) == self.router_keys_spec(),
    { unimplemented!() }

    #[verifier::external_body]
    pub fn aspas(&self) -> (r: CollIter<'_, Aspa>)
        ensures
            r.obeys_prophetic_iter_laws(), r.decrease() is Some,
            pair_firsts(r.remaining()).is_prefix_of(self.aspas_spec()),
            r.will_return_none() ==> pair_firsts(r.remaining()) == self.aspas_spec(),
    { unimplemented!() }
}

// std functions without a vstd specification (ASSUMED: the std semantics)
pub assume_specification<'a, T> [<std::slice::Iter<'a, T> as Iterator>::count] (it: std::slice::Iter<'a, T>) -> (r: usize)
    ensures it.will_return_none(), r == it.remaining().len(),
;

// std: provided `Iterator` methods that Verus cannot be given a specification for (it rejects
// assume_specification for provided trait methods). Rewrite R18 (unit.json "envcalls") turns
// `x.eq(y)`, `x.ne(y)`, `x.count()` into these functions. ASSUMED (std semantics): `eq` is true only if
// both iterators were run to completion and yielded equally many, pairwise == items; `count` runs the
// iterator to completion and returns the number of items. (What a `false` result of `eq` implies about
// the prophetic `remaining()` sequences is left unspecified.)
#[verifier::external_body]
pub fn iter_eq<A: Iterator, B: Iterator>(a: A, b: B) -> (r: bool)
    where A::Item: PartialEq<B::Item>
    ensures
        r && a.obeys_prophetic_iter_laws() && b.obeys_prophetic_iter_laws() ==> {
            &&& a.will_return_none() && b.will_return_none()
            &&& a.remaining().len() == b.remaining().len()
            &&& <A::Item as PartialEqSpec<B::Item>>::obeys_eq_spec() ==>
                    forall|k: int| 0 <= k < a.remaining().len() ==>
                        (#[trigger] a.remaining()[k]).eq_spec(&b.remaining()[k])
        },
{ unimplemented!() }

#[verifier::external_body]
pub fn iter_ne<A: Iterator, B: Iterator>(a: A, b: B) -> (r: bool)
    where A::Item: PartialEq<B::Item>
    ensures
        !r && a.obeys_prophetic_iter_laws() && b.obeys_prophetic_iter_laws() ==> {
            &&& a.will_return_none() && b.will_return_none()
            &&& a.remaining().len() == b.remaining().len()
            &&& <A::Item as PartialEqSpec<B::Item>>::obeys_eq_spec() ==>
                    forall|k: int| 0 <= k < a.remaining().len() ==>
                        (#[trigger] a.remaining()[k]).eq_spec(&b.remaining()[k])
        },
{ unimplemented!() }

#[verifier::external_body]
pub fn iter_count<A: Iterator>(a: A) -> (r: usize)
    ensures a.obeys_prophetic_iter_laws() ==> a.will_return_none() && r == a.remaining().len(),
{ unimplemented!() }

// rpki::rtr::Serial also compares with a bare u32 (same contract as in units/history/env.rs,
// discharged there by the Kani harness serial_eq_from_contract)
impl PartialEqSpecImpl<u32> for Serial {
    open spec fn obeys_eq_spec() -> bool { true }
    open spec fn eq_spec(&self, other: &u32) -> bool { self.0 == *other }
}
impl PartialEq<u32> for Serial {
    #[verifier::external_body]
    fn eq(&self, other: &u32) -> bool { unimplemented!() }
}

// ---------------------------------------------------------------- serving a delta (DeltaArcIter)
// rpki::rtr::payload::{PayloadType, PayloadRef}: plain enums in rpki; the From conversions wrap the
// value in the variant of its type (ASSUMED: as in rpki).
#[derive(Clone, Copy)]
pub enum PayloadType { Origin, RouterKey, Aspa }

#[derive(Clone, Copy)]
pub enum PayloadRef<'a> {
    Origin(RouteOrigin),
    RouterKey(&'a RouterKey),
    Aspa(&'a Aspa),
}
impl<'a> vstd::std_specs::convert::FromSpecImpl<&'a RouteOrigin> for PayloadRef<'a> {
    open spec fn obeys_from_spec() -> bool { true }
    open spec fn from_spec(v: &'a RouteOrigin) -> PayloadRef<'a> { PayloadRef::Origin(*v) }
}
impl<'a> From<&'a RouteOrigin> for PayloadRef<'a> {
    #[verifier::external_body]
    fn from(src: &'a RouteOrigin) -> PayloadRef<'a> { unimplemented!() }
}
impl<'a> vstd::std_specs::convert::FromSpecImpl<RouteOrigin> for PayloadRef<'a> {
    open spec fn obeys_from_spec() -> bool { true }
    open spec fn from_spec(v: RouteOrigin) -> PayloadRef<'a> { PayloadRef::Origin(v) }
}
impl<'a> From<RouteOrigin> for PayloadRef<'a> {
    #[verifier::external_body]
    fn from(src: RouteOrigin) -> PayloadRef<'a> { unimplemented!() }
}
impl<'a> vstd::std_specs::convert::FromSpecImpl<&'a RouterKey> for PayloadRef<'a> {
    open spec fn obeys_from_spec() -> bool { true }
    open spec fn from_spec(v: &'a RouterKey) -> PayloadRef<'a> { PayloadRef::RouterKey(v) }
}
impl<'a> From<&'a RouterKey> for PayloadRef<'a> {
    #[verifier::external_body]
    fn from(src: &'a RouterKey) -> PayloadRef<'a> { unimplemented!() }
}
impl<'a> vstd::std_specs::convert::FromSpecImpl<&'a Aspa> for PayloadRef<'a> {
    open spec fn obeys_from_spec() -> bool { true }
    open spec fn from_spec(v: &'a Aspa) -> PayloadRef<'a> { PayloadRef::Aspa(v) }
}
impl<'a> From<&'a Aspa> for PayloadRef<'a> {
    #[verifier::external_body]
    fn from(src: &'a Aspa) -> PayloadRef<'a> { unimplemented!() }
}

// rpki::rtr::server::PayloadDiff: the interface through which the RTR server pulls a delta's actions
pub trait PayloadDiff {
    fn next(&mut self) -> Option<(PayloadRef<'_>, Action)>;
}
