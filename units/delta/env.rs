// Environment of unit `delta`.

// rpki::rtr::payload::Action: a plain two-variant Copy enum in rpki.
#[derive(Clone, Copy)]
pub enum Action { Announce, Withdraw }

// std: `impl<A: Clone, B: Clone> Clone for (A, B)` clones componentwise. Verus cannot express the
// built-in tuple impl, so rewrite R11 turns `x.clone()` on the listed pair-typed variables into
// this function (ASSUMED: the std semantics).
#[verifier::external_body]
pub fn clone_pair<A: Clone, B: Clone>(t: &(A, B)) -> (r: (A, B))
    ensures
        call_ensures(A::clone, (&t.0,), r.0),
        call_ensures(B::clone, (&t.1,), r.1),
{ unimplemented!() }

// std: `Iterator::cloned` over an iterator of `&(A, B)`. Verus has no specification for `cloned`,
// rejects one (provided trait method), and cannot resolve `Cloned<I>::Item` for tuple items (built-in
// tuple Clone). Rewrite R11 therefore turns `it.cloned()` into `iter_cloned_pairs(it)`, which returns
// this opaque stand-in iterator. ASSUMED (the std semantics of the adapter): it yields a
// componentwise clone of every item of `it`, in order, and is lawful, finite and exhausted exactly
// when `it` is.
#[verifier::external_body]
#[verifier::reject_recursive_types(I)]
pub struct ClonedPairs<I> { _inner: I }

impl<'a, A: 'a + Clone, B: 'a + Clone, I: Iterator<Item = &'a (A, B)>> Iterator for ClonedPairs<I> {
    type Item = (A, B);
    #[verifier::external_body]
    fn next(&mut self) -> Option<(A, B)> { unimplemented!() }
}

#[verifier::external_body]
pub fn iter_cloned_pairs<'a, A: 'a + Clone, B: 'a + Clone, I: Iterator<Item = &'a (A, B)>>(it: I)
    -> (r: ClonedPairs<I>)
    ensures
        it.obeys_prophetic_iter_laws() ==> r.obeys_prophetic_iter_laws(),
        (r.decrease() is Some) == (it.decrease() is Some),
        r.remaining().len() <= it.remaining().len(),
        r.will_return_none() ==> it.will_return_none() && r.remaining().len() == it.remaining().len(),
        forall|k: int| 0 <= k < r.remaining().len() ==>
            call_ensures(A::clone, (&it.remaining()[k].0,), (#[trigger] r.remaining()[k]).0)
            && call_ensures(B::clone, (&it.remaining()[k].1,), r.remaining()[k].1),
{ unimplemented!() }

// ---------------------------------------------------------------- ASPA payload types (rpki crate)
// rpki::resources::Asn: an opaque Copy value with a total order (derive(Ord) on a u32 newtype in
// rpki). Its order is not modelled; `total_order::<Asn>()` is an explicit precondition wherever used.
#[verifier::external_body]
pub struct Asn { _opaque: () }
impl Clone for Asn {
    #[verifier::external_body]
    fn clone(&self) -> (r: Asn) ensures r == *self { unimplemented!() }
}
impl Copy for Asn {}
impl PartialEq for Asn {
    #[verifier::external_body]
    fn eq(&self, other: &Asn) -> bool { unimplemented!() }
}
impl Eq for Asn {}
impl PartialOrd for Asn {
    #[verifier::external_body]
    fn partial_cmp(&self, other: &Asn) -> Option<Ordering> { unimplemented!() }
}
impl Ord for Asn {
    #[verifier::external_body]
    fn cmp(&self, other: &Asn) -> Ordering { unimplemented!() }
}

// rpki::rtr::pdu::ProviderAsns: an opaque value (a byte string in rpki) with derived Clone and
// PartialEq. ASSUMED: `==` on it decides equality of the value, `clone` returns an equal value.
#[verifier::external_body]
pub struct ProviderAsns { _opaque: () }
impl ProviderAsns {
    pub uninterp spec fn empty_spec() -> ProviderAsns;
}
impl Clone for ProviderAsns {
    #[verifier::external_body]
    fn clone(&self) -> (r: ProviderAsns) ensures r == *self { unimplemented!() }
}
impl PartialEqSpecImpl for ProviderAsns {
    open spec fn obeys_eq_spec() -> bool { true }
    open spec fn eq_spec(&self, other: &ProviderAsns) -> bool { *self == *other }
}
impl PartialEq for ProviderAsns {
    #[verifier::external_body]
    fn eq(&self, other: &ProviderAsns) -> bool { unimplemented!() }
}

// rpki::rtr::payload::Aspa: two public fields in rpki. ASSUMED: key() is the customer ASN,
// withdraw() keeps the customer and has the empty provider set, clone returns an equal value.
pub struct Aspa {
    pub customer: Asn,
    pub providers: ProviderAsns,
}
impl Aspa {
    #[verifier::external_body]
    pub fn key(&self) -> (r: Asn)
        ensures r == self.customer,
    { unimplemented!() }

    #[verifier::external_body]
    pub fn withdraw(&self) -> (r: Aspa)
        ensures r == (Aspa { customer: self.customer, providers: ProviderAsns::empty_spec() }),
    { unimplemented!() }
}
impl Clone for Aspa {
    #[verifier::external_body]
    fn clone(&self) -> (r: Aspa) ensures r == *self { unimplemented!() }
}

// routinator's PayloadInfo: not used by the delta code beyond being passed along.
#[verifier::external_body]
pub struct PayloadInfo { _opaque: () }
