//@ fn StandardDelta::push
//@ params
&mut self, item: (P, Action)
//@ entry
    let (payload, action) = item;
