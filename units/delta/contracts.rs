//@ fn StandardDelta::default
//@ spec
    ensures res.is_default(),
//@ fn StandardDelta::push
//@ spec
    requires
        old(self).counted(),
        old(self).items@.len() < usize::MAX,
    ensures
        final(self).items@ == old(self).items@.push(__p1),
        // C11 C12: counts match the listed actions
        final(self).counted(),
//@ entry
    proof {
        lemma_cnt_total(self.items@);
        assert(self.items@.push(__p1).drop_last() =~= self.items@);
    }
//@ fn StandardDelta::is_empty
//@ spec
    ensures res == (self.items@.len() == 0),
//@ fn StandardDelta::extend
//@ spec
    requires
        old(self).counted(),
        iter.obeys_prophetic_iter_laws(),
        iter.decrease() is Some,
        old(self).items@.len() + iter.remaining().len() <= usize::MAX,
    ensures
        final(self).items@ == old(self).items@ + iter.remaining(),
        iter.will_return_none(),
        // C11 C12: counts match the listed actions
        final(self).counted(),
//@ beforeloop 1
        let ghost rem0 = iter.remaining();
        let ghost wrn0 = iter.will_return_none();
//@ loopvar 1 it
//@ loop 1
        invariant
            self.counted(),
            it.seq() == rem0, it.iter.obeys_prophetic_iter_laws(), it.iter.decrease() is Some,
            0 <= it.index@ <= rem0.len(),
            self.items@ =~= old(self).items@ + rem0.take(it.index@ as int),
            old(self).items@.len() + rem0.len() <= usize::MAX,
            it.iter.will_return_none() == wrn0,
//@ fn StandardDelta::construct
//@ spec
    requires
        // assumptions on the payload type (derive-generated Ord / Clone in rpki)
        total_order::<P>(),
        clone_exact::<P>(),
        // the iterators are lawful and finite
        old_iter.obeys_prophetic_iter_laws(), old_iter.decrease() is Some,
        new_iter.obeys_prophetic_iter_laws(), new_iter.decrease() is Some,
        // the two data sets are strictly sorted (snapshot invariant), and fit into memory
        ssorted(deref_seq(old_iter.remaining())),
        ssorted(deref_seq(new_iter.remaining())),
        old_iter.remaining().len() + new_iter.remaining().len() <= usize::MAX,
    ensures
        // C11: the change set withdraws exactly the items of the old set that are not in the new set and
        // announces exactly the items of the new set that are not in the old set, once each, in key order
        describes_change(res.items@, deref_seq(old_iter.remaining()), deref_seq(new_iter.remaining())),
        // C11: it is empty exactly when the two data sets are equal
        res.items@.len() == 0 <==> deref_seq(old_iter.remaining()) == deref_seq(new_iter.remaining()),
        // C11: applying it to the old data set yields the new data set
        applying_yields(deref_seq(old_iter.remaining()), res.items@, deref_seq(new_iter.remaining())),
        // C11: counts match the listed actions
        res.counted(),
        // C11 C12 C14: the change set as a function of the two data sets
        res.items@ == diff(deref_seq(old_iter.remaining()), deref_seq(new_iter.remaining())),
        // both iterators are run to completion: the data sets above are all they had to yield
        old_iter.will_return_none() && new_iter.will_return_none(),
//@ entry
    let ghost O = deref_seq(old_iter.remaining());
    let ghost N = deref_seq(new_iter.remaining());
    let ghost wo0 = old_iter.will_return_none();
    let ghost wn0 = new_iter.will_return_none();
//@ beforeloop 1
    proof {
        assert(rest(opt_old, old_iter.remaining()) =~= O);
        assert(rest(opt_new, new_iter.remaining()) =~= N);
    }
//@ loop 1
        invariant_except_break
            // C11 C12 C14
            diff(O, N) == items.items@ + diff(rest(opt_old, old_iter.remaining()), rest(opt_new, new_iter.remaining())),
            items.items@.len() + rest(opt_old, old_iter.remaining()).len() + rest(opt_new, new_iter.remaining()).len() <= usize::MAX,
            old_iter.will_return_none() == wo0,
            new_iter.will_return_none() == wn0,
        invariant
            clone_exact::<P>(),
            total_order::<P>(),
            old_iter.obeys_prophetic_iter_laws(), old_iter.decrease() is Some,
            new_iter.obeys_prophetic_iter_laws(), new_iter.decrease() is Some,
            opt_old is None ==> old_iter.remaining().len() == 0 && old_iter.will_return_none(),
            opt_new is None ==> new_iter.remaining().len() == 0 && new_iter.will_return_none(),
            items.counted(),
        ensures
            // C11 C12 C14
            items.items@ =~= diff(O, N),
            wo0 && wn0,
        decreases
            (if opt_old is Some { 1 + old_iter.decrease()->Some_0 } else { 0 })
            + (if opt_new is Some { 1 + new_iter.decrease()->Some_0 } else { 0 }),
//@ loopentry 1
            let ghost items0 = items.items@;
            let ghost ro0 = rest(opt_old, old_iter.remaining());
            let ghost rn0 = rest(opt_new, new_iter.remaining());
            proof {
                lemma_diff_unfold(rest(opt_old, old_iter.remaining()), rest(opt_new, new_iter.remaining()));
                lemma_rest(opt_old, old_iter.remaining());
                lemma_rest(opt_new, new_iter.remaining());
            }
//@ loopend 1
            proof {
                // C11 C12 C14
                assert(items0 + diff(ro0, rn0)
                    =~= items.items@ + diff(rest(opt_old, old_iter.remaining()), rest(opt_new, new_iter.remaining())));
            }
//@ afterloop 1
    proof {
        lemma_diff_describes(O, N);
        lemma_describes_empty_iff_equal(items.items@, O, N);
        lemma_describes_apply(items.items@, O, N);
    }
//@ closure 1
|x: &'a P| -> (r: (P, Action)) ensures r == (*x, Action::Announce)
//@ closurecall 1 via iter_map
                        proof {
                            assert(__r1.will_return_none() ==> __r1.remaining() =~= ann(deref_seq(new_iter.remaining())));
                        }
//@ closure 2
|x: &'a P| -> (r: (P, Action)) ensures r == (*x, Action::Withdraw)
//@ closurecall 2 via iter_map
                        proof {
                            assert(__r2.will_return_none() ==> __r2.remaining() =~= wdr(deref_seq(old_iter.remaining())));
                        }
//@ fn StandardDelta::merge
//@ envcall clone clone_pair item old_item new_item
//@ envcall cloned iter_cloned_pairs
//@ spec
    requires
        total_order::<P>(),
        clone_exact::<P>(),
        old.items@.len() + new.items@.len() <= usize::MAX,
    ensures
        // C12: if `old` is the change set from data set a to data set b and `new` the one from b to c,
        // the result is the change set from a to c: same entries, same order
        forall|a: Seq<P>, b: Seq<P>, c: Seq<P>|
            ssorted(a) && ssorted(c)
            && #[trigger] describes_change(old.items@, a, b) && #[trigger] describes_change(new.items@, b, c)
            ==> res.items@ == diff(a, c) && describes_change(res.items@, a, c),
        // C12: counts match the listed actions
        res.counted(),
        res.items@ == mrg(old.items@, new.items@),
//@ entry
    let ghost X = old.items@;
    let ghost Y = new.items@;
//@ beforeloop 1
    proof {
        assert(rest(opt_old, old_iter.remaining()) =~= X);
        assert(rest(opt_new, new_iter.remaining()) =~= Y);
    }
//@ loop 1
        invariant_except_break
            mrg(X, Y) == items.items@ + mrg(rest(opt_old, old_iter.remaining()), rest(opt_new, new_iter.remaining())),
            items.items@.len() + rest(opt_old, old_iter.remaining()).len() + rest(opt_new, new_iter.remaining()).len() <= usize::MAX,
        invariant
            clone_exact::<P>(),
            total_order::<P>(),
            old_iter.obeys_prophetic_iter_laws(), old_iter.decrease() is Some,
            new_iter.obeys_prophetic_iter_laws(), new_iter.decrease() is Some,
            opt_old is None ==> old_iter.remaining().len() == 0,
            opt_new is None ==> new_iter.remaining().len() == 0,
            items.counted(),
        ensures
            items.items@ =~= mrg(X, Y),
        decreases
            (if opt_old is Some { 1 + old_iter.decrease()->Some_0 } else { 0 })
            + (if opt_new is Some { 1 + new_iter.decrease()->Some_0 } else { 0 }),
//@ loopentry 1
            let ghost items0 = items.items@;
            let ghost ro0 = rest(opt_old, old_iter.remaining());
            let ghost rn0 = rest(opt_new, new_iter.remaining());
            proof {
                lemma_mrg_unfold(ro0, rn0);
                lemma_rest(opt_old, old_iter.remaining());
                lemma_rest(opt_new, new_iter.remaining());
            }
//@ afterloop 1
    proof {
        assert forall|a: Seq<P>, b: Seq<P>, c: Seq<P>|
            ssorted(a) && ssorted(c)
            && #[trigger] describes_change(X, a, b) && #[trigger] describes_change(Y, b, c)
            implies items.items@ == diff(a, c) && describes_change(items.items@, a, c) by {
            lemma_mrg_describes(X, Y, a, b, c);
            lemma_diff_describes(a, c);
            lemma_describes_unique(items.items@, diff(a, c), a, c);
        }
    }
//@ loopend 1
            proof {
                assert(items0 + mrg(ro0, rn0)
                    =~= items.items@ + mrg(rest(opt_old, old_iter.remaining()), rest(opt_new, new_iter.remaining())));
            }
//@ fn AspaAction::withdraw
//@ spec
    ensures res == (wd(*aspa), AspaAction::Withdraw(aspa.providers)),
//@ fn AspaDelta::push
//@ spec
    requires
        old(self).counted(),
        old(self).items@.len() < usize::MAX,
    ensures
        final(self).items@ == old(self).items@.push(__p1),
        // C11 C12: counts match the listed actions
        final(self).counted(),
//@ entry
    proof {
        lemma_acnt_total(self.items@);
        assert(self.items@.push(__p1).drop_last() =~= self.items@);
    }
//@ fn AspaDelta::is_empty
//@ spec
    ensures res == (self.items@.len() == 0),
//@ fn AspaDelta::extend
//@ spec
    requires
        old(self).counted(),
        iter.obeys_prophetic_iter_laws(),
        iter.decrease() is Some,
        old(self).items@.len() + iter.remaining().len() <= usize::MAX,
    ensures
        final(self).items@ == old(self).items@ + iter.remaining(),
        iter.will_return_none(),
        // C11 C12: counts match the listed actions
        final(self).counted(),
//@ beforeloop 1
        let ghost rem0 = iter.remaining();
        let ghost wrn0 = iter.will_return_none();
//@ loopvar 1 it
//@ loop 1
        invariant
            self.counted(),
            it.seq() == rem0, it.iter.obeys_prophetic_iter_laws(), it.iter.decrease() is Some,
            0 <= it.index@ <= rem0.len(),
            self.items@ =~= old(self).items@ + rem0.take(it.index@ as int),
            old(self).items@.len() + rem0.len() <= usize::MAX,
            it.iter.will_return_none() == wrn0,
//@ fn AspaDelta::construct
//@ spec
    requires
        // assumption on rpki's Asn: its Ord is a strict total order whose Equal is ==
        total_order::<Asn>(),
        // the iterators are lawful and finite
        old_iter.obeys_prophetic_iter_laws(), old_iter.decrease() is Some,
        new_iter.obeys_prophetic_iter_laws(), new_iter.decrease() is Some,
        // the two data sets are strictly sorted by customer ASN: one ASPA per customer (snapshot invariant)
        asorted(firsts(old_iter.remaining())),
        asorted(firsts(new_iter.remaining())),
        old_iter.remaining().len() + new_iter.remaining().len() <= usize::MAX,
    ensures
        // C11 C12 C14: per customer, the change set says exactly what changed: nothing if the ASPA is unchanged,
        // a withdrawal if the customer disappeared, an announcement if it is new, an update (carrying the
        // old providers) if only the provider set changed; one entry per customer, in customer order.
        // (C12: this is the premise AspaDelta::merge consumes.)
        adescribes(res.items@, firsts(old_iter.remaining()), firsts(new_iter.remaining())),
        // C12: the provider set stored in every Update/Withdraw entry is the one the customer had in the
        // OLD data set - merge takes it as the original baseline when it combines successive entries
        stores_old_providers(res.items@, firsts(old_iter.remaining())),
        // C11: it is empty exactly when the two data sets are equal
        res.items@.len() == 0 <==> firsts(old_iter.remaining()) == firsts(new_iter.remaining()),
        // C11: applying it to the old data set yields the new data set
        aspa_applying_yields(firsts(old_iter.remaining()), res.items@, firsts(new_iter.remaining())),
        // C11: counts match the listed actions
        res.counted(),
        // C11 C12 C14: the change set as a function of the two data sets
        res.items@ == adiff(firsts(old_iter.remaining()), firsts(new_iter.remaining())),
        // both iterators are run to completion: the data sets above are all they had to yield
        old_iter.will_return_none() && new_iter.will_return_none(),
//@ entry
    let ghost PO = old_iter.remaining();
    let ghost PN = new_iter.remaining();
    let ghost pwo = old_iter.will_return_none();
    let ghost pwn = new_iter.will_return_none();
//@ closure 1
|__cp1: (&'a Aspa, &'a PayloadInfo)| -> (r: &'a Aspa) ensures r == __cp1.0
//@ closurecall 1 via iter_map
        proof {
            assert(__r1.will_return_none() ==> pwo);
            assert(__r1.will_return_none() ==> deref_seq(__r1.remaining()) =~= firsts(PO));
        }
//@ closure 2
|__cp1: (&'a Aspa, &'a PayloadInfo)| -> (r: &'a Aspa) ensures r == __cp1.0
//@ closurecall 2 via iter_map
        proof {
            assert(__r2.will_return_none() ==> pwn);
            assert(__r2.will_return_none() ==> deref_seq(__r2.remaining()) =~= firsts(PN));
        }
//@ beforeloop 1
    let ghost O = rest(opt_old, old_iter.remaining());
    let ghost N = rest(opt_new, new_iter.remaining());
    let ghost wo0 = old_iter.will_return_none();
    let ghost wn0 = new_iter.will_return_none();
    proof {
        lemma_rest_all::<Aspa>();
        assert(wo0 ==> O =~= firsts(PO));
        assert(wn0 ==> N =~= firsts(PN));
        assert(wo0 ==> pwo);
        assert(wn0 ==> pwn);
        assert(O.len() <= PO.len());
        assert(N.len() <= PN.len());
    }
//@ loop 1
        invariant_except_break
            // C11 C12 C14: what has been emitted plus what remains to be emitted is the change set old -> new
            adiff(O, N) == items.items@ + adiff(rest(opt_old, old_iter.remaining()), rest(opt_new, new_iter.remaining())),
            items.items@.len() + rest(opt_old, old_iter.remaining()).len() + rest(opt_new, new_iter.remaining()).len() <= usize::MAX,
            old_iter.will_return_none() == wo0,
            new_iter.will_return_none() == wn0,
        invariant
            total_order::<Asn>(),
            old_iter.obeys_prophetic_iter_laws(), old_iter.decrease() is Some,
            new_iter.obeys_prophetic_iter_laws(), new_iter.decrease() is Some,
            opt_old is None ==> old_iter.remaining().len() == 0 && old_iter.will_return_none(),
            opt_new is None ==> new_iter.remaining().len() == 0 && new_iter.will_return_none(),
            items.counted(),
        ensures
            // C11 C12 C14
            items.items@ =~= adiff(O, N),
            wo0 && wn0,
        decreases
            (if opt_old is Some { 1 + old_iter.decrease()->Some_0 } else { 0 })
            + (if opt_new is Some { 1 + new_iter.decrease()->Some_0 } else { 0 }),
//@ loopentry 1
            proof {
            }
            let ghost items0 = items.items@;
            let ghost ro0 = rest(opt_old, old_iter.remaining());
            let ghost rn0 = rest(opt_new, new_iter.remaining());
            proof {
                lemma_adiff_unfold(ro0, rn0);
                lemma_rest(opt_old, old_iter.remaining());
                lemma_rest(opt_new, new_iter.remaining());
            }
//@ loopend 1
            proof {
                // C11 C12 C14: one step of the merge-join emits exactly the entry the change set has for this
                // customer (for an Update: carrying the OLD providers)
                assert(items0 + adiff(ro0, rn0)
                    =~= items.items@ + adiff(rest(opt_old, old_iter.remaining()), rest(opt_new, new_iter.remaining())));
            }
//@ afterloop 1
    proof {
        assert(O == firsts(PO) && N == firsts(PN));
        lemma_adiff_describes(O, N);
        lemma_adescribes_empty_iff_equal(items.items@, O, N);
        lemma_adescribes_apply(items.items@, O, N);
        lemma_adescribes_stores_old(items.items@, O, N);
    }
//@ closure 3
|x: &'a Aspa| -> (r: (Aspa, AspaAction)) ensures r == (*x, AspaAction::Announce)
//@ closurecall 3 via iter_map
                    proof {
                        assert(__r3.will_return_none() ==> __r3.remaining() =~= aann(deref_seq(new_iter.remaining())));
                    }
//@ fn AspaDelta::merge
//@ envcall clone clone_pair item old_item new_item
//@ envcall cloned iter_cloned_pairs
//@ spec
    requires
        total_order::<Asn>(),
        // derive(Clone) on AspaAction returns an equal value (its only fields are ProviderAsns)
        clone_exact::<AspaAction>(),
        old.items@.len() + new.items@.len() <= usize::MAX,
    ensures
        // C12: if `old` is the change set from data set a to data set b and `new` the one from b to c,
        // the result is the change set from a to c: same entries, same order
        forall|a: Seq<Aspa>, b: Seq<Aspa>, c: Seq<Aspa>|
            asorted(a) && asorted(c)
            && #[trigger] adescribes(old.items@, a, b) && #[trigger] adescribes(new.items@, b, c)
            ==> res.items@ == adiff(a, c) && adescribes(res.items@, a, c)
                // C12: the stored provider sets of the result are again those of the older side's OLD data set
                && stores_old_providers(res.items@, a),
        // C12: counts match the listed actions
        res.counted(),
        res.items@ == amrg(old.items@, new.items@),
//@ entry
    let ghost X = old.items@;
    let ghost Y = new.items@;
//@ beforeloop 1
    proof {
        assert(rest(opt_old, old_iter.remaining()) =~= X);
        assert(rest(opt_new, new_iter.remaining()) =~= Y);
    }
//@ loop 1
        invariant_except_break
            amrg(X, Y) == items.items@ + amrg(rest(opt_old, old_iter.remaining()), rest(opt_new, new_iter.remaining())),
            items.items@.len() + rest(opt_old, old_iter.remaining()).len() + rest(opt_new, new_iter.remaining()).len() <= usize::MAX,
        invariant
            clone_exact::<AspaAction>(),
            total_order::<Asn>(),
            old_iter.obeys_prophetic_iter_laws(), old_iter.decrease() is Some,
            new_iter.obeys_prophetic_iter_laws(), new_iter.decrease() is Some,
            opt_old is None ==> old_iter.remaining().len() == 0,
            opt_new is None ==> new_iter.remaining().len() == 0,
            items.counted(),
        ensures
            items.items@ =~= amrg(X, Y),
        decreases
            (if opt_old is Some { 1 + old_iter.decrease()->Some_0 } else { 0 })
            + (if opt_new is Some { 1 + new_iter.decrease()->Some_0 } else { 0 }),
//@ loopentry 1
            let ghost items0 = items.items@;
            let ghost ro0 = rest(opt_old, old_iter.remaining());
            let ghost rn0 = rest(opt_new, new_iter.remaining());
            proof {
                lemma_amrg_unfold(ro0, rn0);
                lemma_rest(opt_old, old_iter.remaining());
                lemma_rest(opt_new, new_iter.remaining());
            }
//@ afterloop 1
    proof {
        assert forall|a: Seq<Aspa>, b: Seq<Aspa>, c: Seq<Aspa>|
            asorted(a) && asorted(c)
            && #[trigger] adescribes(X, a, b) && #[trigger] adescribes(Y, b, c)
            implies items.items@ == adiff(a, c) && adescribes(items.items@, a, c)
                && stores_old_providers(items.items@, a) by {
            lemma_amrg_describes(X, Y, a, b, c);
            lemma_adiff_describes(a, c);
            lemma_adescribes_unique(items.items@, adiff(a, c), a, c);
            lemma_adescribes_stores_old(items.items@, a, c);
        }
    }
//@ loopend 1
            proof {
                assert(items0 + amrg(ro0, rn0)
                    =~= items.items@ + amrg(rest(opt_old, old_iter.remaining()), rest(opt_new, new_iter.remaining())));
            }
//@ fn PayloadDelta::empty
//@ spec
    ensures
        res.serial == serial,
        res.is_empty_spec(),
        res.counted(),
        // C11/C12: the empty change set is the change from any data set to itself
        forall|s: &PayloadSnapshot| #[trigger] res.describes(s, s),
//@ fn PayloadDelta::is_empty
//@ spec
    ensures res == self.is_empty_spec(),
//@ fn PayloadDelta::serial
//@ spec
    ensures res == self.serial,
//@ fn PayloadDelta::announce_len
//@ spec
    requires
        self.counted(),
        self.origins.items@.len() + self.router_keys.items@.len() + self.aspas.items@.len() <= usize::MAX,
    ensures
        // C11: the count of announcements is the number of Announce (and ASPA Update) entries listed
        res == cnt(self.origins.items@, Action::Announce) + cnt(self.router_keys.items@, Action::Announce)
            + acnt(self.aspas.items@, false),
//@ entry
    proof {
        lemma_cnt_total(self.origins.items@);
        lemma_cnt_total(self.router_keys.items@);
        lemma_acnt_total(self.aspas.items@);
    }
//@ fn PayloadDelta::withdraw_len
//@ spec
    requires
        self.counted(),
        self.origins.items@.len() + self.router_keys.items@.len() + self.aspas.items@.len() <= usize::MAX,
    ensures
        // C11: the count of withdrawals is the number of Withdraw entries listed
        res == cnt(self.origins.items@, Action::Withdraw) + cnt(self.router_keys.items@, Action::Withdraw)
            + acnt(self.aspas.items@, true),
//@ entry
    proof {
        lemma_cnt_total(self.origins.items@);
        lemma_cnt_total(self.router_keys.items@);
        lemma_acnt_total(self.aspas.items@);
    }
//@ fn PayloadDelta::merge
//@ spec
    requires
        payload_types_ok(),
        self.origins.items@.len() + new.origins.items@.len() <= usize::MAX,
        self.router_keys.items@.len() + new.router_keys.items@.len() <= usize::MAX,
        self.aspas.items@.len() + new.aspas.items@.len() <= usize::MAX,
    ensures
        // C12: the merged change set carries the serial of the newer one
        res.serial == new.serial,
        // C12: if `self` is the change from data set a to b and `new` the change from b to c, the
        // result is the change from a to c (all three payload types; entries and order)
        forall|a: &PayloadSnapshot, b: &PayloadSnapshot, c: &PayloadSnapshot|
            snap_sorted(a) && snap_sorted(c) && #[trigger] self.describes(a, b) && #[trigger] new.describes(b, c)
            ==> res.describes(a, c),
        res.counted(),
//@ fn PayloadDelta::construct
//@ spec
    requires
        payload_types_ok(),
        snap_sorted(old), snap_sorted(new),
        old.origins_spec().len() + new.origins_spec().len() <= usize::MAX,
        old.router_keys_spec().len() + new.router_keys_spec().len() <= usize::MAX,
        old.aspas_spec().len() + new.aspas_spec().len() <= usize::MAX,
    ensures
        // C11 + C14 (the serial moves exactly when the data changed): no change set is produced exactly when the two data sets are equal
        res is None <==> (old.origins_spec() == new.origins_spec()
            && old.router_keys_spec() == new.router_keys_spec() && old.aspas_spec() == new.aspas_spec()),
        // C11 + C14 (serial advances by exactly one, wrapping): otherwise it is exactly the change from old to new (all three payload types), it is not
        // empty, its counters match its entries, and its serial is the given one plus one
        res matches Some(d) ==> d.describes(old, new) && !d.is_empty_spec() && d.counted()
            && d.serial.0 == wadd(serial.0, 1)
            && applying_yields(old.origins_spec(), d.origins.items@, new.origins_spec())
            && applying_yields(old.router_keys_spec(), d.router_keys.items@, new.router_keys_spec())
            && aspa_applying_yields(old.aspas_spec(), d.aspas.items@, new.aspas_spec()),
//@ closure 1
|item| -> (r: &RouteOrigin) ensures r == item.0
//@ closurecall 1 via iter_map
                proof {
                    lemma_map_prefix(__i1.remaining(), __r1.remaining(), old.origins_spec());
                    assert(__r1.will_return_none() ==> deref_seq(__r1.remaining()) =~= old.origins_spec());
                }
//@ closure 2
|item| -> (r: &RouteOrigin) ensures r == item.0
//@ closurecall 2 via iter_map
                proof {
                    lemma_map_prefix(__i2.remaining(), __r2.remaining(), new.origins_spec());
                    assert(__r2.will_return_none() ==> deref_seq(__r2.remaining()) =~= new.origins_spec());
                }
//@ closure 3
|item| -> (r: &RouterKey) ensures r == item.0
//@ closurecall 3 via iter_map
                proof {
                    lemma_map_prefix(__i3.remaining(), __r3.remaining(), old.router_keys_spec());
                    assert(__r3.will_return_none() ==> deref_seq(__r3.remaining()) =~= old.router_keys_spec());
                }
//@ closure 4
|item| -> (r: &RouterKey) ensures r == item.0
//@ closurecall 4 via iter_map
                proof {
                    lemma_map_prefix(__i4.remaining(), __r4.remaining(), new.router_keys_spec());
                    assert(__r4.will_return_none() ==> deref_seq(__r4.remaining()) =~= new.router_keys_spec());
                }
//@ fn StandardDelta::get
//@ spec
    ensures
        idx < self.items@.len() ==> res == Some((&self.items@[idx as int].0, self.items@[idx as int].1)),
        idx >= self.items@.len() ==> res is None,
//@ closure map 1 optional
|item: &(P, Action)| -> (r: (&P, Action)) ensures r == (&item.0, item.1)
//@ fn AspaDelta::get
//@ spec
    ensures
        // C11: an ASPA entry is served as an announcement (Announce, Update) or a withdrawal
        idx < self.items@.len() ==> res == Some((&self.items@[idx as int].0, rtr_action(self.items@[idx as int].1))),
        idx >= self.items@.len() ==> res is None,
//@ closure map 1 optional
|item: &(Aspa, AspaAction)| -> (r: (&Aspa, Action)) ensures r == (&item.0, rtr_action(item.1))
//@ fn DeltaArcIter::new
//@ spec
    ensures
        res.delta == delta,
        // C11: a fresh iterator stands before the first listed action
        res.wf() && res.pos() == 0,
//@ fn DeltaArcIter::next
//@ spec
    ensures
        // C11: repeated next() yields exactly the delta's listed actions - the route origins' entries, then
        // the router keys', then the ASPAs' (an Update served as an announcement), each in order and each
        // exactly once: the call returns the action at the current position and advances by one, or
        // returns None (and stays) when all have been returned; the phase index restarts at 0
        DeltaArcIter::next_post(*old(self), *final(self), res),
//@ entry
    proof {
        lemma_listed_actions(&*self.delta);
        assert(self.delta.origins.items@.len() == self.delta.origins.items.len() <= usize::MAX);
        assert(self.delta.router_keys.items@.len() == self.delta.router_keys.items.len() <= usize::MAX);
        assert(self.delta.aspas.items@.len() == self.delta.aspas.items.len() <= usize::MAX);
    }
//@ global
// ---------------------------------------------------------------- order and clone assumptions on P
spec fn lt<P: Ord>(a: P, b: P) -> bool { a.cmp_spec(&b) == Ordering::Less }

// `Ord for P` is a strict total order whose Equal is ==  (true of derive-generated Ord on
// RouteOrigin / RouterKey / Asn; stated as an explicit precondition)
spec fn total_order<P: Ord>() -> bool {
    &&& P::obeys_cmp_spec()
    &&& forall|a: P, b: P| (#[trigger] a.cmp_spec(&b) == Ordering::Equal) <==> a == b
    &&& forall|a: P, b: P| (#[trigger] a.cmp_spec(&b) == Ordering::Greater) <==> b.cmp_spec(&a) == Ordering::Less
    &&& forall|a: P, b: P, c: P| #[trigger] lt(a, b) && #[trigger] lt(b, c) ==> lt(a, c)
}

// `Clone for P` returns an equal value
spec fn clone_exact<P: Clone>() -> bool { forall|a: &P, b: P| #[trigger] call_ensures(P::clone, (a,), b) ==> *a == b }



// `i.map(f)` with everything vstd knows about the result stated as a postcondition (vstd states
// it in a broadcast lemma, map_postcondition, that the solver cannot instantiate for a closure
// literal). Rewrite R15 routes the `.map(<closure>)` calls of the functions below through this
// verified wrapper; its body is the call itself.
fn iter_map<I: Iterator, B, F: FnMut(I::Item) -> B>(i: I, f: F) -> (r: std::iter::Map<I, F>)
    requires
        i.obeys_prophetic_iter_laws(),
        forall|k: int| 0 <= k < i.remaining().len() ==> f.requires((#[trigger] i.remaining()[k],)),
    ensures
        r.obeys_prophetic_iter_laws(),
        (r.decrease() is Some) == (i.decrease() is Some),
        r.remaining().len() <= i.remaining().len(),
        forall|k: int| 0 <= k < r.remaining().len() ==> f.ensures((i.remaining()[k],), #[trigger] r.remaining()[k]),
        r.will_return_none() ==> i.will_return_none() && r.remaining().len() == i.remaining().len(),
        vstd::std_specs::iter::map_iter(r) == i,
        vstd::std_specs::iter::map_fun(r) == f,
{
    let r = i.map(f);
    proof { vstd::std_specs::iter::map_postcondition(i, f, r); }
    r
}

// ---------------------------------------------------------------- sequences
spec fn ssorted<P: Ord>(s: Seq<P>) -> bool { forall|i: int, j: int| 0 <= i < j < s.len() ==> lt(s[i], s[j]) }

spec fn deref_seq<P>(s: Seq<&P>) -> Seq<P> { s.map_values(|r: &P| *r) }
spec fn ann<P>(s: Seq<P>) -> Seq<(P, Action)> { s.map_values(|p: P| (p, Action::Announce)) }
spec fn wdr<P>(s: Seq<P>) -> Seq<(P, Action)> { s.map_values(|p: P| (p, Action::Withdraw)) }

// what is still to be consumed: the looked-ahead item plus what the iterator will yield
spec fn rest<P>(opt: Option<&P>, rem: Seq<&P>) -> Seq<P> {
    match opt { Some(x) => seq![*x] + deref_seq(rem), None => Seq::empty() }
}

proof fn lemma_rest<P>(opt: Option<&P>, rem: Seq<&P>)
    ensures
        opt is Some ==> rest(opt, rem).len() == rem.len() + 1 && rest(opt, rem)[0] == *opt->Some_0
            && rest(opt, rem).drop_first() =~= deref_seq(rem),
        opt is None ==> rest(opt, rem).len() == 0,
        rem.len() > 0 ==> deref_seq(rem) =~= rest(Some(rem[0]), rem.drop_first()),
        rem.len() == 0 ==> deref_seq(rem) =~= rest(None, rem),
{
}

// the merge-join of two sorted sequences written as a recursive function (the link between the
// loop and the declarative statement `describes_change` proved about it below)
spec fn diff<P: Ord>(o: Seq<P>, n: Seq<P>) -> Seq<(P, Action)>
    decreases o.len() + n.len()
{
    if o.len() == 0 { ann(n) }
    else if n.len() == 0 { wdr(o) }
    else {
        match o[0].cmp_spec(&n[0]) {
            Ordering::Less => seq![(o[0], Action::Withdraw)] + diff(o.drop_first(), n),
            Ordering::Equal => diff(o.drop_first(), n.drop_first()),
            Ordering::Greater => seq![(n[0], Action::Announce)] + diff(o, n.drop_first()),
        }
    }
}

proof fn lemma_diff_unfold<P: Ord>(o: Seq<P>, n: Seq<P>)
    ensures
        o.len() == 0 ==> diff(o, n) == ann(n),
        o.len() > 0 && n.len() == 0 ==> diff(o, n) == wdr(o),
        o.len() > 0 && n.len() > 0 && o[0].cmp_spec(&n[0]) == Ordering::Less ==>
            diff(o, n) == seq![(o[0], Action::Withdraw)] + diff(o.drop_first(), n),
        o.len() > 0 && n.len() > 0 && o[0].cmp_spec(&n[0]) == Ordering::Equal ==>
            diff(o, n) == diff(o.drop_first(), n.drop_first()),
        o.len() > 0 && n.len() > 0 && o[0].cmp_spec(&n[0]) == Ordering::Greater ==>
            diff(o, n) == seq![(n[0], Action::Announce)] + diff(o, n.drop_first()),
{
}

// number of entries of `s` carrying action `a`
spec fn cnt<P>(s: Seq<(P, Action)>, a: Action) -> nat
    decreases s.len()
{
    if s.len() == 0 { 0 } else { cnt(s.drop_last(), a) + if s.last().1 == a { 1nat } else { 0nat } }
}

impl<P> StandardDelta<P> {
    // (pub closed only because `Default::default` is a public trait method; the body is visible in this module)
    pub closed spec fn is_default(&self) -> bool {
        self.items@ == Seq::<(P, Action)>::empty() && self.announce_len == 0 && self.withdraw_len == 0
    }
    // C11: announce_len / withdraw_len are the numbers of Announce / Withdraw entries
    spec fn counted(&self) -> bool {
        &&& self.announce_len == cnt(self.items@, Action::Announce)
        &&& self.withdraw_len == cnt(self.items@, Action::Withdraw)
    }
}

proof fn lemma_cnt_total<P>(s: Seq<(P, Action)>)
    ensures cnt(s, Action::Announce) + cnt(s, Action::Withdraw) == s.len()
    decreases s.len()
{
    if s.len() > 0 { lemma_cnt_total(s.drop_last()); }
}

// ---------------------------------------------------------------- C12: merging
// what two change sets say about one key, combined (None: the two cancel out)
spec fn mrg_action(a: Action, b: Action) -> Option<Action> {
    match (a, b) {
        (Action::Announce, Action::Announce) => Some(Action::Announce),
        (Action::Withdraw, Action::Withdraw) => Some(Action::Withdraw),
        _ => None,
    }
}

// the merge-join of two key-sorted change sets as a recursive function (link between the loop
// and the statement `lemma_mrg_describes` proved about it)
spec fn mrg<P: Ord>(x: Seq<(P, Action)>, y: Seq<(P, Action)>) -> Seq<(P, Action)>
    decreases x.len() + y.len()
{
    if x.len() == 0 { y }
    else if y.len() == 0 { x }
    else {
        match x[0].0.cmp_spec(&y[0].0) {
            Ordering::Less => seq![x[0]] + mrg(x.drop_first(), y),
            Ordering::Greater => seq![y[0]] + mrg(x, y.drop_first()),
            Ordering::Equal => (match mrg_action(x[0].1, y[0].1) {
                Some(a) => seq![(y[0].0, a)],
                None => Seq::empty(),
            }) + mrg(x.drop_first(), y.drop_first()),
        }
    }
}

proof fn lemma_mrg_unfold<P: Ord>(x: Seq<(P, Action)>, y: Seq<(P, Action)>)
    ensures
        x.len() == 0 ==> mrg(x, y) == y,
        x.len() > 0 && y.len() == 0 ==> mrg(x, y) == x,
        x.len() > 0 && y.len() > 0 && x[0].0.cmp_spec(&y[0].0) == Ordering::Less ==>
            mrg(x, y) == seq![x[0]] + mrg(x.drop_first(), y),
        x.len() > 0 && y.len() > 0 && x[0].0.cmp_spec(&y[0].0) == Ordering::Greater ==>
            mrg(x, y) == seq![y[0]] + mrg(x, y.drop_first()),
        x.len() > 0 && y.len() > 0 && x[0].0.cmp_spec(&y[0].0) == Ordering::Equal ==>
            mrg(x, y) == (match mrg_action(x[0].1, y[0].1) {
                Some(a) => seq![(y[0].0, a)],
                None => Seq::empty(),
            }) + mrg(x.drop_first(), y.drop_first()),
{
}
// ---------------------------------------------------------------- C11: what diff(o, n) is, declaratively
spec fn keys_sorted<P: Ord>(d: Seq<(P, Action)>) -> bool {
    forall|i: int, j: int| 0 <= i < j < d.len() ==> lt(d[i].0, d[j].0)
}

// C11: `d` lists, in key order and once each, a Withdraw for exactly the items of `o` that are not
// in `n` and an Announce for exactly the items of `n` that are not in `o`
spec fn describes_change<P: Ord>(d: Seq<(P, Action)>, o: Seq<P>, n: Seq<P>) -> bool {
    &&& keys_sorted(d)
    &&& forall|p: P| #[trigger] d.contains((p, Action::Withdraw)) <==> (o.contains(p) && !n.contains(p))
    &&& forall|p: P| #[trigger] d.contains((p, Action::Announce)) <==> (n.contains(p) && !o.contains(p))
}

proof fn lemma_contains_cons<T>(x: T, s: Seq<T>, y: T)
    ensures (seq![x] + s).contains(y) <==> (y == x || s.contains(y)),
{
    let c = seq![x] + s;
    if c.contains(y) {
        let i = choose|i: int| 0 <= i < c.len() && c[i] == y;
        if i > 0 { assert(s[i - 1] == y); }
    }
    if y == x { assert(c[0] == y); }
    if s.contains(y) {
        let i = choose|i: int| 0 <= i < s.len() && s[i] == y;
        assert(c[i + 1] == y);
    }
}

proof fn lemma_contains_first<T>(s: Seq<T>, y: T)
    requires s.len() > 0,
    ensures s.contains(y) <==> (y == s[0] || s.drop_first().contains(y)),
{
    assert(s =~= seq![s[0]] + s.drop_first());
    lemma_contains_cons(s[0], s.drop_first(), y);
}

proof fn lemma_sorted_tail<P: Ord>(s: Seq<P>)
    requires total_order::<P>(), ssorted(s), s.len() > 0,
    ensures
        ssorted(s.drop_first()),
        forall|y: P| #[trigger] s.drop_first().contains(y) ==> lt(s[0], y),
        !s.drop_first().contains(s[0]),
{
    let t = s.drop_first();
    assert forall|i: int, j: int| 0 <= i < j < t.len() implies lt(t[i], t[j]) by {
        assert(t[i] == s[i + 1] && t[j] == s[j + 1]);
    }
    assert forall|y: P| #[trigger] t.contains(y) implies lt(s[0], y) by {
        let i = choose|i: int| 0 <= i < t.len() && t[i] == y;
        assert(t[i] == s[i + 1]);
    }
    if t.contains(s[0]) {
        assert(lt(s[0], s[0]));
        assert(s[0].cmp_spec(&s[0]) == Ordering::Equal);
    }
}

// every element of a sorted sequence is >= its head
proof fn lemma_sorted_head_min<P: Ord>(s: Seq<P>, y: P)
    requires total_order::<P>(), ssorted(s), s.len() > 0, s.contains(y),
    ensures y == s[0] || lt(s[0], y),
{
    lemma_contains_first(s, y);
    lemma_sorted_tail(s);
}

proof fn lemma_map_contains<P>(s: Seq<P>, a: Action, p: P, b: Action)
    ensures s.map_values(|q: P| (q, a)).contains((p, b)) <==> (b == a && s.contains(p)),
{
    let m = s.map_values(|q: P| (q, a));
    if m.contains((p, b)) {
        let i = choose|i: int| 0 <= i < m.len() && m[i] == (p, b);
        assert(m[i] == (s[i], a));
        assert(s[i] == p);
    }
    if b == a && s.contains(p) {
        let i = choose|i: int| 0 <= i < s.len() && s[i] == p;
        assert(m[i] == (p, b));
    }
}

// the keys occurring in diff(o, n) occur in o or in n
proof fn lemma_diff_describes<P: Ord>(o: Seq<P>, n: Seq<P>)
    requires total_order::<P>(), ssorted(o), ssorted(n),
    ensures describes_change(diff(o, n), o, n),
    decreases o.len() + n.len(),
{
    let d = diff(o, n);
    if o.len() == 0 {
        assert forall|i: int, j: int| 0 <= i < j < d.len() implies lt(d[i].0, d[j].0) by {
            assert(d[i].0 == n[i] && d[j].0 == n[j]);
        }
        assert forall|p: P| #[trigger] d.contains((p, Action::Withdraw)) <==> (o.contains(p) && !n.contains(p)) by {
            lemma_map_contains(n, Action::Announce, p, Action::Withdraw);
        }
        assert forall|p: P| #[trigger] d.contains((p, Action::Announce)) <==> (n.contains(p) && !o.contains(p)) by {
            lemma_map_contains(n, Action::Announce, p, Action::Announce);
        }
    } else if n.len() == 0 {
        assert forall|i: int, j: int| 0 <= i < j < d.len() implies lt(d[i].0, d[j].0) by {
            assert(d[i].0 == o[i] && d[j].0 == o[j]);
        }
        assert forall|p: P| #[trigger] d.contains((p, Action::Withdraw)) <==> (o.contains(p) && !n.contains(p)) by {
            lemma_map_contains(o, Action::Withdraw, p, Action::Withdraw);
        }
        assert forall|p: P| #[trigger] d.contains((p, Action::Announce)) <==> (n.contains(p) && !o.contains(p)) by {
            lemma_map_contains(o, Action::Withdraw, p, Action::Announce);
        }
    } else {
        let o1 = o.drop_first();
        let n1 = n.drop_first();
        lemma_sorted_tail(o);
        lemma_sorted_tail(n);
        match o[0].cmp_spec(&n[0]) {
            Ordering::Less => {
                let d1 = diff(o1, n);
                lemma_diff_describes(o1, n);
                assert(d == seq![(o[0], Action::Withdraw)] + d1);
                assert(lt(o[0], n[0]));
                // o[0] is not in n
                if n.contains(o[0]) { lemma_sorted_head_min(n, o[0]); }
                assert forall|p: P| #[trigger] d.contains((p, Action::Withdraw)) <==> (o.contains(p) && !n.contains(p)) by {
                    lemma_contains_cons((o[0], Action::Withdraw), d1, (p, Action::Withdraw));
                    lemma_contains_first(o, p);
                }
                assert forall|p: P| #[trigger] d.contains((p, Action::Announce)) <==> (n.contains(p) && !o.contains(p)) by {
                    lemma_contains_cons((o[0], Action::Withdraw), d1, (p, Action::Announce));
                    lemma_contains_first(o, p);
                }
                assert(d.len() == d1.len() + 1);
                assert forall|i: int, j: int| 0 <= i < j < d.len() implies lt(d[i].0, d[j].0) by {
                    if i > 0 {
                        assert(d[i] == d1[i - 1] && d[j] == d1[j - 1]);
                    } else {
                        let e = d1[j - 1];
                        assert(d[j] == e);
                        assert(d1.contains(e));
                        assert forall|y: P| #[trigger] n.contains(y) implies lt(o[0], y) by {
                            lemma_sorted_head_min(n, y);
                        }
                        lemma_key_bound(d1, o1, n, e, o[0]);
                    }
                }
            }
            Ordering::Equal => {
                lemma_diff_describes(o1, n1);
                assert(d == diff(o1, n1));
                assert(o[0] == n[0]);
                assert forall|p: P| #[trigger] d.contains((p, Action::Withdraw)) <==> (o.contains(p) && !n.contains(p)) by {
                    lemma_contains_first(o, p);
                    lemma_contains_first(n, p);
                }
                assert forall|p: P| #[trigger] d.contains((p, Action::Announce)) <==> (n.contains(p) && !o.contains(p)) by {
                    lemma_contains_first(o, p);
                    lemma_contains_first(n, p);
                }
            }
            Ordering::Greater => {
                let d1 = diff(o, n1);
                lemma_diff_describes(o, n1);
                assert(d == seq![(n[0], Action::Announce)] + d1);
                assert(lt(n[0], o[0]));
                if o.contains(n[0]) { lemma_sorted_head_min(o, n[0]); }
                assert forall|p: P| #[trigger] d.contains((p, Action::Withdraw)) <==> (o.contains(p) && !n.contains(p)) by {
                    lemma_contains_cons((n[0], Action::Announce), d1, (p, Action::Withdraw));
                    lemma_contains_first(n, p);
                }
                assert forall|p: P| #[trigger] d.contains((p, Action::Announce)) <==> (n.contains(p) && !o.contains(p)) by {
                    lemma_contains_cons((n[0], Action::Announce), d1, (p, Action::Announce));
                    lemma_contains_first(n, p);
                }
                assert(d.len() == d1.len() + 1);
                assert forall|i: int, j: int| 0 <= i < j < d.len() implies lt(d[i].0, d[j].0) by {
                    if i > 0 {
                        assert(d[i] == d1[i - 1] && d[j] == d1[j - 1]);
                    } else {
                        let e = d1[j - 1];
                        assert(d[j] == e);
                        assert(d1.contains(e));
                        assert forall|y: P| #[trigger] o.contains(y) implies lt(n[0], y) by {
                            lemma_sorted_head_min(o, y);
                        }
                        lemma_key_bound(d1, o, n1, e, n[0]);
                    }
                }
            }
        }
    }
}

// an entry of a change set between o and n whose members are all above `b` has a key above `b`
proof fn lemma_key_bound<P: Ord>(d: Seq<(P, Action)>, o: Seq<P>, n: Seq<P>, e: (P, Action), b: P)
    requires
        describes_change(d, o, n), d.contains(e),
        forall|y: P| #[trigger] o.contains(y) ==> lt(b, y),
        forall|y: P| #[trigger] n.contains(y) ==> lt(b, y),
    ensures lt(b, e.0),
{
    match e.1 {
        Action::Announce => { assert(d.contains((e.0, Action::Announce))); }
        Action::Withdraw => { assert(d.contains((e.0, Action::Withdraw))); }
    }
}

// ---------------------------------------------------------------- sorted sequences are determined by their elements
spec fn sorted_by<T, K: Ord>(s: Seq<T>, key: spec_fn(T) -> K) -> bool {
    forall|i: int, j: int| 0 <= i < j < s.len() ==> lt(key(s[i]), key(s[j]))
}

proof fn lemma_lt_asym<K: Ord>(x: K, y: K)
    requires total_order::<K>(), lt(x, y),
    ensures !lt(y, x), x != y,
{
    if lt(y, x) { assert(lt(x, x)); }
    assert(x.cmp_spec(&x) == Ordering::Equal);
}

proof fn lemma_sorted_unique<T, K: Ord>(a: Seq<T>, b: Seq<T>, key: spec_fn(T) -> K)
    requires
        total_order::<K>(),
        sorted_by(a, key), sorted_by(b, key),
        forall|e: T| a.contains(e) <==> b.contains(e),
    ensures a == b,
    decreases a.len(),
{
    if a.len() == 0 {
        if b.len() > 0 { assert(b.contains(b[0])); assert(a.contains(b[0])); }
        assert(a =~= b);
    } else {
        assert(a.contains(a[0]));
        assert(b.contains(a[0]));
        let k = choose|k: int| 0 <= k < b.len() && b[k] == a[0];
        assert(b.contains(b[0]));
        assert(a.contains(b[0]));
        let m = choose|m: int| 0 <= m < a.len() && a[m] == b[0];
        if m > 0 {
            assert(lt(key(a[0]), key(a[m])));
            if k > 0 {
                assert(lt(key(b[0]), key(b[k])));
                lemma_lt_asym(key(a[0]), key(b[0]));
            } else {
                lemma_lt_asym(key(a[0]), key(a[m]));
            }
        }
        assert(a[0] == b[0]);
        let a1 = a.drop_first();
        let b1 = b.drop_first();
        assert forall|i: int, j: int| 0 <= i < j < a1.len() implies lt(key(a1[i]), key(a1[j])) by {
            assert(a1[i] == a[i + 1] && a1[j] == a[j + 1]);
        }
        assert forall|i: int, j: int| 0 <= i < j < b1.len() implies lt(key(b1[i]), key(b1[j])) by {
            assert(b1[i] == b[i + 1] && b1[j] == b[j + 1]);
        }
        assert forall|e: T| a1.contains(e) <==> b1.contains(e) by {
            lemma_contains_first(a, e);
            lemma_contains_first(b, e);
            if a1.contains(e) {
                let i = choose|i: int| 0 <= i < a1.len() && a1[i] == e;
                assert(a1[i] == a[i + 1]);
                assert(lt(key(a[0]), key(a[i + 1])));
                lemma_lt_asym(key(a[0]), key(e));
            }
            if b1.contains(e) {
                let i = choose|i: int| 0 <= i < b1.len() && b1[i] == e;
                assert(b1[i] == b[i + 1]);
                assert(lt(key(b[0]), key(b[i + 1])));
                lemma_lt_asym(key(b[0]), key(e));
            }
        }
        lemma_sorted_unique(a1, b1, key);
        assert(a =~= seq![a[0]] + a1);
        assert(b =~= seq![b[0]] + b1);
    }
}

// C11: there is exactly one change set describing the change from o to n
proof fn lemma_describes_unique<P: Ord>(d1: Seq<(P, Action)>, d2: Seq<(P, Action)>, o: Seq<P>, n: Seq<P>)
    requires total_order::<P>(), describes_change(d1, o, n), describes_change(d2, o, n),
    ensures d1 == d2,
{
    let key = |e: (P, Action)| e.0;
    assert(sorted_by(d1, key)) by {
        assert forall|i: int, j: int| 0 <= i < j < d1.len() implies lt(key(d1[i]), key(d1[j])) by {}
    }
    assert(sorted_by(d2, key)) by {
        assert forall|i: int, j: int| 0 <= i < j < d2.len() implies lt(key(d2[i]), key(d2[j])) by {}
    }
    assert forall|e: (P, Action)| d1.contains(e) <==> d2.contains(e) by {
        match e.1 {
            Action::Announce => {
                assert(e == (e.0, Action::Announce));
                assert(d1.contains((e.0, Action::Announce)) <==> d2.contains((e.0, Action::Announce)));
            }
            Action::Withdraw => {
                assert(e == (e.0, Action::Withdraw));
                assert(d1.contains((e.0, Action::Withdraw)) <==> d2.contains((e.0, Action::Withdraw)));
            }
        }
    }
    lemma_sorted_unique(d1, d2, key);
}

// C11: the change set is empty exactly when the two data sets are equal
proof fn lemma_describes_empty_iff_equal<P: Ord>(d: Seq<(P, Action)>, o: Seq<P>, n: Seq<P>)
    requires total_order::<P>(), ssorted(o), ssorted(n), describes_change(d, o, n),
    ensures d.len() == 0 <==> o == n,
{
    if o == n && d.len() > 0 {
        let e = d[0];
        assert(d.contains(e));
        match e.1 {
            Action::Announce => { assert(d.contains((e.0, Action::Announce))); }
            Action::Withdraw => { assert(d.contains((e.0, Action::Withdraw))); }
        }
    }
    if d.len() == 0 {
        let key = |p: P| p;
        assert(sorted_by(o, key)) by {
            assert forall|i: int, j: int| 0 <= i < j < o.len() implies lt(key(o[i]), key(o[j])) by {}
        }
        assert(sorted_by(n, key)) by {
            assert forall|i: int, j: int| 0 <= i < j < n.len() implies lt(key(n[i]), key(n[j])) by {}
        }
        assert forall|p: P| o.contains(p) <==> n.contains(p) by {
            assert(!d.contains((p, Action::Withdraw)));
            assert(!d.contains((p, Action::Announce)));
        }
        lemma_sorted_unique(o, n, key);
    }
}

// C11: applying the change set `d` to the data set `o` (drop the withdrawn items, add the announced
// ones) yields the data set `n`
spec fn applying_yields<P>(o: Seq<P>, d: Seq<(P, Action)>, n: Seq<P>) -> bool {
    forall|p: P| #[trigger] n.contains(p) <==>
        ((o.contains(p) && !d.contains((p, Action::Withdraw))) || d.contains((p, Action::Announce)))
}

proof fn lemma_describes_apply<P: Ord>(d: Seq<(P, Action)>, o: Seq<P>, n: Seq<P>)
    requires describes_change(d, o, n),
    ensures applying_yields(o, d, n),
{
    assert forall|p: P| #[trigger] n.contains(p) <==>
        ((o.contains(p) && !d.contains((p, Action::Withdraw))) || d.contains((p, Action::Announce))) by {
        assert(d.contains((p, Action::Withdraw)) <==> (o.contains(p) && !n.contains(p)));
        assert(d.contains((p, Action::Announce)) <==> (n.contains(p) && !o.contains(p)));
    }
}

spec fn haskey<P>(s: Seq<(P, Action)>, p: P) -> bool {
    s.contains((p, Action::Announce)) || s.contains((p, Action::Withdraw))
}

// which entries the merge of two key-sorted change sets has: an entry of one of them whose key the
// other does not mention, or an entry both have
spec fn mrg_member<P>(x: Seq<(P, Action)>, y: Seq<(P, Action)>, e: (P, Action)) -> bool {
    ||| (x.contains(e) && !haskey(y, e.0))
    ||| (y.contains(e) && !haskey(x, e.0))
    ||| (x.contains(e) && y.contains(e))
}

proof fn lemma_entry<P>(e: (P, Action))
    ensures e == (e.0, Action::Announce) || e == (e.0, Action::Withdraw),
{
    match e.1 { Action::Announce => {}, Action::Withdraw => {} }
}

proof fn lemma_keys_tail<P: Ord>(s: Seq<(P, Action)>)
    requires total_order::<P>(), keys_sorted(s), s.len() > 0,
    ensures
        keys_sorted(s.drop_first()),
        forall|e: (P, Action)| #[trigger] s.drop_first().contains(e) ==> lt(s[0].0, e.0),
        !haskey(s.drop_first(), s[0].0),
{
    let t = s.drop_first();
    assert forall|i: int, j: int| 0 <= i < j < t.len() implies lt(t[i].0, t[j].0) by {
        assert(t[i] == s[i + 1] && t[j] == s[j + 1]);
    }
    assert forall|e: (P, Action)| #[trigger] t.contains(e) implies lt(s[0].0, e.0) by {
        let i = choose|i: int| 0 <= i < t.len() && t[i] == e;
        assert(t[i] == s[i + 1]);
    }
    if haskey(t, s[0].0) {
        assert(lt(s[0].0, s[0].0));
        assert(s[0].0.cmp_spec(&s[0].0) == Ordering::Equal);
    }
}

// in a key-sorted change set every key is at or above the first
proof fn lemma_keys_head_min<P: Ord>(s: Seq<(P, Action)>, e: (P, Action))
    requires total_order::<P>(), keys_sorted(s), s.len() > 0, s.contains(e),
    ensures e == s[0] || lt(s[0].0, e.0),
{
    lemma_contains_first(s, e);
    lemma_keys_tail(s);
}

// a key below the first key does not occur
proof fn lemma_below_head_absent<P: Ord>(s: Seq<(P, Action)>, k: P)
    requires total_order::<P>(), keys_sorted(s), s.len() > 0, lt(k, s[0].0),
    ensures !haskey(s, k),
{
    if s.contains((k, Action::Announce)) {
        lemma_keys_head_min(s, (k, Action::Announce));
        lemma_lt_asym(k, s[0].0);
    }
    if s.contains((k, Action::Withdraw)) {
        lemma_keys_head_min(s, (k, Action::Withdraw));
        lemma_lt_asym(k, s[0].0);
    }
}

proof fn lemma_haskey_first<P: Ord>(s: Seq<(P, Action)>, p: P)
    requires s.len() > 0,
    ensures haskey(s, p) <==> (p == s[0].0 || haskey(s.drop_first(), p)),
{
    lemma_contains_first(s, (p, Action::Announce));
    lemma_contains_first(s, (p, Action::Withdraw));
    lemma_entry(s[0]);
}

proof fn lemma_mrg_members<P: Ord>(x: Seq<(P, Action)>, y: Seq<(P, Action)>)
    requires total_order::<P>(), keys_sorted(x), keys_sorted(y),
    ensures
        keys_sorted(mrg(x, y)),
        forall|e: (P, Action)| #[trigger] mrg(x, y).contains(e) <==> mrg_member(x, y, e),
    decreases x.len() + y.len(),
{
    let m = mrg(x, y);
    if x.len() == 0 {
        assert forall|e: (P, Action)| #[trigger] m.contains(e) <==> mrg_member(x, y, e) by {}
    } else if y.len() == 0 {
        assert forall|e: (P, Action)| #[trigger] m.contains(e) <==> mrg_member(x, y, e) by {}
    } else {
        let x1 = x.drop_first();
        let y1 = y.drop_first();
        lemma_keys_tail(x);
        lemma_keys_tail(y);
        match x[0].0.cmp_spec(&y[0].0) {
            Ordering::Less => {
                let m1 = mrg(x1, y);
                lemma_mrg_members(x1, y);
                assert(m == seq![x[0]] + m1);
                assert(lt(x[0].0, y[0].0));
                lemma_below_head_absent(y, x[0].0);
                assert forall|e: (P, Action)| #[trigger] m.contains(e) <==> mrg_member(x, y, e) by {
                    lemma_contains_cons(x[0], m1, e);
                    lemma_contains_first(x, e);
                    lemma_haskey_first(x, e.0);
                    assert(m1.contains(e) <==> mrg_member(x1, y, e));
                    lemma_entry(e);
                    if e.0 == x[0].0 {
                        // x1 and y do not mention this key
                    }
                }
                assert(m.len() == m1.len() + 1);
                assert forall|i: int, j: int| 0 <= i < j < m.len() implies lt(m[i].0, m[j].0) by {
                    if i > 0 {
                        assert(m[i] == m1[i - 1] && m[j] == m1[j - 1]);
                    } else {
                        let e = m1[j - 1];
                        assert(m[j] == e);
                        assert(m1.contains(e));
                        assert(mrg_member(x1, y, e));
                        if y.contains(e) {
                            lemma_keys_head_min(y, e);
                        }
                    }
                }
            }
            Ordering::Greater => {
                let m1 = mrg(x, y1);
                lemma_mrg_members(x, y1);
                assert(m == seq![y[0]] + m1);
                assert(lt(y[0].0, x[0].0));
                lemma_below_head_absent(x, y[0].0);
                assert forall|e: (P, Action)| #[trigger] m.contains(e) <==> mrg_member(x, y, e) by {
                    lemma_contains_cons(y[0], m1, e);
                    lemma_contains_first(y, e);
                    lemma_haskey_first(y, e.0);
                    assert(m1.contains(e) <==> mrg_member(x, y1, e));
                    lemma_entry(e);
                }
                assert(m.len() == m1.len() + 1);
                assert forall|i: int, j: int| 0 <= i < j < m.len() implies lt(m[i].0, m[j].0) by {
                    if i > 0 {
                        assert(m[i] == m1[i - 1] && m[j] == m1[j - 1]);
                    } else {
                        let e = m1[j - 1];
                        assert(m[j] == e);
                        assert(m1.contains(e));
                        assert(mrg_member(x, y1, e));
                        if x.contains(e) {
                            lemma_keys_head_min(x, e);
                        }
                    }
                }
            }
            Ordering::Equal => {
                let m1 = mrg(x1, y1);
                lemma_mrg_members(x1, y1);
                let k = y[0].0;
                assert(x[0].0 == k);
                let t: Seq<(P, Action)> = match mrg_action(x[0].1, y[0].1) {
                    Some(a) => seq![(k, a)],
                    None => Seq::empty(),
                };
                assert(m == t + m1);
                lemma_entry(x[0]);
                lemma_entry(y[0]);
                assert forall|e: (P, Action)| #[trigger] m.contains(e) <==> mrg_member(x, y, e) by {
                    lemma_contains_first(x, e);
                    lemma_contains_first(y, e);
                    lemma_haskey_first(x, e.0);
                    lemma_haskey_first(y, e.0);
                    assert(m1.contains(e) <==> mrg_member(x1, y1, e));
                    lemma_entry(e);
                    if t.len() == 0 {
                        assert(m =~= m1);
                    } else {
                        assert(t =~= seq![t[0]]);
                        lemma_contains_cons(t[0], m1, e);
                    }
                }
                assert forall|i: int, j: int| 0 <= i < j < m.len() implies lt(m[i].0, m[j].0) by {
                    if t.len() == 0 {
                        assert(m =~= m1);
                    } else {
                        assert(m.len() == m1.len() + 1);
                        if i > 0 {
                            assert(m[i] == m1[i - 1] && m[j] == m1[j - 1]);
                        } else {
                            let e = m1[j - 1];
                            assert(m[j] == e);
                            assert(m[0].0 == k);
                            assert(m1.contains(e));
                            assert(mrg_member(x1, y1, e));
                        }
                    }
                }
            }
        }
    }
}

// C12: merging the change set from a to b with the change set from b to c gives the change set
// from a to c
proof fn lemma_mrg_describes<P: Ord>(x: Seq<(P, Action)>, y: Seq<(P, Action)>, a: Seq<P>, b: Seq<P>, c: Seq<P>)
    requires
        total_order::<P>(),
        describes_change(x, a, b), describes_change(y, b, c),
    ensures
        describes_change(mrg(x, y), a, c),
{
    let m = mrg(x, y);
    lemma_mrg_members(x, y);
    assert forall|p: P| #[trigger] m.contains((p, Action::Withdraw)) <==> (a.contains(p) && !c.contains(p)) by {
        assert(m.contains((p, Action::Withdraw)) <==> mrg_member(x, y, (p, Action::Withdraw)));
        assert(x.contains((p, Action::Withdraw)) <==> (a.contains(p) && !b.contains(p)));
        assert(x.contains((p, Action::Announce)) <==> (b.contains(p) && !a.contains(p)));
        assert(y.contains((p, Action::Withdraw)) <==> (b.contains(p) && !c.contains(p)));
        assert(y.contains((p, Action::Announce)) <==> (c.contains(p) && !b.contains(p)));
    }
    assert forall|p: P| #[trigger] m.contains((p, Action::Announce)) <==> (c.contains(p) && !a.contains(p)) by {
        assert(m.contains((p, Action::Announce)) <==> mrg_member(x, y, (p, Action::Announce)));
        assert(x.contains((p, Action::Withdraw)) <==> (a.contains(p) && !b.contains(p)));
        assert(x.contains((p, Action::Announce)) <==> (b.contains(p) && !a.contains(p)));
        assert(y.contains((p, Action::Withdraw)) <==> (b.contains(p) && !c.contains(p)));
        assert(y.contains((p, Action::Announce)) <==> (c.contains(p) && !b.contains(p)));
    }
}

// ================================================================ ASPA
// derive(Default) on AspaDelta: an empty vector and zero counters (ASSUMED: the derive's semantics)
pub assume_specification [<AspaDelta as Default>::default] () -> (r: AspaDelta)
    ensures r.is_default(),
;

// an ASPA announcing nothing for the customer (rpki's Aspa::withdraw)
spec fn wd(a: Aspa) -> Aspa { Aspa { customer: a.customer, providers: ProviderAsns::empty_spec() } }

spec fn is_wd(a: AspaAction) -> bool { a is Withdraw }

// number of entries that count as announcements (Announce, Update) / as withdrawals
spec fn acnt(s: Seq<(Aspa, AspaAction)>, w: bool) -> nat
    decreases s.len()
{
    if s.len() == 0 { 0 } else { acnt(s.drop_last(), w) + if is_wd(s.last().1) == w { 1nat } else { 0nat } }
}

proof fn lemma_acnt_total(s: Seq<(Aspa, AspaAction)>)
    ensures acnt(s, false) + acnt(s, true) == s.len()
    decreases s.len()
{
    if s.len() > 0 { lemma_acnt_total(s.drop_last()); }
}

impl AspaDelta {
    pub closed spec fn is_default(&self) -> bool {
        self.items@ == Seq::<(Aspa, AspaAction)>::empty() && self.announce_len == 0 && self.withdraw_len == 0
    }
    // C11: announce_len counts the Announce and Update entries, withdraw_len the Withdraw entries
    spec fn counted(&self) -> bool {
        &&& self.announce_len == acnt(self.items@, false)
        &&& self.withdraw_len == acnt(self.items@, true)
    }
}

// ---------------------------------------------------------------- ASPA data sets and change sets
// a data set of ASPAs is sorted strictly by customer ASN (one ASPA per customer)
spec fn asorted(s: Seq<Aspa>) -> bool { forall|i: int, j: int| 0 <= i < j < s.len() ==> lt(s[i].customer, s[j].customer) }

spec fn firsts(s: Seq<(&Aspa, &PayloadInfo)>) -> Seq<Aspa> { pair_firsts::<Aspa>(s) }
spec fn aann(s: Seq<Aspa>) -> Seq<(Aspa, AspaAction)> { s.map_values(|x: Aspa| (x, AspaAction::Announce)) }
spec fn awdr(s: Seq<Aspa>) -> Seq<(Aspa, AspaAction)> { s.map_values(|x: Aspa| (wd(x), AspaAction::Withdraw(x.providers))) }

proof fn lemma_rest_all<T>()
    ensures
        forall|rem: Seq<&T>| rem.len() > 0 ==> #[trigger] deref_seq(rem) =~= rest(Some(rem[0]), rem.drop_first()),
        forall|rem: Seq<&T>| rem.len() == 0 ==> #[trigger] deref_seq(rem) =~= rest(None, rem),
{
    assert forall|rem: Seq<&T>| rem.len() > 0 implies #[trigger] deref_seq(rem) =~= rest(Some(rem[0]), rem.drop_first()) by {
        lemma_rest(Some(rem[0]), rem.drop_first());
    }
}

// the merge-join of two ASPA data sets as a recursive function
spec fn adiff(o: Seq<Aspa>, n: Seq<Aspa>) -> Seq<(Aspa, AspaAction)>
    decreases o.len() + n.len()
{
    if o.len() == 0 { aann(n) }
    else if n.len() == 0 { awdr(o) }
    else {
        match o[0].customer.cmp_spec(&n[0].customer) {
            Ordering::Less => seq![(wd(o[0]), AspaAction::Withdraw(o[0].providers))] + adiff(o.drop_first(), n),
            Ordering::Equal => (if o[0].providers != n[0].providers {
                    seq![(n[0], AspaAction::Update(o[0].providers))]
                } else { Seq::empty() }) + adiff(o.drop_first(), n.drop_first()),
            Ordering::Greater => seq![(n[0], AspaAction::Announce)] + adiff(o, n.drop_first()),
        }
    }
}

proof fn lemma_adiff_unfold(o: Seq<Aspa>, n: Seq<Aspa>)
    ensures
        o.len() == 0 ==> adiff(o, n) == aann(n),
        o.len() > 0 && n.len() == 0 ==> adiff(o, n) == awdr(o),
        o.len() > 0 && n.len() > 0 && o[0].customer.cmp_spec(&n[0].customer) == Ordering::Less ==>
            adiff(o, n) == seq![(wd(o[0]), AspaAction::Withdraw(o[0].providers))] + adiff(o.drop_first(), n),
        o.len() > 0 && n.len() > 0 && o[0].customer.cmp_spec(&n[0].customer) == Ordering::Equal ==>
            adiff(o, n) == (if o[0].providers != n[0].providers {
                    seq![(n[0], AspaAction::Update(o[0].providers))]
                } else { Seq::empty() }) + adiff(o.drop_first(), n.drop_first()),
        o.len() > 0 && n.len() > 0 && o[0].customer.cmp_spec(&n[0].customer) == Ordering::Greater ==>
            adiff(o, n) == seq![(n[0], AspaAction::Announce)] + adiff(o, n.drop_first()),
{
}
// ---------------------------------------------------------------- C11 for ASPAs, per customer ASN
// the ASPA a data set holds for customer k
spec fn afind(s: Seq<Aspa>, k: Asn) -> Option<Aspa>
    decreases s.len()
{
    if s.len() == 0 { None } else if s[0].customer == k { Some(s[0]) } else { afind(s.drop_first(), k) }
}

// the entry a change set holds for customer k
spec fn dfind(d: Seq<(Aspa, AspaAction)>, k: Asn) -> Option<(Aspa, AspaAction)>
    decreases d.len()
{
    if d.len() == 0 { None } else if d[0].0.customer == k { Some(d[0]) } else { dfind(d.drop_first(), k) }
}

// C11: what the change set must say about a customer, given the ASPA the old and the new data set hold
// for it: nothing if unchanged, a withdrawal (carrying the old providers) if it disappeared, an
// announcement if it is new, an update (carrying the old providers) if the provider set changed
spec fn aspa_change(o: Option<Aspa>, n: Option<Aspa>) -> Option<(Aspa, AspaAction)> {
    match (o, n) {
        (None, None) => None,
        (Some(a), None) => Some((wd(a), AspaAction::Withdraw(a.providers))),
        (None, Some(b)) => Some((b, AspaAction::Announce)),
        (Some(a), Some(b)) => if a.providers == b.providers { None } else { Some((b, AspaAction::Update(a.providers))) },
    }
}

spec fn dkeys_sorted(d: Seq<(Aspa, AspaAction)>) -> bool {
    forall|i: int, j: int| 0 <= i < j < d.len() ==> lt(d[i].0.customer, d[j].0.customer)
}

// C11: `d` is, in customer order and with one entry per customer, exactly the change from o to n
spec fn adescribes(d: Seq<(Aspa, AspaAction)>, o: Seq<Aspa>, n: Seq<Aspa>) -> bool {
    &&& dkeys_sorted(d)
    &&& forall|k: Asn| #[trigger] dfind(d, k) == aspa_change(afind(o, k), afind(n, k))
}

proof fn lemma_afind_some(s: Seq<Aspa>, k: Asn)
    ensures afind(s, k) matches Some(x) ==> x.customer == k && s.contains(x),
    decreases s.len(),
{
    if s.len() > 0 {
        if s[0].customer == k { assert(s.contains(s[0])); }
        else {
            lemma_afind_some(s.drop_first(), k);
            if let Some(x) = afind(s.drop_first(), k) { lemma_contains_first(s, x); }
        }
    }
}

proof fn lemma_dfind_some(d: Seq<(Aspa, AspaAction)>, k: Asn)
    ensures dfind(d, k) matches Some(e) ==> e.0.customer == k && d.contains(e),
    decreases d.len(),
{
    if d.len() > 0 {
        if d[0].0.customer == k { assert(d.contains(d[0])); }
        else {
            lemma_dfind_some(d.drop_first(), k);
            if let Some(e) = dfind(d.drop_first(), k) { lemma_contains_first(d, e); }
        }
    }
}

proof fn lemma_asorted_tail(s: Seq<Aspa>)
    requires total_order::<Asn>(), asorted(s), s.len() > 0,
    ensures
        asorted(s.drop_first()),
        forall|x: Aspa| #[trigger] s.drop_first().contains(x) ==> lt(s[0].customer, x.customer),
        afind(s.drop_first(), s[0].customer) is None,
{
    let t = s.drop_first();
    assert forall|i: int, j: int| 0 <= i < j < t.len() implies lt(t[i].customer, t[j].customer) by {
        assert(t[i] == s[i + 1] && t[j] == s[j + 1]);
    }
    assert forall|x: Aspa| #[trigger] t.contains(x) implies lt(s[0].customer, x.customer) by {
        let i = choose|i: int| 0 <= i < t.len() && t[i] == x;
        assert(t[i] == s[i + 1]);
    }
    lemma_afind_some(t, s[0].customer);
    if let Some(x) = afind(t, s[0].customer) {
        assert(lt(s[0].customer, x.customer));
        lemma_lt_asym(s[0].customer, x.customer);
    }
}

// a customer below the first one is not in a sorted data set
proof fn lemma_afind_below(s: Seq<Aspa>, k: Asn)
    requires total_order::<Asn>(), asorted(s), s.len() > 0, lt(k, s[0].customer),
    ensures afind(s, k) is None,
{
    lemma_afind_some(s, k);
    if let Some(x) = afind(s, k) {
        lemma_contains_first(s, x);
        lemma_asorted_tail(s);
        if x == s[0] { lemma_lt_asym(k, s[0].customer); }
        else { assert(lt(s[0].customer, x.customer)); lemma_lt_asym(k, s[0].customer); }
    }
}

// a customer found in a sorted data set is at or above the first customer
proof fn lemma_afind_bound(s: Seq<Aspa>, k: Asn)
    requires total_order::<Asn>(), asorted(s), s.len() > 0, afind(s, k) is Some,
    ensures k == s[0].customer || lt(s[0].customer, k),
{
    lemma_afind_some(s, k);
    let x = afind(s, k)->Some_0;
    lemma_contains_first(s, x);
    lemma_asorted_tail(s);
}

proof fn lemma_dfind_cons(e: (Aspa, AspaAction), d: Seq<(Aspa, AspaAction)>, k: Asn)
    ensures dfind(seq![e] + d, k) == (if e.0.customer == k { Some(e) } else { dfind(d, k) }),
{
    assert((seq![e] + d).drop_first() =~= d);
}

proof fn lemma_dfind_aann(n: Seq<Aspa>, k: Asn)
    ensures dfind(aann(n), k) == aspa_change(None, afind(n, k)),
    decreases n.len(),
{
    if n.len() > 0 {
        lemma_dfind_aann(n.drop_first(), k);
        assert(aann(n).drop_first() =~= aann(n.drop_first()));
    }
}

proof fn lemma_dfind_awdr(o: Seq<Aspa>, k: Asn)
    ensures dfind(awdr(o), k) == aspa_change(afind(o, k), None),
    decreases o.len(),
{
    if o.len() > 0 {
        lemma_dfind_awdr(o.drop_first(), k);
        assert(awdr(o).drop_first() =~= awdr(o.drop_first()));
    }
}

// an entry of a key-sorted change set is the entry found for its customer, and vice versa
proof fn lemma_dfind_contains(d: Seq<(Aspa, AspaAction)>, e: (Aspa, AspaAction))
    requires total_order::<Asn>(), dkeys_sorted(d),
    ensures d.contains(e) <==> dfind(d, e.0.customer) == Some(e),
    decreases d.len(),
{
    lemma_dfind_some(d, e.0.customer);
    if d.len() > 0 {
        let t = d.drop_first();
        assert forall|i: int, j: int| 0 <= i < j < t.len() implies lt(t[i].0.customer, t[j].0.customer) by {
            assert(t[i] == d[i + 1] && t[j] == d[j + 1]);
        }
        lemma_dfind_contains(t, e);
        lemma_contains_first(d, e);
        if d[0].0.customer == e.0.customer && t.contains(e) {
            let i = choose|i: int| 0 <= i < t.len() && t[i] == e;
            assert(t[i] == d[i + 1]);
            assert(lt(d[0].0.customer, d[i + 1].0.customer));
            lemma_lt_asym(d[0].0.customer, e.0.customer);
        }
    }
}

proof fn lemma_adiff_describes(o: Seq<Aspa>, n: Seq<Aspa>)
    requires total_order::<Asn>(), asorted(o), asorted(n),
    ensures adescribes(adiff(o, n), o, n),
    decreases o.len() + n.len(),
{
    let d = adiff(o, n);
    if o.len() == 0 {
        assert forall|i: int, j: int| 0 <= i < j < d.len() implies lt(d[i].0.customer, d[j].0.customer) by {
            assert(d[i].0 == n[i] && d[j].0 == n[j]);
        }
        assert forall|k: Asn| #[trigger] dfind(d, k) == aspa_change(afind(o, k), afind(n, k)) by {
            lemma_dfind_aann(n, k);
        }
    } else if n.len() == 0 {
        assert forall|i: int, j: int| 0 <= i < j < d.len() implies lt(d[i].0.customer, d[j].0.customer) by {
            assert(d[i].0 == wd(o[i]) && d[j].0 == wd(o[j]));
        }
        assert forall|k: Asn| #[trigger] dfind(d, k) == aspa_change(afind(o, k), afind(n, k)) by {
            lemma_dfind_awdr(o, k);
        }
    } else {
        let o1 = o.drop_first();
        let n1 = n.drop_first();
        lemma_asorted_tail(o);
        lemma_asorted_tail(n);
        match o[0].customer.cmp_spec(&n[0].customer) {
            Ordering::Less => {
                let d1 = adiff(o1, n);
                let e0 = (wd(o[0]), AspaAction::Withdraw(o[0].providers));
                lemma_adiff_describes(o1, n);
                assert(d == seq![e0] + d1);
                assert(lt(o[0].customer, n[0].customer));
                assert forall|k: Asn| #[trigger] dfind(d, k) == aspa_change(afind(o, k), afind(n, k)) by {
                    lemma_dfind_cons(e0, d1, k);
                    assert(dfind(d1, k) == aspa_change(afind(o1, k), afind(n, k)));
                    if k == o[0].customer { lemma_afind_below(n, k); }
                }
                assert forall|x: Aspa| #[trigger] n.contains(x) implies lt(e0.0.customer, x.customer) by {
                    lemma_contains_first(n, x);
                }
                lemma_adiff_sorted_step(d, e0, d1, o1, n);
            }
            Ordering::Equal => {
                let d1 = adiff(o1, n1);
                lemma_adiff_describes(o1, n1);
                let c = n[0].customer;
                assert(o[0].customer == c);
                let t: Seq<(Aspa, AspaAction)> = if o[0].providers != n[0].providers {
                    seq![(n[0], AspaAction::Update(o[0].providers))]
                } else { Seq::empty() };
                assert(d == t + d1);
                if t.len() == 0 {
                    assert(d =~= d1);
                    assert forall|k: Asn| #[trigger] dfind(d, k) == aspa_change(afind(o, k), afind(n, k)) by {
                        assert(dfind(d1, k) == aspa_change(afind(o1, k), afind(n1, k)));
                    }
                } else {
                    let e0 = t[0];
                    assert(t =~= seq![e0]);
                    assert forall|k: Asn| #[trigger] dfind(d, k) == aspa_change(afind(o, k), afind(n, k)) by {
                        lemma_dfind_cons(e0, d1, k);
                        assert(dfind(d1, k) == aspa_change(afind(o1, k), afind(n1, k)));
                    }
                    // keys of d1 are above c
                    assert forall|j: int| 0 <= j < d1.len() implies lt(c, #[trigger] d1[j].0.customer) by {
                        let kj = d1[j].0.customer;
                        assert(d1.contains(d1[j]));
                        lemma_dfind_contains(d1, d1[j]);
                        assert(dfind(d1, kj) == aspa_change(afind(o1, kj), afind(n1, kj)));
                        if afind(o1, kj) is Some {
                            lemma_afind_some(o1, kj);
                            assert(o1.contains(afind(o1, kj)->Some_0));
                        } else {
                            lemma_afind_some(n1, kj);
                            assert(n1.contains(afind(n1, kj)->Some_0));
                        }
                    }
                    assert(d.len() == d1.len() + 1);
                    assert forall|i: int, j: int| 0 <= i < j < d.len() implies lt(d[i].0.customer, d[j].0.customer) by {
                        if i > 0 { assert(d[i] == d1[i - 1] && d[j] == d1[j - 1]); }
                        else { assert(d[j] == d1[j - 1]); assert(d[0] == e0); }
                    }
                }
            }
            Ordering::Greater => {
                let d1 = adiff(o, n1);
                let e0 = (n[0], AspaAction::Announce);
                lemma_adiff_describes(o, n1);
                assert(d == seq![e0] + d1);
                assert(lt(n[0].customer, o[0].customer));
                assert forall|k: Asn| #[trigger] dfind(d, k) == aspa_change(afind(o, k), afind(n, k)) by {
                    lemma_dfind_cons(e0, d1, k);
                    assert(dfind(d1, k) == aspa_change(afind(o, k), afind(n1, k)));
                    if k == n[0].customer { lemma_afind_below(o, k); }
                }
                assert forall|x: Aspa| #[trigger] o.contains(x) implies lt(e0.0.customer, x.customer) by {
                    lemma_contains_first(o, x);
                }
                lemma_adiff_sorted_step(d, e0, d1, o, n1);
            }
        }
    }
}

// sortedness of `[e0] + d1` when d1 describes a change between data sets whose customers are all above e0's
proof fn lemma_adiff_sorted_step(d: Seq<(Aspa, AspaAction)>, e0: (Aspa, AspaAction), d1: Seq<(Aspa, AspaAction)>,
                                 o: Seq<Aspa>, n: Seq<Aspa>)
    requires
        total_order::<Asn>(), d == seq![e0] + d1, adescribes(d1, o, n),
        forall|x: Aspa| #[trigger] o.contains(x) ==> lt(e0.0.customer, x.customer),
        forall|x: Aspa| #[trigger] n.contains(x) ==> lt(e0.0.customer, x.customer),
    ensures dkeys_sorted(d),
{
    assert(d.len() == d1.len() + 1);
    assert forall|i: int, j: int| 0 <= i < j < d.len() implies lt(d[i].0.customer, d[j].0.customer) by {
        if i > 0 { assert(d[i] == d1[i - 1] && d[j] == d1[j - 1]); }
        else {
            let e = d1[j - 1];
            assert(d[j] == e);
            let kj = e.0.customer;
            assert(d1.contains(e));
            lemma_dfind_contains(d1, e);
            assert(dfind(d1, kj) == aspa_change(afind(o, kj), afind(n, kj)));
            if afind(o, kj) is Some {
                lemma_afind_some(o, kj);
                assert(o.contains(afind(o, kj)->Some_0));
            } else {
                lemma_afind_some(n, kj);
                assert(n.contains(afind(n, kj)->Some_0));
            }
        }
    }
}

// C11 (ASPA): there is exactly one change set describing the change from o to n
proof fn lemma_adescribes_unique(d1: Seq<(Aspa, AspaAction)>, d2: Seq<(Aspa, AspaAction)>, o: Seq<Aspa>, n: Seq<Aspa>)
    requires total_order::<Asn>(), adescribes(d1, o, n), adescribes(d2, o, n),
    ensures d1 == d2,
{
    let key = |e: (Aspa, AspaAction)| e.0.customer;
    assert(sorted_by(d1, key)) by {
        assert forall|i: int, j: int| 0 <= i < j < d1.len() implies lt(key(d1[i]), key(d1[j])) by {}
    }
    assert(sorted_by(d2, key)) by {
        assert forall|i: int, j: int| 0 <= i < j < d2.len() implies lt(key(d2[i]), key(d2[j])) by {}
    }
    assert forall|e: (Aspa, AspaAction)| d1.contains(e) <==> d2.contains(e) by {
        lemma_dfind_contains(d1, e);
        lemma_dfind_contains(d2, e);
        assert(dfind(d1, e.0.customer) == aspa_change(afind(o, e.0.customer), afind(n, e.0.customer)));
        assert(dfind(d2, e.0.customer) == aspa_change(afind(o, e.0.customer), afind(n, e.0.customer)));
    }
    lemma_sorted_unique(d1, d2, key);
}

// an ASPA of a sorted data set is the one found for its customer, and vice versa
proof fn lemma_afind_contains(s: Seq<Aspa>, x: Aspa)
    requires total_order::<Asn>(), asorted(s),
    ensures s.contains(x) <==> afind(s, x.customer) == Some(x),
    decreases s.len(),
{
    lemma_afind_some(s, x.customer);
    if s.len() > 0 {
        lemma_asorted_tail(s);
        lemma_afind_contains(s.drop_first(), x);
        lemma_contains_first(s, x);
        if s[0].customer == x.customer && s.drop_first().contains(x) {
            lemma_lt_asym(s[0].customer, x.customer);
        }
    }
}

// C11 (ASPA): the change set is empty exactly when the two data sets are equal
proof fn lemma_adescribes_empty_iff_equal(d: Seq<(Aspa, AspaAction)>, o: Seq<Aspa>, n: Seq<Aspa>)
    requires total_order::<Asn>(), asorted(o), asorted(n), adescribes(d, o, n),
    ensures d.len() == 0 <==> o == n,
{
    if o == n && d.len() > 0 {
        let e = d[0];
        assert(d.contains(e));
        lemma_dfind_contains(d, e);
        assert(dfind(d, e.0.customer) == aspa_change(afind(o, e.0.customer), afind(n, e.0.customer)));
    }
    if d.len() == 0 {
        let key = |x: Aspa| x.customer;
        assert(sorted_by(o, key)) by {
            assert forall|i: int, j: int| 0 <= i < j < o.len() implies lt(key(o[i]), key(o[j])) by {}
        }
        assert(sorted_by(n, key)) by {
            assert forall|i: int, j: int| 0 <= i < j < n.len() implies lt(key(n[i]), key(n[j])) by {}
        }
        assert forall|x: Aspa| o.contains(x) <==> n.contains(x) by {
            let k = x.customer;
            lemma_afind_contains(o, x);
            lemma_afind_contains(n, x);
            lemma_afind_some(o, k);
            lemma_afind_some(n, k);
            assert(dfind(d, k) == aspa_change(afind(o, k), afind(n, k)));
            assert(dfind(d, k) is None);
        }
        lemma_sorted_unique(o, n, key);
    }
}

// C11 (ASPA): applying one change-set entry to what a data set holds for a customer
spec fn aspa_apply(cur: Option<Aspa>, entry: Option<(Aspa, AspaAction)>) -> Option<Aspa> {
    match entry {
        None => cur,
        Some(e) => match e.1 {
            AspaAction::Announce => Some(e.0),
            AspaAction::Update(_) => Some(e.0),
            AspaAction::Withdraw(_) => None,
        },
    }
}

// C11 (ASPA): applying the change set to the old data set yields the new data set, customer by customer;
// announcements and updates only carry ASPAs of the new set that the old set did not hold, withdrawals
// only customers of the old set that the new set lacks
spec fn aspa_applying_yields(o: Seq<Aspa>, d: Seq<(Aspa, AspaAction)>, n: Seq<Aspa>) -> bool {
    forall|k: Asn| #[trigger] afind(n, k) == aspa_apply(afind(o, k), dfind(d, k))
}

proof fn lemma_adescribes_apply(d: Seq<(Aspa, AspaAction)>, o: Seq<Aspa>, n: Seq<Aspa>)
    requires adescribes(d, o, n),
    ensures aspa_applying_yields(o, d, n),
{
    assert forall|k: Asn| #[trigger] afind(n, k) == aspa_apply(afind(o, k), dfind(d, k)) by {
        assert(dfind(d, k) == aspa_change(afind(o, k), afind(n, k)));
        lemma_afind_some(o, k);
        lemma_afind_some(n, k);
    }
}

// ---------------------------------------------------------------- C12 for ASPAs
// two successive actions on one customer combined; `np` is the provider set after the second one
spec fn amrg_action(a: AspaAction, b: AspaAction, np: ProviderAsns) -> Option<AspaAction> {
    match (a, b) {
        (AspaAction::Announce, AspaAction::Announce) => Some(AspaAction::Announce),
        (AspaAction::Announce, AspaAction::Update(_)) => Some(AspaAction::Announce),
        (AspaAction::Announce, AspaAction::Withdraw(_)) => None,
        (AspaAction::Update(p), AspaAction::Announce) => Some(AspaAction::Update(p)),
        (AspaAction::Update(p), AspaAction::Update(_)) => if p == np { None } else { Some(AspaAction::Update(p)) },
        (AspaAction::Update(p), AspaAction::Withdraw(_)) => Some(AspaAction::Withdraw(p)),
        (AspaAction::Withdraw(p), AspaAction::Announce) => if p == np { None } else { Some(AspaAction::Update(p)) },
        (AspaAction::Withdraw(p), AspaAction::Update(_)) => if p == np { None } else { Some(AspaAction::Update(p)) },
        (AspaAction::Withdraw(p), AspaAction::Withdraw(_)) => Some(AspaAction::Withdraw(p)),
    }
}

spec fn amrg_entry(ex: (Aspa, AspaAction), ey: (Aspa, AspaAction)) -> Seq<(Aspa, AspaAction)> {
    match amrg_action(ex.1, ey.1, ey.0.providers) {
        Some(a) => seq![(ey.0, a)],
        None => Seq::empty(),
    }
}

// the merge-join of two customer-sorted ASPA change sets as a recursive function
spec fn amrg(x: Seq<(Aspa, AspaAction)>, y: Seq<(Aspa, AspaAction)>) -> Seq<(Aspa, AspaAction)>
    decreases x.len() + y.len()
{
    if x.len() == 0 { y }
    else if y.len() == 0 { x }
    else {
        match x[0].0.customer.cmp_spec(&y[0].0.customer) {
            Ordering::Less => seq![x[0]] + amrg(x.drop_first(), y),
            Ordering::Greater => seq![y[0]] + amrg(x, y.drop_first()),
            Ordering::Equal => amrg_entry(x[0], y[0]) + amrg(x.drop_first(), y.drop_first()),
        }
    }
}

proof fn lemma_amrg_unfold(x: Seq<(Aspa, AspaAction)>, y: Seq<(Aspa, AspaAction)>)
    ensures
        x.len() == 0 ==> amrg(x, y) == y,
        x.len() > 0 && y.len() == 0 ==> amrg(x, y) == x,
        x.len() > 0 && y.len() > 0 && x[0].0.customer.cmp_spec(&y[0].0.customer) == Ordering::Less ==>
            amrg(x, y) == seq![x[0]] + amrg(x.drop_first(), y),
        x.len() > 0 && y.len() > 0 && x[0].0.customer.cmp_spec(&y[0].0.customer) == Ordering::Greater ==>
            amrg(x, y) == seq![y[0]] + amrg(x, y.drop_first()),
        x.len() > 0 && y.len() > 0 && x[0].0.customer.cmp_spec(&y[0].0.customer) == Ordering::Equal ==>
            amrg(x, y) == amrg_entry(x[0], y[0]) + amrg(x.drop_first(), y.drop_first()),
{
}
// what the merged change set says about one customer, given what the two change sets say
spec fn amrg_found(ex: Option<(Aspa, AspaAction)>, ey: Option<(Aspa, AspaAction)>) -> Option<(Aspa, AspaAction)> {
    match (ex, ey) {
        (None, _) => ey,
        (_, None) => ex,
        (Some(a), Some(b)) => match amrg_action(a.1, b.1, b.0.providers) {
            Some(act) => Some((b.0, act)),
            None => None,
        },
    }
}

proof fn lemma_dkeys_tail(s: Seq<(Aspa, AspaAction)>)
    requires total_order::<Asn>(), dkeys_sorted(s), s.len() > 0,
    ensures
        dkeys_sorted(s.drop_first()),
        forall|e: (Aspa, AspaAction)| #[trigger] s.drop_first().contains(e) ==> lt(s[0].0.customer, e.0.customer),
        dfind(s.drop_first(), s[0].0.customer) is None,
{
    let t = s.drop_first();
    assert forall|i: int, j: int| 0 <= i < j < t.len() implies lt(t[i].0.customer, t[j].0.customer) by {
        assert(t[i] == s[i + 1] && t[j] == s[j + 1]);
    }
    assert forall|e: (Aspa, AspaAction)| #[trigger] t.contains(e) implies lt(s[0].0.customer, e.0.customer) by {
        let i = choose|i: int| 0 <= i < t.len() && t[i] == e;
        assert(t[i] == s[i + 1]);
    }
    lemma_dfind_some(t, s[0].0.customer);
    if let Some(e) = dfind(t, s[0].0.customer) {
        assert(lt(s[0].0.customer, e.0.customer));
        lemma_lt_asym(s[0].0.customer, e.0.customer);
    }
}

// a customer below the first one has no entry in a sorted change set
proof fn lemma_dfind_below(s: Seq<(Aspa, AspaAction)>, k: Asn)
    requires total_order::<Asn>(), dkeys_sorted(s), s.len() > 0, lt(k, s[0].0.customer),
    ensures dfind(s, k) is None,
{
    lemma_dfind_some(s, k);
    if let Some(e) = dfind(s, k) {
        lemma_contains_first(s, e);
        lemma_dkeys_tail(s);
        if e == s[0] { lemma_lt_asym(k, s[0].0.customer); }
        else { assert(lt(s[0].0.customer, e.0.customer)); lemma_lt_asym(k, s[0].0.customer); }
    }
}

// an entry found in a sorted change set has a customer at or above the first
proof fn lemma_dfind_bound(s: Seq<(Aspa, AspaAction)>, k: Asn)
    requires total_order::<Asn>(), dkeys_sorted(s), s.len() > 0, dfind(s, k) is Some,
    ensures k == s[0].0.customer || lt(s[0].0.customer, k),
{
    lemma_dfind_some(s, k);
    let e = dfind(s, k)->Some_0;
    lemma_contains_first(s, e);
    lemma_dkeys_tail(s);
}

proof fn lemma_amrg_found(x: Seq<(Aspa, AspaAction)>, y: Seq<(Aspa, AspaAction)>)
    requires total_order::<Asn>(), dkeys_sorted(x), dkeys_sorted(y),
    ensures
        dkeys_sorted(amrg(x, y)),
        forall|k: Asn| #[trigger] dfind(amrg(x, y), k) == amrg_found(dfind(x, k), dfind(y, k)),
    decreases x.len() + y.len(),
{
    let m = amrg(x, y);
    if x.len() == 0 {
        assert forall|k: Asn| #[trigger] dfind(m, k) == amrg_found(dfind(x, k), dfind(y, k)) by {}
    } else if y.len() == 0 {
        assert forall|k: Asn| #[trigger] dfind(m, k) == amrg_found(dfind(x, k), dfind(y, k)) by {}
    } else {
        let x1 = x.drop_first();
        let y1 = y.drop_first();
        lemma_dkeys_tail(x);
        lemma_dkeys_tail(y);
        match x[0].0.customer.cmp_spec(&y[0].0.customer) {
            Ordering::Less => {
                let m1 = amrg(x1, y);
                lemma_amrg_found(x1, y);
                assert(m == seq![x[0]] + m1);
                assert(lt(x[0].0.customer, y[0].0.customer));
                assert forall|k: Asn| #[trigger] dfind(m, k) == amrg_found(dfind(x, k), dfind(y, k)) by {
                    lemma_dfind_cons(x[0], m1, k);
                    assert(dfind(m1, k) == amrg_found(dfind(x1, k), dfind(y, k)));
                    if k == x[0].0.customer { lemma_dfind_below(y, k); }
                }
                assert forall|e: (Aspa, AspaAction)| #[trigger] y.contains(e) implies lt(x[0].0.customer, e.0.customer) by {
                    lemma_contains_first(y, e);
                }
                lemma_amrg_sorted_step(m, x[0], m1, x1, y);
            }
            Ordering::Greater => {
                let m1 = amrg(x, y1);
                lemma_amrg_found(x, y1);
                assert(m == seq![y[0]] + m1);
                assert(lt(y[0].0.customer, x[0].0.customer));
                assert forall|k: Asn| #[trigger] dfind(m, k) == amrg_found(dfind(x, k), dfind(y, k)) by {
                    lemma_dfind_cons(y[0], m1, k);
                    assert(dfind(m1, k) == amrg_found(dfind(x, k), dfind(y1, k)));
                    if k == y[0].0.customer { lemma_dfind_below(x, k); }
                }
                assert forall|e: (Aspa, AspaAction)| #[trigger] x.contains(e) implies lt(y[0].0.customer, e.0.customer) by {
                    lemma_contains_first(x, e);
                }
                lemma_amrg_sorted_step(m, y[0], m1, x, y1);
            }
            Ordering::Equal => {
                let m1 = amrg(x1, y1);
                lemma_amrg_found(x1, y1);
                let c = y[0].0.customer;
                assert(x[0].0.customer == c);
                let t = amrg_entry(x[0], y[0]);
                assert(m == t + m1);
                if t.len() == 0 {
                    assert(m =~= m1);
                    assert forall|k: Asn| #[trigger] dfind(m, k) == amrg_found(dfind(x, k), dfind(y, k)) by {
                        assert(dfind(m1, k) == amrg_found(dfind(x1, k), dfind(y1, k)));
                    }
                } else {
                    let e0 = t[0];
                    assert(t =~= seq![e0]);
                    assert(e0.0 == y[0].0);
                    assert forall|k: Asn| #[trigger] dfind(m, k) == amrg_found(dfind(x, k), dfind(y, k)) by {
                        lemma_dfind_cons(e0, m1, k);
                        assert(dfind(m1, k) == amrg_found(dfind(x1, k), dfind(y1, k)));
                    }
                    lemma_amrg_sorted_step(m, e0, m1, x1, y1);
                }
            }
        }
    }
}

// sortedness of `[e0] + m1` when every entry of m1 stems from x or y and all their customers are above e0's
proof fn lemma_amrg_sorted_step(m: Seq<(Aspa, AspaAction)>, e0: (Aspa, AspaAction), m1: Seq<(Aspa, AspaAction)>,
                                x: Seq<(Aspa, AspaAction)>, y: Seq<(Aspa, AspaAction)>)
    requires
        total_order::<Asn>(), m == seq![e0] + m1, dkeys_sorted(m1),
        forall|k: Asn| #[trigger] dfind(m1, k) == amrg_found(dfind(x, k), dfind(y, k)),
        forall|e: (Aspa, AspaAction)| #[trigger] x.contains(e) ==> lt(e0.0.customer, e.0.customer),
        forall|e: (Aspa, AspaAction)| #[trigger] y.contains(e) ==> lt(e0.0.customer, e.0.customer),
    ensures dkeys_sorted(m),
{
    assert(m.len() == m1.len() + 1);
    assert forall|i: int, j: int| 0 <= i < j < m.len() implies lt(m[i].0.customer, m[j].0.customer) by {
        if i > 0 { assert(m[i] == m1[i - 1] && m[j] == m1[j - 1]); }
        else {
            let e = m1[j - 1];
            assert(m[j] == e);
            let kj = e.0.customer;
            assert(m1.contains(e));
            lemma_dfind_contains(m1, e);
            assert(dfind(m1, kj) == amrg_found(dfind(x, kj), dfind(y, kj)));
            lemma_dfind_some(x, kj);
            lemma_dfind_some(y, kj);
            if dfind(x, kj) is Some { assert(x.contains(dfind(x, kj)->Some_0)); }
            else { assert(y.contains(dfind(y, kj)->Some_0)); }
        }
    }
}

// C12 (ASPA), for one customer: combining the change a -> b with the change b -> c gives the change a -> c
proof fn lemma_amrg_change(a: Option<Aspa>, b: Option<Aspa>, c: Option<Aspa>, k: Asn)
    requires
        a matches Some(x) ==> x.customer == k,
        b matches Some(x) ==> x.customer == k,
        c matches Some(x) ==> x.customer == k,
    ensures amrg_found(aspa_change(a, b), aspa_change(b, c)) == aspa_change(a, c),
{
}

// C12 (ASPA): merging the change set from a to b with the change set from b to c gives the change
// set from a to c
proof fn lemma_amrg_describes(x: Seq<(Aspa, AspaAction)>, y: Seq<(Aspa, AspaAction)>, a: Seq<Aspa>, b: Seq<Aspa>, c: Seq<Aspa>)
    requires total_order::<Asn>(), adescribes(x, a, b), adescribes(y, b, c),
    ensures adescribes(amrg(x, y), a, c),
{
    let m = amrg(x, y);
    lemma_amrg_found(x, y);
    assert forall|k: Asn| #[trigger] dfind(m, k) == aspa_change(afind(a, k), afind(c, k)) by {
        assert(dfind(m, k) == amrg_found(dfind(x, k), dfind(y, k)));
        assert(dfind(x, k) == aspa_change(afind(a, k), afind(b, k)));
        assert(dfind(y, k) == aspa_change(afind(b, k), afind(c, k)));
        lemma_afind_some(a, k);
        lemma_afind_some(b, k);
        lemma_afind_some(c, k);
        lemma_amrg_change(afind(a, k), afind(b, k), afind(c, k), k);
    }
}

// ================================================================ PayloadDelta
// assumptions on the rpki payload types: their derived Ord is a strict total order whose Equal
// is ==, and the derived Clone of AspaAction returns an equal value
spec fn payload_types_ok() -> bool {
    &&& total_order::<RouteOrigin>()
    &&& total_order::<RouterKey>()
    &&& total_order::<Asn>()
    &&& clone_exact::<AspaAction>()
}

// the snapshot invariant the delta code relies on: each data set is strictly sorted (ASPAs: by customer)
spec fn snap_sorted(s: &PayloadSnapshot) -> bool {
    &&& ssorted(s.origins_spec())
    &&& ssorted(s.router_keys_spec())
    &&& asorted(s.aspas_spec())
}

impl PayloadDelta {
    spec fn is_empty_spec(&self) -> bool {
        self.origins.items@.len() == 0 && self.router_keys.items@.len() == 0 && self.aspas.items@.len() == 0
    }
    spec fn counted(&self) -> bool {
        self.origins.counted() && self.router_keys.counted() && self.aspas.counted()
    }
    // C11/C12: this change set is exactly the change from data set a to data set b
    spec fn describes(&self, a: &PayloadSnapshot, b: &PayloadSnapshot) -> bool {
        &&& describes_change(self.origins.items@, a.origins_spec(), b.origins_spec())
        &&& describes_change(self.router_keys.items@, a.router_keys_spec(), b.router_keys_spec())
        &&& adescribes(self.aspas.items@, a.aspas_spec(), b.aspas_spec())
    }
}

// what a `.map(|item| item.0)` adapter over a snapshot accessor will yield: a prefix of the data set
proof fn lemma_map_prefix<T: Ord>(inner: Seq<(&T, &PayloadInfo)>, mapped: Seq<&T>, full: Seq<T>)
    requires
        total_order::<T>(),
        ssorted(full),
        pair_firsts(inner).is_prefix_of(full),
        mapped.len() <= inner.len(),
        forall|k: int| 0 <= k < mapped.len() ==> #[trigger] mapped[k] == inner[k].0,
    ensures
        ssorted(deref_seq(mapped)),
        mapped.len() <= full.len(),
        mapped.len() == inner.len() && pair_firsts(inner) == full ==> deref_seq(mapped) =~= full,
{
    let m = deref_seq(mapped);
    assert forall|i: int| 0 <= i < m.len() implies #[trigger] m[i] == full[i] by {
        assert(m[i] == *mapped[i]);
        assert(pair_firsts(inner)[i] == *inner[i].0);
        assert(pair_firsts(inner)[i] == full[i]);
    }
    assert forall|i: int, j: int| 0 <= i < j < m.len() implies lt(m[i], m[j]) by {
        assert(m[i] == full[i] && m[j] == full[j]);
    }
}

// the RTR action an ASPA change-set entry is served as (C11: Update counts as an announcement)
spec fn rtr_action(a: AspaAction) -> Action {
    match a {
        AspaAction::Announce => Action::Announce,
        AspaAction::Update(_) => Action::Announce,
        AspaAction::Withdraw(_) => Action::Withdraw,
    }
}
impl vstd::std_specs::convert::FromSpecImpl<AspaAction> for Action {
    open spec fn obeys_from_spec() -> bool { true }
    closed spec fn from_spec(v: AspaAction) -> Action { rtr_action(v) }
}
impl<'a> vstd::std_specs::convert::FromSpecImpl<&'a AspaAction> for Action {
    open spec fn obeys_from_spec() -> bool { true }
    closed spec fn from_spec(v: &'a AspaAction) -> Action { rtr_action(*v) }
}

// C12: the provider set stored in an Update/Withdraw entry of a change set from data set `o` is the one
// the customer had in `o` (AspaDelta::merge uses it as the original baseline: Update then Update back to
// it cancels, Update then Withdraw withdraws it, Withdraw then Announce of it cancels); an Announce
// entry's customer has no ASPA in `o`
spec fn stores_old_providers(d: Seq<(Aspa, AspaAction)>, o: Seq<Aspa>) -> bool {
    forall|i: int| 0 <= i < d.len() ==> match (#[trigger] d[i]).1 {
        AspaAction::Announce => afind(o, d[i].0.customer) is None,
        AspaAction::Update(p) => afind(o, d[i].0.customer) matches Some(a) && a.providers == p,
        AspaAction::Withdraw(p) => afind(o, d[i].0.customer) matches Some(a) && a.providers == p,
    }
}

proof fn lemma_adescribes_stores_old(d: Seq<(Aspa, AspaAction)>, o: Seq<Aspa>, n: Seq<Aspa>)
    requires total_order::<Asn>(), adescribes(d, o, n),
    ensures stores_old_providers(d, o),
{
    assert forall|i: int| 0 <= i < d.len() implies match (#[trigger] d[i]).1 {
        AspaAction::Announce => afind(o, d[i].0.customer) is None,
        AspaAction::Update(p) => afind(o, d[i].0.customer) matches Some(a) && a.providers == p,
        AspaAction::Withdraw(p) => afind(o, d[i].0.customer) matches Some(a) && a.providers == p,
    } by {
        let e = d[i];
        let k = e.0.customer;
        assert(d.contains(e));
        lemma_dfind_contains(d, e);
        assert(dfind(d, k) == aspa_change(afind(o, k), afind(n, k)));
    }
}

// ================================================================ serving a delta: DeltaArcIter
// C11: the actions a delta lists, in the order they are served
spec fn listed_actions(d: PayloadDelta) -> Seq<(PayloadRef<'static>, Action)> {
    d.origins.items@.map_values(|e: (RouteOrigin, Action)| (PayloadRef::Origin(e.0), e.1))
    + d.router_keys.items@.map_values(|e: (RouterKey, Action)| (PayloadRef::RouterKey(&e.0), e.1))
    + d.aspas.items@.map_values(|e: (Aspa, AspaAction)| (PayloadRef::Aspa(&e.0), rtr_action(e.1)))
}

proof fn lemma_listed_actions(d: &PayloadDelta)
    ensures
        listed_actions(*d).len() == d.origins.items@.len() + d.router_keys.items@.len() + d.aspas.items@.len(),
        forall|i: int| 0 <= i < d.origins.items@.len() ==>
            #[trigger] listed_actions(*d)[i] == (PayloadRef::Origin(d.origins.items@[i].0), d.origins.items@[i].1),
        forall|i: int| 0 <= i < d.router_keys.items@.len() ==>
            #[trigger] listed_actions(*d)[d.origins.items@.len() + i]
                == (PayloadRef::RouterKey(&d.router_keys.items@[i].0), d.router_keys.items@[i].1),
        forall|i: int| 0 <= i < d.aspas.items@.len() ==>
            #[trigger] listed_actions(*d)[d.origins.items@.len() + d.router_keys.items@.len() + i]
                == (PayloadRef::Aspa(&d.aspas.items@[i].0), rtr_action(d.aspas.items@[i].1)),
{
}

impl DeltaArcIter {
    // C11: the contract of next() (pub closed only because PayloadDiff::next is a public trait method
    // that cannot carry a precondition; the body is visible in this module)
    pub closed spec fn next_post(pre: DeltaArcIter, post: DeltaArcIter, res: Option<(PayloadRef<'static>, Action)>) -> bool {
        pre.wf() ==> {
            &&& post.wf()
            &&& post.delta == pre.delta
            &&& pre.pos() < listed_actions(*pre.delta).len() ==>
                    res == Some(listed_actions(*pre.delta)[pre.pos()]) && post.pos() == pre.pos() + 1
            &&& pre.pos() >= listed_actions(*pre.delta).len() ==>
                    res is None && post.pos() == pre.pos()
        }
    }
    // phase + index: the index never exceeds the number of entries of the current phase
    spec fn wf(&self) -> bool {
        match self.current_type {
            PayloadType::Origin => self.next <= self.delta.origins.items@.len(),
            PayloadType::RouterKey => self.next <= self.delta.router_keys.items@.len(),
            PayloadType::Aspa => self.next <= self.delta.aspas.items@.len(),
        }
    }
    // how many of the listed actions have been returned
    spec fn pos(&self) -> int {
        match self.current_type {
            PayloadType::Origin => self.next as int,
            PayloadType::RouterKey => self.delta.origins.items@.len() + self.next,
            PayloadType::Aspa => self.delta.origins.items@.len() + self.delta.router_keys.items@.len() + self.next,
        }
    }
}
