//@ fn PayloadHistory::push_delta
//@ spec
    requires
        old(self).chain(), old(self).bounded(),
        delta.serial_spec().0 == wadd(old(self).cur().0, 1),
    ensures
        // C14 (as in unit history): bounded, serial advanced by one, new delta in front
        final(self).bounded(),
        final(self).cur().0 == wadd(old(self).cur().0, 1),
        final(self).deltas@.len() >= 1 && *final(self).deltas@[0] == delta,
        final(self).deltas@.len() <= old(self).deltas@.len() + 1,
        old(self).deltas@.len() + 1 < 0x8000_0000 ==> final(self).chain(),
        // C15: the retained change sets still describe the retained data sets, for every
        // assignment c of data sets to serials under which the new delta is the change cur -> cur+1
        forall|c: spec_fn(u32) -> Content|
            old(self).deltas@.len() + 1 < 0x8000_0000 && #[trigger] old(self).spans_ok(c)
            && delta.is_diff(c(old(self).cur().0), c(delta.serial_spec().0)) ==> final(self).spans_ok(c),
        // frame: only `deltas` changes
        final(self).same_but_deltas(*old(self)),
//@ fn PayloadHistory::current
//@ spec
    ensures res == self.current,
//@ fn PayloadHistory::session
//@ spec
    ensures res == self.session,
//@ fn PayloadHistory::session_and_serial
//@ spec
    ensures res == (self.session, self.cur()),
//@ fn PayloadHistory::metrics
//@ spec
    ensures res == self.metrics,
//@ fn PayloadHistory::created
//@ spec
    ensures res == self.created,
//@ fn SharedHistory::update
//@ spec
    ensures
        // C15 (G): the new data set -- the one produced from this run's report -- is installed ...
        exists|o: PayloadHistory, n: PayloadHistory| #[trigger] self.released(o, n)
            && n.current is Some && n.current->Some_0.content() == report.snapshot_content(exceptions),
        // C15 (I): ... together with the serial and change set that describe it, in this one write
        // section: every ghost history c of the old content, extended at the (new) serial by the
        // new data set, is a ghost history of the new content
        exists|o: PayloadHistory, n: PayloadHistory| #[trigger] self.released(o, n) && n.current is Some
            && forall|c: spec_fn(u32) -> Content| #[trigger] o.inv(c) ==> n.inv(upd(c, n.cur().0, n.current->Some_0.content())),
        // C14: the serial advances by exactly one when the data changed, with the change set in
        // front, and stays unchanged otherwise (first data set: serial 0 by the invariant); the
        // return value (must notify) says exactly whether a new version was installed
        exists|o: PayloadHistory, n: PayloadHistory| #[trigger] self.released(o, n) && n.current is Some && ({
            let changed = o.current is Some && o.current->Some_0.content() != n.current->Some_0.content();
            &&& changed ==> (n.cur().0 == wadd(o.cur().0, 1) && n.deltas@.len() >= 1
                    && n.deltas@[0].is_diff(o.current->Some_0.content(), n.current->Some_0.content()))
            &&& !changed ==> n.deltas@ == o.deltas@
            &&& res == (o.current is None || changed)
        }),
        // C15 frame: nothing else but the metrics changes
        exists|o: PayloadHistory, n: PayloadHistory| #[trigger] self.released(o, n)
            && n.session == o.session && n.keep == o.keep && n.refresh == o.refresh && n.min_refresh == o.min_refresh
            && n.unsafe_vrps == o.unsafe_vrps && n.timing == o.timing
            && n.last_update_start == o.last_update_start && n.last_update_done == o.last_update_done
            && n.last_update_duration == o.last_update_duration && n.next_update_start == o.next_update_start
            // (`created` may only move when the served version changes, and then only forward)
            && (n.cur() == o.cur() ==> n.created == o.created)
            && (o.created is Some ==> n.created is Some && n.created->Some_0.t@ >= o.created->Some_0.t@)
            && (o.created is None ==> n.created is None),
        // C16: a section that changes the served version must also advance `created` past the
        // second of every Last-Modified issued before (see guarantee16)
        exists|o: PayloadHistory, n: PayloadHistory| #[trigger] self.released(o, n) && guarantee16(o, n),
//@ exit
        proof {
            // the content this call read (= the content at the write acquisition: single writer)
            let o = choose|h: PayloadHistory| self.held(h);
            let n = *history;
            let x = n.current->Some_0.content();
            // C15 (I)
            assert forall|c: spec_fn(u32) -> Content| #[trigger] o.inv(c) implies n.inv(upd(c, n.cur().0, x)) by {
                if o.current is Some && o.current->Some_0.content() != x {
                    // a change set was pushed: o1 = content before the push, p = content after it
                    let c2 = upd(c, wadd(o.cur().0, 1), x);
                    let o1 = PayloadHistory { metrics: n.metrics, ..o };
                    let p = PayloadHistory { current: o.current, ..n };
                    lemma_upd_next(o, c, x);
                    // C15
                    assert(o1.deltas == o.deltas);
                    // C15
                    assert(o1.spans_ok(c2));
                    // C15
                    assert(p.spans_ok(c2));
                    // C15
                    assert(n.deltas == p.deltas);
                    // C15
                    assert(n.spans_ok(c2));
                    // C15
                    assert(n.cur().0 == wadd(o.cur().0, 1));
                } else {
                    // serial unchanged; the ghost history changes at most at a serial whose data set is equal
                    // C15
                    if o.current is Some { assert(upd(c, o.cur().0, x) =~= c); }
                    // C15
                    assert(n.deltas == o.deltas);
                }
            }
        }
//@ closure and_then 1 optional
|current: &Arc<PayloadSnapshot>| -> (r: Option<PayloadDelta>)
    ensures
        r is None <==> current.content() == snapshot.content(),
        r matches Some(d) ==> d.serial_spec().0 == wadd(serial.0, 1) && d.is_diff(current.content(), snapshot.content())
//@ fn SharedHistory::mark_update_start
//@ spec
    ensures
        // C33: marking the start of a run writes last_update_start and nothing else
        exists|o: PayloadHistory, n: PayloadHistory| #[trigger] self.released(o, n)
            && n.same_core(o) && n.deltas == o.deltas && n.created == o.created
            && n.last_update_done == o.last_update_done && n.last_update_duration == o.last_update_duration
            && n.next_update_start == o.next_update_start,
        // C15: the lock invariant is kept
        exists|o: PayloadHistory, n: PayloadHistory| #[trigger] self.released(o, n)
            && forall|c: spec_fn(u32) -> Content| #[trigger] o.inv(c) ==> n.inv(c),
        // C16: per-section guarantee (the served version does not change here)
        exists|o: PayloadHistory, n: PayloadHistory| #[trigger] self.released(o, n) && guarantee16(o, n),
//@ fn SharedHistory::mark_update_done
//@ spec
    ensures
        // C15: data set, change sets, serial, session and configuration are not touched; the lock invariant is kept
        exists|o: PayloadHistory, n: PayloadHistory| #[trigger] self.released(o, n)
            && n.same_core(o) && n.deltas == o.deltas && n.last_update_start == o.last_update_start
            && forall|c: spec_fn(u32) -> Content| #[trigger] o.inv(c) ==> n.inv(c),
        // C16: created is set, and strictly increases in whole seconds, so a Last-Modified issued
        // before this section never compares >= the new created
        exists|o: PayloadHistory, n: PayloadHistory| #[trigger] self.released(o, n)
            && n.created is Some
            && (o.created is Some ==> n.created->Some_0.secs() > o.created->Some_0.secs())
            && guarantee16(o, n),
//@ closure unwrap_or_else 1 optional
|_e: OutOfRangeError| -> (r: Duration) ensures r.ns@ == 0
//@ closure and_then 1 optional
|c: &Arc<PayloadSnapshot>| -> (r: Option<Time>) ensures r == c.refresh_spec()
//@ fn SharedHistory::ready
//@ spec
    ensures
        // C15: not ready (no data served) exactly while there is no data set
        exists|h: PayloadHistory| #[trigger] self.held(h) && res == h.current.is_some(),
//@ fn SharedHistory::notify
//@ spec
    ensures
        // C15: session and serial of one state
        exists|h: PayloadHistory| #[trigger] self.held(h) && h.inv_ex()
            && res == (State { session: h.session as u16, serial: h.cur() }),
//@ fn SharedHistory::full
//@ spec
    ensures
        // C15: session, serial and data set are those of ONE state of the history (which satisfies the
        // lock invariant: the data set is the one of that serial)
        exists|h: PayloadHistory| #[trigger] self.held(h) && h.inv_ex()
            && res.0 == (State { session: h.session as u16, serial: h.cur() })
            && (h.current matches Some(s) ==> res.1.snapshot_spec() == s),
//@ fn SharedHistory::diff
//@ spec
    ensures
        // C13: a serial of a foreign session is always refused; only serials of the retained window
        // are answered, and all of them are
        exists|h: PayloadHistory| #[trigger] self.held(h) && h.inv_ex() && ({
            &&& res is Some ==> state.session == h.session as u16
            &&& res is Some ==> wsub(h.cur().0, state.serial.0) as int <= h.deltas@.len()
            &&& (state.session == h.session as u16
                    && (wsub(h.cur().0, state.serial.0) == 0 || (wsub(h.cur().0, state.serial.0) as int) < h.deltas@.len()))
                    ==> res is Some
        }),
        // C15: the answer pairs the session/serial of ONE state with the change set from the client's
        // serial to exactly that serial's data set
        exists|h: PayloadHistory| #[trigger] self.held(h) && h.inv_ex() && (
            res matches Some(r) ==> (
                    r.0 == (State { session: h.session as u16, serial: h.cur() })
                    && r.1.delta_spec().serial_spec() == h.cur()
                    && forall|c: spec_fn(u32) -> Content| #[trigger] h.inv(c) ==>
                            r.1.delta_spec().is_diff(c(state.serial.0), c(h.cur().0)))),
//@ closure map 1 optional
|delta: Arc<PayloadDelta>| -> (r: (State, DeltaArcIter))
    ensures r.0 == (State { session: read.session as u16, serial: read.cur() }), r.1.delta_spec() == delta
//@ global
// the ghost history c extended / overwritten at serial s
spec fn upd(c: spec_fn(u32) -> Content, s: u32, x: Content) -> spec_fn(u32) -> Content {
    |t: u32| if t == s { x } else { c(t) }
}

// C16, per write section: if the served version changes (serial), `created` must end up strictly
// later than the whole second of the old `created` -- the value the old Last-Modified header carried
// and an If-Modified-Since request presents (http/response.rs answers 304 when that date >= created)
spec fn guarantee16(o: PayloadHistory, n: PayloadHistory) -> bool {
    (n.cur() != o.cur() && o.created is Some) ==>
        (n.created matches Some(c1) && c1.t@ > o.created->Some_0.secs() * NS())
}

impl PayloadHistory {
    // serial of the current data set (as in unit history)
    spec fn cur(&self) -> Serial {
        if self.deltas@.len() > 0 { self.deltas@[0].serial_spec() } else { Serial(0u32) }
    }
    spec fn bound(&self) -> int { if self.keep >= 1 { self.keep as int } else { 1 } }
    spec fn bounded(&self) -> bool { self.deltas@.len() <= self.bound() }

    // window invariant of unit history, split: serial numbers ...
    spec fn chain(&self) -> bool {
        &&& self.deltas@.len() < 0x8000_0000
        &&& forall|i: int| 0 <= i < self.deltas@.len() ==>
                (#[trigger] self.deltas@[i]).serial_spec().0 == wadd(self.cur().0, -i)
    }
    // ... and contents: delta i is the change from the data set of serial cur-(i+1) to that of cur-i
    spec fn spans_ok(&self, c: spec_fn(u32) -> Content) -> bool {
        forall|i: int| 0 <= i < self.deltas@.len() ==>
            (#[trigger] self.deltas@[i]).is_diff(c(wadd(self.cur().0, -i - 1)), c(wadd(self.cur().0, -i)))
    }

    // C15 lock invariant, for a ghost history c (data set of each serial)
    spec fn inv(&self, c: spec_fn(u32) -> Content) -> bool {
        &&& self.chain() && self.bounded() && self.spans_ok(c)
        // configuration assumption: history-size < 2^31 - 1 (a serial number identifies a data set
        // only within a window shorter than 2^31 versions)
        &&& self.bound() + 1 < 0x8000_0000
        // the served data set is the data set of the served serial
        &&& self.current matches Some(s) ==> s.content() == c(self.cur().0)
        // before the first data set there is no history (serial 0)
        &&& self.current is None ==> self.deltas@.len() == 0
    }
    spec fn inv_ex(&self) -> bool { exists|c: spec_fn(u32) -> Content| self.inv(c) }

    // frames
    spec fn same_core(&self, o: PayloadHistory) -> bool {
        &&& self.current == o.current && self.metrics == o.metrics && self.session == o.session
        &&& self.keep == o.keep && self.refresh == o.refresh && self.min_refresh == o.min_refresh
        &&& self.unsafe_vrps == o.unsafe_vrps && self.timing == o.timing
    }
    spec fn same_times(&self, o: PayloadHistory) -> bool {
        &&& self.last_update_start == o.last_update_start && self.last_update_done == o.last_update_done
        &&& self.last_update_duration == o.last_update_duration && self.next_update_start == o.next_update_start
        &&& self.created == o.created
    }
    spec fn same_but_deltas(&self, o: PayloadHistory) -> bool { self.same_core(o) && self.same_times(o) }
}

// extending a ghost history at the next serial does not disturb the retained window
proof fn lemma_upd_next(h: PayloadHistory, c: spec_fn(u32) -> Content, x: Content)
    requires h.chain(), h.spans_ok(c),
    ensures h.spans_ok(upd(c, wadd(h.cur().0, 1), x)), upd(c, wadd(h.cur().0, 1), x)(h.cur().0) == c(h.cur().0),
{
    let c2 = upd(c, wadd(h.cur().0, 1), x);
    let cur = h.cur().0;
    assert forall|i: int| 0 <= i < h.deltas@.len() implies
        (#[trigger] h.deltas@[i]).is_diff(c2(wadd(cur, -i - 1)), c2(wadd(cur, -i))) by {
        assert(wadd(cur, -i - 1) != wadd(cur, 1));
        assert(wadd(cur, -i) != wadd(cur, 1));
    }
}
