// Environment of unit `history_locks` (C15, C16; clauses of C13, C14, C33). Everything here is ASSUMED.

// ===== rpki::rtr::Serial: copied from units/history/env.rs (contracts discharged there by Kani harnesses)
#[derive(Clone, Copy)]
pub struct Serial(pub u32);

pub open spec fn serial_cmp(a: u32, b: u32) -> Option<Ordering> {
    if a == b { Some(Ordering::Equal) }
    else if a < b {
        if b - a < 0x8000_0000 { Some(Ordering::Less) }
        else if b - a > 0x8000_0000 { Some(Ordering::Greater) }
        else { None }
    } else {
        if a - b < 0x8000_0000 { Some(Ordering::Greater) }
        else if a - b > 0x8000_0000 { Some(Ordering::Less) }
        else { None }
    }
}

pub open spec fn wadd(a: u32, b: int) -> u32 { ((a as int + b) % 0x1_0000_0000) as u32 }
pub open spec fn wsub(a: u32, b: u32) -> u32 { ((a as int - b as int) % 0x1_0000_0000) as u32 }

impl PartialEqSpecImpl for Serial {
    open spec fn obeys_eq_spec() -> bool { true }
    open spec fn eq_spec(&self, other: &Serial) -> bool { self.0 == other.0 }
}
impl PartialEq for Serial {
    #[verifier::external_body]
    fn eq(&self, other: &Self) -> bool { unimplemented!() }
}
impl PartialEqSpecImpl<u32> for Serial {
    open spec fn obeys_eq_spec() -> bool { true }
    open spec fn eq_spec(&self, other: &u32) -> bool { self.0 == *other }
}
impl PartialEq<u32> for Serial {
    #[verifier::external_body]
    fn eq(&self, other: &u32) -> bool { unimplemented!() }
}
impl PartialOrdSpecImpl for Serial {
    open spec fn obeys_partial_cmp_spec() -> bool { true }
    open spec fn partial_cmp_spec(&self, other: &Serial) -> Option<Ordering> { serial_cmp(self.0, other.0) }
}
impl PartialOrd for Serial {
    #[verifier::external_body]
    fn partial_cmp(&self, other: &Serial) -> Option<Ordering> { unimplemented!() }
}
impl Serial {
    #[verifier::external_body]
    pub fn add(self, other: u32) -> (r: Serial)
        requires other <= 0x7FFF_FFFF,
        ensures r.0 == wadd(self.0, other as int),
    { unimplemented!() }
}
impl vstd::std_specs::convert::FromSpecImpl<u32> for Serial {
    open spec fn obeys_from_spec() -> bool { true }
    open spec fn from_spec(v: u32) -> Serial { Serial(v) }
}
impl From<u32> for Serial {
    #[verifier::external_body]
    fn from(value: u32) -> Serial { unimplemented!() }
}


// ===== time model: copied from units/schedule/env.rs (mathematical integers, nanoseconds on one time line)
#[derive(Clone, Copy)] pub struct Duration { pub ns: Ghost<nat> }            // std::time::Duration
#[derive(Clone, Copy)] pub struct SystemTime { pub t: Ghost<int> }           // std::time::SystemTime
#[derive(Clone, Copy)] pub struct Utc { pub _z: Ghost<int> }                 // chrono::Utc
#[derive(Clone, Copy)] #[verifier::reject_recursive_types(T)]
pub struct DateTime<T> { pub t: Ghost<int>, pub _tz: Ghost<T> }              // chrono::DateTime
#[derive(Clone, Copy)] pub struct ChronoDuration { pub ns: Ghost<int> }      // chrono::Duration (TimeDelta)
#[derive(Clone, Copy)] pub struct Time { pub t: Ghost<int> }                 // rpki::repository::x509::Time
#[verifier::external_body] pub struct SystemTimeError { _opaque: () }
#[verifier::external_body] pub struct OutOfRangeError { _opaque: () }

pub open spec fn NS() -> int { 1_000_000_000 }

// ---- ghost clocks: a value returned by a clock call is recorded as a ghost fact
pub uninterp spec fn sys_clock_read(t: int) -> bool;
pub uninterp spec fn utc_clock_read(t: int) -> bool;

// ---- Duration: total order on the integer value
impl PartialEqSpecImpl for Duration {
    open spec fn obeys_eq_spec() -> bool { true }
    open spec fn eq_spec(&self, other: &Duration) -> bool { self.ns@ == other.ns@ }
}
impl PartialEq for Duration { #[verifier::external_body] fn eq(&self, other: &Self) -> bool { unimplemented!() } }
impl Eq for Duration {}
impl PartialOrdSpecImpl for Duration {
    open spec fn obeys_partial_cmp_spec() -> bool { true }
    open spec fn partial_cmp_spec(&self, other: &Duration) -> Option<Ordering> {
        if self.ns@ < other.ns@ { Some(Ordering::Less) } else if self.ns@ == other.ns@ { Some(Ordering::Equal) } else { Some(Ordering::Greater) }
    }
}
impl PartialOrd for Duration { #[verifier::external_body] fn partial_cmp(&self, other: &Self) -> Option<Ordering> { unimplemented!() } }
impl OrdSpecImpl for Duration {
    open spec fn obeys_cmp_spec() -> bool { true }
    open spec fn cmp_spec(&self, other: &Duration) -> Ordering {
        if self.ns@ < other.ns@ { Ordering::Less } else if self.ns@ == other.ns@ { Ordering::Equal } else { Ordering::Greater }
    }
}
impl Ord for Duration { #[verifier::external_body] fn cmp(&self, other: &Self) -> Ordering { unimplemented!() } }
impl Duration {
    #[verifier::external_body]
    pub fn from_secs(s: u64) -> (r: Duration) ensures r.ns@ == s * NS() { unimplemented!() }
}
impl vstd::std_specs::ops::AddSpecImpl<Duration> for Duration {
    open spec fn obeys_add_spec() -> bool { true }
    open spec fn add_req(self, rhs: Duration) -> bool { true }
    open spec fn add_spec(self, rhs: Duration) -> Duration { Duration { ns: Ghost(self.ns@ + rhs.ns@) } }
}
impl core::ops::Add<Duration> for Duration {
    type Output = Duration;
    #[verifier::external_body] fn add(self, rhs: Duration) -> (r: Duration) { unimplemented!() }
}

// ---- SystemTime
impl SystemTime {
    #[verifier::external_body]
    pub fn now() -> (r: SystemTime) ensures sys_clock_read(r.t@) { unimplemented!() }

    #[verifier::external_body]
    pub fn duration_since(&self, earlier: SystemTime) -> (r: Result<Duration, SystemTimeError>)
        ensures
            self.t@ >= earlier.t@ ==> (r matches Ok(d) && d.ns@ == self.t@ - earlier.t@),
            self.t@ < earlier.t@ ==> r is Err,
    { unimplemented!() }
}
impl vstd::std_specs::ops::AddSpecImpl<Duration> for SystemTime {
    open spec fn obeys_add_spec() -> bool { true }
    open spec fn add_req(self, rhs: Duration) -> bool { true }
    open spec fn add_spec(self, rhs: Duration) -> SystemTime { SystemTime { t: Ghost(self.t@ + rhs.ns@) } }
}
impl core::ops::Add<Duration> for SystemTime {
    type Output = SystemTime;
    #[verifier::external_body] fn add(self, rhs: Duration) -> (r: SystemTime) { unimplemented!() }
}
impl PartialEqSpecImpl for SystemTime {
    open spec fn obeys_eq_spec() -> bool { true }
    open spec fn eq_spec(&self, other: &SystemTime) -> bool { self.t@ == other.t@ }
}
impl PartialEq for SystemTime { #[verifier::external_body] fn eq(&self, other: &Self) -> bool { unimplemented!() } }
impl PartialOrdSpecImpl for SystemTime {
    open spec fn obeys_partial_cmp_spec() -> bool { true }
    open spec fn partial_cmp_spec(&self, other: &SystemTime) -> Option<Ordering> {
        if self.t@ < other.t@ { Some(Ordering::Less) } else if self.t@ == other.t@ { Some(Ordering::Equal) } else { Some(Ordering::Greater) }
    }
}
impl PartialOrd for SystemTime { #[verifier::external_body] fn partial_cmp(&self, other: &Self) -> Option<Ordering> { unimplemented!() } }
// SystemTime::from(rpki Time): same instant
impl vstd::std_specs::convert::FromSpecImpl<Time> for SystemTime {
    open spec fn obeys_from_spec() -> bool { true }
    open spec fn from_spec(v: Time) -> SystemTime { SystemTime { t: Ghost(v.t@) } }
}
impl From<Time> for SystemTime { #[verifier::external_body] fn from(value: Time) -> SystemTime { unimplemented!() } }

// ---- chrono
impl Utc {
    #[verifier::external_body]
    pub fn now() -> (r: DateTime<Utc>) ensures utc_clock_read(r.t@) { unimplemented!() }
}
impl DateTime<Utc> {
    pub open spec fn secs(&self) -> int { self.t@ / NS() }

    #[verifier::external_body]
    pub fn signed_duration_since(self, rhs: DateTime<Utc>) -> (r: ChronoDuration)
        ensures r.ns@ == self.t@ - rhs.t@
    { unimplemented!() }

    // whole seconds since the epoch (floor); the value is assumed to fit (chrono's range)
    #[verifier::external_body]
    pub fn timestamp(&self) -> (r: i64) ensures r as int == self.secs() { unimplemented!() }
}
impl ChronoDuration {
    #[verifier::external_body]
    pub fn to_std(&self) -> (r: Result<Duration, OutOfRangeError>)
        ensures
            self.ns@ >= 0 ==> (r matches Ok(d) && d.ns@ == self.ns@),
            self.ns@ < 0 ==> r is Err,
    { unimplemented!() }

    #[verifier::external_body]
    pub fn try_seconds(s: i64) -> (r: Option<ChronoDuration>)
        ensures s == 1 ==> (r matches Some(d) && d.ns@ == NS()),
    { unimplemented!() }
}
impl vstd::std_specs::ops::AddSpecImpl<ChronoDuration> for DateTime<Utc> {
    open spec fn obeys_add_spec() -> bool { true }
    open spec fn add_req(self, rhs: ChronoDuration) -> bool { true }
    open spec fn add_spec(self, rhs: ChronoDuration) -> DateTime<Utc> { DateTime { t: Ghost(self.t@ + rhs.ns@), _tz: self._tz } }
}
impl core::ops::Add<ChronoDuration> for DateTime<Utc> {
    type Output = DateTime<Utc>;
    #[verifier::external_body] fn add(self, rhs: ChronoDuration) -> (r: DateTime<Utc>) { unimplemented!() }
}


// ===== payload types
#[verifier::external_body] pub struct Content { _opaque: () }          // ghost: the payload data of a data set
#[verifier::external_body] pub struct PayloadSnapshot { _opaque: () }
#[verifier::external_body] pub struct PayloadDelta { _opaque: () }
#[verifier::external_body] pub struct Metrics { _opaque: () }
#[verifier::external_body] pub struct FilterPolicy { _opaque: () }
#[verifier::external_body] pub struct Timing { _opaque: () }
#[verifier::external_body] pub struct ValidationReport { _opaque: () }
#[verifier::external_body] pub struct LocalExceptions { _opaque: () }
#[verifier::external_body] pub struct SnapshotArcIter { _opaque: () }
#[verifier::external_body] pub struct DeltaArcIter { _opaque: () }

impl PayloadSnapshot {
    pub uninterp spec fn content(&self) -> Content;
    pub uninterp spec fn refresh_spec(&self) -> Option<Time>;
    #[verifier::external_body]
    pub fn refresh(&self) -> (r: Option<Time>) ensures r == self.refresh_spec() { unimplemented!() }
    // the RTR / HTTP iterator over exactly this data set
    #[verifier::external_body]
    pub fn arc_iter(self: Arc<Self>) -> (r: SnapshotArcIter) ensures r.snapshot_spec() == self { unimplemented!() }
}
impl Default for PayloadSnapshot { #[verifier::external_body] fn default() -> PayloadSnapshot { unimplemented!() } }   // the empty data set
impl SnapshotArcIter { pub uninterp spec fn snapshot_spec(&self) -> Arc<PayloadSnapshot>; }
impl DeltaArcIter { pub uninterp spec fn delta_spec(&self) -> Arc<PayloadDelta>; }

impl ValidationReport {
    // the data set a report and the local exceptions produce
    pub uninterp spec fn snapshot_content(self, exceptions: &LocalExceptions) -> Content;
    #[verifier::external_body]
    pub fn into_snapshot(self, exceptions: &LocalExceptions, metrics: &mut Metrics) -> (r: PayloadSnapshot)
        ensures r.content() == self.snapshot_content(exceptions),
    { unimplemented!() }
}

impl PayloadDelta {
    pub uninterp spec fn serial_spec(&self) -> Serial;
    // ghost: this change set turns data set `a` into exactly data set `b`
    pub uninterp spec fn is_diff(&self, a: Content, b: Content) -> bool;
    pub uninterp spec fn is_empty_spec(&self) -> bool;

    // accessors (delta.rs); is_empty/serial read the abstract state, the counts are not constrained
    #[verifier::external_body]
    pub fn is_empty(&self) -> (r: bool) ensures r == self.is_empty_spec() { unimplemented!() }
    #[verifier::external_body]
    pub fn serial(&self) -> (r: Serial) ensures r == self.serial_spec() { unimplemented!() }
    #[verifier::external_body] pub fn announce_len(&self) -> usize { unimplemented!() }
    #[verifier::external_body] pub fn withdraw_len(&self) -> usize { unimplemented!() }
    // C11/C12 (unit delta), as assumed in units/history/env.rs, over data-set contents
    #[verifier::external_body]
    pub fn empty(serial: Serial) -> (r: PayloadDelta)
        ensures r.serial_spec() == serial, r.is_empty_spec(), forall|x: Content| r.is_diff(x, x),
    { unimplemented!() }
    #[verifier::external_body]
    pub fn merge(&self, new: &PayloadDelta) -> (r: PayloadDelta)
        ensures r.serial_spec() == new.serial_spec(),
                forall|x: Content, y: Content, z: Content| self.is_diff(x, y) && new.is_diff(y, z) ==> r.is_diff(x, z),
    { unimplemented!() }

    // C11 (unit delta), lifted to PayloadDelta: None exactly when the data sets are equal; otherwise the
    // exact change from `old` to `new`, tagged serial + 1
    #[verifier::external_body]
    pub fn construct(old: &PayloadSnapshot, new: &PayloadSnapshot, serial: Serial) -> (r: Option<PayloadDelta>)
        ensures
            r is None <==> old.content() == new.content(),
            r matches Some(d) ==> d.serial_spec().0 == wadd(serial.0, 1) && d.is_diff(old.content(), new.content()),
    { unimplemented!() }

    #[verifier::external_body]
    pub fn arc_iter(self: Arc<Self>) -> (r: DeltaArcIter) ensures r.delta_spec() == self { unimplemented!() }
}

// rpki::rtr::State: session (16 bit) and serial announced to a router
pub struct State { pub session: u16, pub serial: Serial }
impl State {
    #[verifier::external_body]
    pub fn from_parts(session: u16, serial: Serial) -> (r: State) ensures r == (State { session, serial }) { unimplemented!() }
    #[verifier::external_body]
    pub fn session(&self) -> (r: u16) ensures r == self.session { unimplemented!() }
    #[verifier::external_body]
    pub fn serial(&self) -> (r: Serial) ensures r == self.serial { unimplemented!() }
}

// ===== PayloadHistory functions proved in unit `history` (C13/C14); contracts copied from there
// (push_delta is extracted and proved again in this unit, with the frame of the other fields),
// read for every assignment c of data sets to serials (see unit.json paper_steps)
impl PayloadHistory {
    #[verifier::external_body]
    fn delta_since(&self, serial: Serial) -> (res: Option<Arc<PayloadDelta>>)
        requires self.chain(),
        ensures
            res is Some ==> wsub(self.cur().0, serial.0) as int <= self.deltas@.len(),
            (wsub(self.cur().0, serial.0) == 0 || (wsub(self.cur().0, serial.0) as int) < self.deltas@.len())
                ==> res is Some,
            res matches Some(d) ==> d.serial_spec() == self.cur(),
            forall|c: spec_fn(u32) -> Content| #[trigger] self.spans_ok(c) ==>
                (res matches Some(d) ==> d.is_diff(c(serial.0), c(self.cur().0))),
            res matches Some(d) ==> (serial == self.cur() ==> d.is_empty_spec()),
    { unimplemented!() }

    #[verifier::external_body]
    fn serial(&self) -> (res: Serial) ensures res == self.cur() { unimplemented!() }

    #[verifier::external_body]
    fn rtr_session(&self) -> (res: u16) ensures res == self.session as u16 { unimplemented!() }

    #[verifier::external_body]
    fn is_active(&self) -> (res: bool) ensures res == self.current.is_some() { unimplemented!() }
}

// ===== the lock. SharedHistory(Arc<RwLock<PayloadHistory>>); read()/write() are the RwLock acquisitions.
// A guard is modelled as a plain reference. Acquiring returns an arbitrary content satisfying the lock
// invariant (havoc on acquire); `released(o, n)` records the content at acquisition and at release
// (`final`) of a write section of this call.
#[verifier::external_body] struct SharedHistory { _opaque: () }
impl SharedHistory {
    // ghost: h was the content seen by a read section of the current call
    pub uninterp spec fn held(&self, h: PayloadHistory) -> bool;
    // ghost: a write section of the current call started from o and released n
    pub uninterp spec fn released(&self, o: PayloadHistory, n: PayloadHistory) -> bool;

    #[verifier::external_body]
    fn read(&self) -> (g: &PayloadHistory)
        ensures self.held(*g), g.inv_ex(),
    { unimplemented!() }

    #[verifier::external_body]
    fn write(&self) -> (g: &mut PayloadHistory)
        ensures
            g.inv_ex(),
            self.released(*g, *final(g)),
            // rely of the single writer thread: nothing changed since this call's read sections
            // (sound while every read section of a writer function precedes its one write section:
            // `count` guards in unit.json)
            forall|h: PayloadHistory| #[trigger] self.held(h) ==> h == *g,
    { unimplemented!() }
}

// ---- std functions without a vstd specification
pub assume_specification<T: Ord + core::marker::Destruct> [std::cmp::max] (a: T, b: T) -> (r: T)
    ensures T::obeys_cmp_spec() ==> r == (if a.cmp_spec(&b) == Ordering::Greater { a } else { b }),
;
pub assume_specification<T, E, F> [std::result::Result::<T, E>::unwrap_or_else] (r: std::result::Result<T, E>, f: F) -> (res: T)
    where F: std::ops::FnOnce(E,) -> T + std::marker::Destruct,
    requires r is Err ==> f.requires((r->Err_0,)),
    ensures
        r matches Ok(v) ==> res == v,
        r matches Err(e) ==> f.ensures((e,), res),
;
pub assume_specification<T, E> [std::result::Result::<T, E>::unwrap_or] (r: std::result::Result<T, E>, default: T) -> (res: T)
    where E: std::marker::Destruct, T: std::marker::Destruct,
    ensures
        r matches Ok(v) ==> res == v,
        r is Err ==> res == default,
;
pub assume_specification<T: Ord + core::marker::Destruct> [std::cmp::min] (a: T, b: T) -> (r: T)
    ensures T::obeys_cmp_spec() ==> r == (if a.cmp_spec(&b) == Ordering::Greater { b } else { a }),
;

// `x.into()` for Arc<T>: From<T> (std) wraps the value
pub assume_specification<T>[<Arc<T> as From<T>>::from](t: T) -> (r: Arc<T>)
    ensures *r == t;

// Arc::clone returns an equal Arc (vstd states this for a direct call; this makes it available when the
// clone happens inside Option::clone)
pub mod clone_axiom {
    use vstd::prelude::*;
    use std::sync::Arc;
    #[verifier::external_body]
    pub broadcast proof fn axiom_arc_cloned<T>(a: Arc<T>, b: Arc<T>)
        ensures #[trigger] cloned(a, b) ==> a == b
    {}
}
broadcast use clone_axiom::axiom_arc_cloned;
