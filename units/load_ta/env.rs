// Environment of unit `load_ta` (C38, Verus part): opaque types and ASSUMED contracts.

#[verifier::external_body] pub struct Https { _opaque: () }
#[verifier::external_body] pub struct PathBuf { _opaque: () }
#[verifier::external_body] pub struct HttpClient { _opaque: () }
#[verifier::external_body] pub struct ReqwestError { _opaque: () }
#[verifier::external_body] pub struct IoError { _opaque: () }
#[verifier::external_body] pub struct Repository { _opaque: () }
#[verifier::external_body] pub struct ReadRepository { _opaque: () }
#[verifier::external_body] pub struct RrdpRepositoryMetrics { _opaque: () }
#[derive(Clone, Copy)]
#[verifier::external_body] pub struct FallbackTime { _opaque: () }
#[verifier::external_body] #[verifier::reject_recursive_types(T)] pub struct RwLock<T> { _t: T }
#[verifier::external_body] #[verifier::reject_recursive_types(T)] pub struct Mutex<T> { _t: T }
#[verifier::external_body] #[verifier::reject_recursive_types(R)] pub struct LoadResult<R = Arc<ReadRepository>> { _r: R }

// bytes::Bytes: an immutable byte string.
#[verifier::external_body] pub struct Bytes { _opaque: () }
impl Bytes {
    pub uninterp spec fn content(&self) -> Seq<u8>;
}
impl From<Vec<u8>> for Bytes {
    #[verifier::external_body]
    fn from(v: Vec<u8>) -> (r: Bytes) ensures r.content() == v@ { unimplemented!() }
}
impl vstd::std_specs::convert::FromSpecImpl<Vec<u8>> for Bytes {
    open spec fn obeys_from_spec() -> bool { false }
    open spec fn from_spec(v: Vec<u8>) -> Bytes { arbitrary() }
}

// The HTTP exchange for a URI in this run: a ghost function of (client, uri).
pub uninterp spec fn http_outcome(http: &HttpClient, uri: &Https) -> Result<HttpResponse, ReqwestError>;

#[verifier::external_body] pub struct HttpResponse { _opaque: () }
impl HttpResponse {
    // value of the Content-Length header, if any
    pub uninterp spec fn content_length_spec(&self) -> Option<u64>;
    // the complete response body as the server would deliver it
    pub uninterp spec fn body_spec(&self) -> Seq<u8>;
    #[verifier::external_body]
    pub fn content_length(&self) -> (r: Option<u64>) ensures r == self.content_length_spec() { unimplemented!() }
}
impl HttpClient {
    #[verifier::external_body]
    pub fn response(&self, uri: &Https) -> (r: Result<HttpResponse, ReqwestError>)
        ensures r == http_outcome(self, uri),
    { unimplemented!() }
}

// collector::rrdp::http::LimitedDataRead over an HTTP response.
// ASSUMED here, PROVED per read() call by Kani on the real code (see paper_steps):
// with a limit of `max` bytes read_to_end appends at most `max` bytes; it returns Ok exactly
// when the source ends without an I/O error within the limit, and then appended the whole body.
#[verifier::external_body] #[verifier::reject_recursive_types(R)] pub struct LimitedDataRead<'a, R> { _p: &'a (), _r: R }
impl<'a> LimitedDataRead<'a, HttpResponse> {
    pub uninterp spec fn source(&self) -> HttpResponse;
    pub uninterp spec fn limit(&self) -> Option<u64>;
    // whether the transport fails before the end of the body (unknown to the program)
    pub uninterp spec fn io_fails(&self) -> bool;
    #[verifier::external_body]
    pub fn new<U>(reader: HttpResponse, uri: &'a U, max_size: Option<u64>) -> (r: Self)
        ensures r.source() == reader, r.limit() == max_size,
    { unimplemented!() }
    #[verifier::external_body]
    pub fn read_to_end(&mut self, buf: &mut Vec<u8>) -> (r: Result<usize, IoError>)
        ensures
            final(self).source() == old(self).source(),
            // only appends, and only a prefix of the body
            final(buf)@.len() >= old(buf)@.len(),
            forall|i: int| 0 <= i < old(buf)@.len() ==> final(buf)@[i] == old(buf)@[i],
            forall|i: int| old(buf)@.len() <= i < final(buf)@.len() ==>
                final(buf)@[i] == old(self).source().body_spec()[i - old(buf)@.len()],
            final(buf)@.len() - old(buf)@.len() <= old(self).source().body_spec().len(),
            // never more than the limit
            old(self).limit() matches Some(l) ==> final(buf)@.len() - old(buf)@.len() <= l,
            // Ok <=> complete body within the limit and no transport failure
            r is Ok <==> (!old(self).io_fails()
                          && (old(self).limit() matches Some(l) ==> old(self).source().body_spec().len() <= l)),
            r is Ok ==> final(buf)@.len() - old(buf)@.len() == old(self).source().body_spec().len(),
    { unimplemented!() }
}
