// Environment of unit `load_ta` (C38, Verus part): opaque types and ASSUMED contracts.

#[verifier::external_body] pub struct Https { _opaque: () }
#[verifier::external_body] pub struct PathBuf { _opaque: () }
#[verifier::external_body] pub struct HttpClient { _opaque: () }
#[verifier::external_body] pub struct ReqwestError { _opaque: () }
#[verifier::external_body] pub struct IoError { _opaque: () }
#[verifier::external_body] pub struct Repository { _opaque: () }
#[verifier::external_body] pub struct ReadRepository { _opaque: () }
#[verifier::external_body] pub struct RrdpRepositoryMetrics { _opaque: () }
#[derive(Clone, Copy)]
#[verifier::external_body] pub struct FallbackTime { _opaque: () }
#[verifier::external_body] #[verifier::reject_recursive_types(T)] pub struct RwLock<T> { _t: T }
#[verifier::external_body] #[verifier::reject_recursive_types(T)] pub struct Mutex<T> { _t: T }
#[verifier::external_body] #[verifier::reject_recursive_types(R)] pub struct LoadResult<R = Arc<ReadRepository>> { _r: R }

// bytes::Bytes: an immutable byte string.
#[verifier::external_body] pub struct Bytes { _opaque: () }
impl Bytes {
    pub uninterp spec fn content(&self) -> Seq<u8>;
}
impl From<Vec<u8>> for Bytes {
    #[verifier::external_body]
    fn from(v: Vec<u8>) -> (r: Bytes) ensures r.content() == v@ { unimplemented!() }
}
impl vstd::std_specs::convert::FromSpecImpl<Vec<u8>> for Bytes {
    open spec fn obeys_from_spec() -> bool { false }
    open spec fn from_spec(v: Vec<u8>) -> Bytes { arbitrary() }
}

// The HTTP exchange for a URI in this run: a ghost function of (client, uri).
pub uninterp spec fn http_outcome(http: &HttpClient, uri: &Https) -> Result<HttpResponse, ReqwestError>;

#[verifier::external_body] pub struct HttpResponse { _opaque: () }
impl HttpResponse {
    // value of the Content-Length header, if any
    pub uninterp spec fn content_length_spec(&self) -> Option<u64>;
    // the complete response body as the server would deliver it
    pub uninterp spec fn body_spec(&self) -> Seq<u8>;
    #[verifier::external_body]
    pub fn content_length(&self) -> (r: Option<u64>) ensures r == self.content_length_spec() { unimplemented!() }
}
impl HttpClient {
    #[verifier::external_body]
    pub fn response(&self, uri: &Https) -> (r: Result<HttpResponse, ReqwestError>)
        ensures r == http_outcome(self, uri),
    { unimplemented!() }
}

// collector::rrdp::http::LimitedDataRead over an HTTP response.
// ASSUMED here, PROVED per read() call by Kani on the real code (see paper_steps):
// with a limit of `max` bytes read_to_end appends at most `max` bytes; it returns Ok exactly
// when the source ends without an I/O error within the limit, and then appended the whole body.
#[verifier::external_body] #[verifier::reject_recursive_types(R)] pub struct LimitedDataRead<'a, R> { _p: &'a (), _r: R }
impl<'a> LimitedDataRead<'a, HttpResponse> {
    pub uninterp spec fn source(&self) -> HttpResponse;
    pub uninterp spec fn limit(&self) -> Option<u64>;
    // whether the transport fails before the end of the body (unknown to the program)
    pub uninterp spec fn io_fails(&self) -> bool;
    #[verifier::external_body]
    pub fn new<U>(reader: HttpResponse, uri: &'a U, max_size: Option<u64>) -> (r: Self)
        ensures r.source() == reader, r.limit() == max_size,
    { unimplemented!() }
    #[verifier::external_body]
    pub fn read_to_end(&mut self, buf: &mut Vec<u8>) -> (r: Result<usize, IoError>)
        ensures
            final(self).source() == old(self).source(),
            // only appends, and only a prefix of the body
            final(buf)@.len() >= old(buf)@.len(),
            forall|i: int| 0 <= i < old(buf)@.len() ==> final(buf)@[i] == old(buf)@[i],
            forall|i: int| old(buf)@.len() <= i < final(buf)@.len() ==>
                final(buf)@[i] == old(self).source().body_spec()[i - old(buf)@.len()],
            final(buf)@.len() - old(buf)@.len() <= old(self).source().body_spec().len(),
            // never more than the limit
            old(self).limit() matches Some(l) ==> final(buf)@.len() - old(buf)@.len() <= l,
            // Ok <=> complete body within the limit and no transport failure
            r is Ok <==> (!old(self).io_fails()
                          && (old(self).limit() matches Some(l) ==> old(self).source().body_spec().len() <= l)),
            r is Ok ==> final(buf)@.len() - old(buf)@.len() == old(self).source().body_spec().len(),
    { unimplemented!() }
}

// ---- further API of the environment types used in collector/rrdp/base.rs (declared so that a
// change of load_ta to one of them is verified rather than rejected)
#[derive(Clone, Copy)]
pub struct StatusCode(pub u16);
impl StatusCode {
    pub const OK: StatusCode = StatusCode(200);
    #[verifier::external_body] pub fn is_success(&self) -> (r: bool) ensures r == (200 <= self.0 < 300) { unimplemented!() }
}
impl HttpResponse {
    pub uninterp spec fn status_spec(&self) -> StatusCode;
    #[verifier::external_body] pub fn status(&self) -> (r: StatusCode) ensures r == self.status_spec() { unimplemented!() }
    #[verifier::external_body] pub fn etag(&self) -> Option<Bytes> { unimplemented!() }
}
impl Bytes {
    #[verifier::external_body] pub fn len(&self) -> (r: usize) ensures r == self.content().len() { unimplemented!() }
    #[verifier::external_body] pub fn is_empty(&self) -> (r: bool) ensures r == (self.content().len() == 0) { unimplemented!() }
    #[verifier::external_body] pub fn copy_from_slice(data: &[u8]) -> (r: Bytes) ensures r.content() == data@ { unimplemented!() }
}
#[verifier::external_body] pub struct LimitedDataReadError { _opaque: () }
impl<'a> LimitedDataRead<'a, HttpResponse> {
    // read_to_end into a fresh vector; an error (size refusal or transport) yields Err
    #[verifier::external_body]
    pub fn read_all(self) -> (r: Result<Vec<u8>, LimitedDataReadError>)
        ensures
            r is Ok <==> (!self.io_fails() && (self.limit() matches Some(l) ==> self.source().body_spec().len() <= l)),
            r matches Ok(v) ==> v@ == self.source().body_spec(),
    { unimplemented!() }
}

// ---- std functions without a vstd specification (ASSUMED; their std definitions). Declared so
// that a change of the code to one of these combinators is verified instead of rejected.
pub assume_specification<T: Ord + core::marker::Destruct> [std::cmp::max] (a: T, b: T) -> (r: T)
    ensures <T as vstd::std_specs::cmp::OrdSpec>::obeys_cmp_spec() ==> r == (if vstd::std_specs::cmp::OrdSpec::cmp_spec(&a, &b) == std::cmp::Ordering::Greater { a } else { b });
pub assume_specification<T: Ord + core::marker::Destruct> [std::cmp::min] (a: T, b: T) -> (r: T)
    ensures <T as vstd::std_specs::cmp::OrdSpec>::obeys_cmp_spec() ==> r == (if vstd::std_specs::cmp::OrdSpec::cmp_spec(&a, &b) == std::cmp::Ordering::Greater { b } else { a });
pub assume_specification<T> [bool::then_some] (b: bool, t: T) -> (r: Option<T>)
    ensures r == (if b { Some(t) } else { None::<T> });
pub assume_specification<T, U> [Option::<T>::and] (a: Option<T>, b: Option<U>) -> (r: Option<U>)
    ensures r == (if a is Some { b } else { None::<U> });
pub assume_specification<T> [Option::<T>::or] (a: Option<T>, b: Option<T>) -> (r: Option<T>)
    ensures r == (if a is Some { a } else { b });
pub assume_specification<T> [Option::<T>::xor] (a: Option<T>, b: Option<T>) -> (r: Option<T>)
    ensures r == (if a is Some && b is None { a } else if a is None && b is Some { b } else { None::<T> });
pub assume_specification<T, U> [Option::<T>::zip] (a: Option<T>, b: Option<U>) -> (r: Option<(T, U)>)
    ensures r == (if a is Some && b is Some { Some((a->Some_0, b->Some_0)) } else { None::<(T, U)> });
pub assume_specification<T> [Option::<T>::replace] (a: &mut Option<T>, v: T) -> (r: Option<T>)
    ensures r == *old(a), *final(a) == Some(v);
pub assume_specification<T, F: FnOnce(T) -> bool> [Option::<T>::is_some_and] (a: Option<T>, f: F) -> (r: bool)
    requires a is Some ==> f.requires((a->Some_0,)),
    ensures a is None ==> !r, a is Some ==> f.ensures((a->Some_0,), r);
pub assume_specification<T, U, F: FnOnce(T) -> U> [Option::<T>::map_or] (a: Option<T>, default: U, f: F) -> (r: U)
    requires a is Some ==> f.requires((a->Some_0,)),
    ensures a is None ==> r == default, a is Some ==> f.ensures((a->Some_0,), r);
pub assume_specification<T, P: FnOnce(&T) -> bool> [Option::<T>::filter] (a: Option<T>, p: P) -> (r: Option<T>)
    requires a is Some ==> p.requires((&a->Some_0,)),
    ensures a is None ==> r is None, r is Some ==> r == a,
            a is Some ==> (p.ensures((&a->Some_0,), true) ==> r == a) && (p.ensures((&a->Some_0,), false) ==> r is None),
        // the predicate returned SOME boolean for the element, and the result follows it
        a is Some ==> exists|__b: bool| p.ensures((&a->Some_0,), __b) && r == (if __b { a } else { None::<T> });
pub assume_specification<T, E, U, F: FnOnce(T) -> Result<U, E>> [Result::<T, E>::and_then] (a: Result<T, E>, f: F) -> (r: Result<U, E>)
    requires a is Ok ==> f.requires((a->Ok_0,)),
    ensures a is Err ==> r == Err::<U, E>(a->Err_0), a is Ok ==> f.ensures((a->Ok_0,), r);
pub assume_specification<T, E, U> [Result::<T, E>::and] (a: Result<T, E>, b: Result<U, E>) -> (r: Result<U, E>)
    ensures r == (if a is Ok { b } else { Err::<U, E>(a->Err_0) });
pub assume_specification<T, E, F> [Result::<T, E>::or] (a: Result<T, E>, b: Result<T, F>) -> (r: Result<T, F>)
    ensures r == (if a is Ok { Ok::<T, F>(a->Ok_0) } else { b });
pub assume_specification<T, E, F: FnOnce(T) -> bool> [Result::<T, E>::is_ok_and] (a: Result<T, E>, f: F) -> (r: bool)
    requires a is Ok ==> f.requires((a->Ok_0,)),
    ensures a is Err ==> !r, a is Ok ==> f.ensures((a->Ok_0,), r);
pub assume_specification<T, E> [Result::<T, E>::unwrap_or] (a: Result<T, E>, default: T) -> (r: T)
    ensures r == (if a is Ok { a->Ok_0 } else { default });
pub assume_specification<T, E, F: FnOnce(E) -> T> [Result::<T, E>::unwrap_or_else] (a: Result<T, E>, f: F) -> (r: T)
    requires a is Err ==> f.requires((a->Err_0,)),
    ensures a is Ok ==> r == a->Ok_0, a is Err ==> f.ensures((a->Err_0,), r);
