//@ fn Collector::config
//@ spec
    ensures res == &self.config,
//@ fn Run::load_ta
//@ spec
    ensures
        // no response, no trust anchor
        outcome(self, uri) is Err ==> res is None,
        // C38: with the limit disabled a trust anchor certificate of any size is accepted
        (outcome(self, uri) is Ok && limit(self) is None) ==> res is Some,
        // C38: with limit L an announced size above L is refused ...
        (outcome(self, uri) is Ok && limit(self) is Some && announced_above(outcome(self, uri)->Ok_0, limit(self)->Some_0))
            ==> res is None,
        // C38: ... an announced size up to L (or none) is not refused up front ...
        (outcome(self, uri) is Ok && limit(self) is Some && !announced_above(outcome(self, uri)->Ok_0, limit(self)->Some_0))
            ==> res is Some,
        // C38: ... and never more than L bytes are taken from the stream
        (limit(self) is Some && res is Some) ==> res->Some_0.content().len() <= limit(self)->Some_0,
        // what is returned is a prefix of the body
        (res is Some && outcome(self, uri) is Ok) ==> is_prefix(res->Some_0.content(), outcome(self, uri)->Ok_0.body_spec()),
        // C38: a body of up to L bytes (any size when disabled) that arrives without a transport error is returned whole
        (res is Some && outcome(self, uri) is Ok
            && res->Some_0.content().len() < outcome(self, uri)->Ok_0.body_spec().len()) ==>
                (limit(self) is Some && outcome(self, uri)->Ok_0.body_spec().len() > limit(self)->Some_0)
                || transport_failed(outcome(self, uri)->Ok_0, limit(self)),
//@ global
spec fn outcome(run: &Run, uri: &Https) -> Result<HttpResponse, ReqwestError> {
    http_outcome(&run.collector.http, uri)
}
// the configured object size limit (None = disabled)
spec fn limit(run: &Run) -> Option<u64> { run.collector.config.max_object_size }

spec fn announced_above(resp: HttpResponse, l: u64) -> bool {
    resp.content_length_spec() is Some && resp.content_length_spec()->Some_0 > l
}
spec fn is_prefix(a: Seq<u8>, b: Seq<u8>) -> bool {
    a.len() <= b.len() && forall|i: int| 0 <= i < a.len() ==> a[i] == b[i]
}
spec fn transport_failed(resp: HttpResponse, max: Option<u64>) -> bool {
    exists|r: LimitedDataRead<'static, HttpResponse>| r.source() == resp && r.limit() == max && #[trigger] r.io_fails()
}
