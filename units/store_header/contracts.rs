//@ fn UpdateStatus::write
//@ spec
    requires
        // C23: every prefix of the encoding, appended to what is there, is an acceptable crash state
        forall|n: int| 0 <= n <= enc_ustatus(self).len() ==>
            old(writer).state_ok(old(writer).written() + #[trigger] enc_ustatus(self).subrange(0, n)),
    ensures
        appended(old(writer).written(), final(writer).written(), enc_ustatus(self), res is Ok),
        res is Err ==> io_failure(),
        forall|b: Seq<u8>| final(writer).state_ok(b) == old(writer).state_ok(b),
//@ entry
    proof { lemma_ustatus_write(writer.written(), self); }
//@ fn UpdateStatus::read
//@ spec
    ensures
        res matches Ok(s) ==> old(reader).remaining() == enc_ustatus(s) + final(reader).remaining(),
        res matches Err(e) ==> (e.is_fatal_spec() ==> io_failure()),
        res matches Err(e) ==> (!e.is_fatal_spec() ==>
            !exists|s: UpdateStatus, rest: Seq<u8>| old(reader).remaining() == #[trigger] (enc_ustatus(s) + rest)),
//@ entry
    proof { axiom_primitives(); lemma_u8_delimiting(); lemma_ustatus_split(); }
//@ fn StoredPointHeader::write
//@ spec
    requires
        // C23: every prefix of the header, appended to what is there, is an acceptable crash state
        forall|n: int| 0 <= n <= enc_header(*self).len() ==>
            old(writer).state_ok(old(writer).written() + #[trigger] enc_header(*self).subrange(0, n)),
    ensures
        appended(old(writer).written(), final(writer).written(), enc_header(*self), res is Ok),
        res is Err ==> io_failure(),
//@ entry
    proof { lemma_header_write(writer.written(), *self); }
//@ fn StoredPointHeader::read
//@ spec
    ensures
        res matches Ok(h) ==> old(reader).remaining() == enc_header(h) + final(reader).remaining(),
        res matches Err(e) ==> (e.is_fatal_spec() ==> io_failure()),
        // a non-fatal error (EOF, bad format) means no complete header is there
        res matches Err(e) ==> (!e.is_fatal_spec() ==>
            !exists|h: StoredPointHeader, rest: Seq<u8>| old(reader).remaining() == #[trigger] (enc_header(h) + rest)),
//@ entry
    proof { axiom_primitives(); lemma_u8_delimiting(); lemma_header_split(); }
//@ fn StoredPointHeader::new
//@ spec
    ensures res.manifest_uri == manifest_uri, res.rpki_notify == rpki_notify, res.update_status is LastAttempt,
//@ global
// ---- the format, field by field ------------------------------------------------------------
spec fn enc_ustatus(s: UpdateStatus) -> Seq<u8> {
    match s {
        UpdateStatus::Success(t) => 0u8.enc() + t.enc(),
        UpdateStatus::LastAttempt(t) => 1u8.enc() + t.enc(),
    }
}
spec fn enc_header(h: StoredPointHeader) -> Seq<u8> {
    2u8.enc() + h.manifest_uri.enc() + h.rpki_notify.enc() + enc_ustatus(h.update_status)
}

proof fn lemma_u8_delimiting()
    ensures self_delimiting::<u8>(), injective::<u8>(),
        forall|a: u8, x: Seq<u8>, b: u8, y: Seq<u8>| #[trigger] (a.enc() + x) == #[trigger] (b.enc() + y) ==> a == b,
{
    assert forall|a: u8, b: u8| #[trigger] a.enc() == #[trigger] b.enc() implies a == b by {
        assert(a.enc()[0] == a); assert(b.enc()[0] == b);
    }
    assert forall|a: u8, x: Seq<u8>, b: u8, y: Seq<u8>| #[trigger] (a.enc() + x) == #[trigger] (b.enc() + y)
        implies a == b && a.enc() == b.enc() && x == y by {
        assert((a.enc() + x)[0] == a);
        assert((b.enc() + y)[0] == b);
        assert((a.enc() + x).skip(1) =~= x);
        assert((b.enc() + y).skip(1) =~= y);
    }
}

// ---- C23 (proved here, assumed in unit store_crash): headers are self-delimiting and not empty ----
// Two headers with the same bytes agree on everything but the sub-second part of the time.
spec fn same_stored_header(a: StoredPointHeader, b: StoredPointHeader) -> bool {
    &&& enc_header(a) == enc_header(b)
    &&& a.manifest_uri == b.manifest_uri
    &&& a.rpki_notify == b.rpki_notify
    &&& (a.update_status is Success <==> b.update_status is Success)
}
proof fn lemma_header_codec()
    ensures
        forall|a: StoredPointHeader, x: Seq<u8>, b: StoredPointHeader, y: Seq<u8>|
            #[trigger] (enc_header(a) + x) == #[trigger] (enc_header(b) + y) ==> same_stored_header(a, b) && x == y,
        forall|h: StoredPointHeader| (#[trigger] enc_header(h)).len() > 0,
{
    axiom_primitives(); lemma_u8_delimiting(); lemma_header_split(); lemma_ustatus_split();
    assert forall|a: StoredPointHeader, x: Seq<u8>, b: StoredPointHeader, y: Seq<u8>|
            #[trigger] (enc_header(a) + x) == #[trigger] (enc_header(b) + y) implies same_stored_header(a, b) && x == y by {
        let ra = a.manifest_uri.enc() + (a.rpki_notify.enc() + (enc_ustatus(a.update_status) + x));
        let rb = b.manifest_uri.enc() + (b.rpki_notify.enc() + (enc_ustatus(b.update_status) + y));
        assert(enc_header(a) + x == 2u8.enc() + ra);
        assert(enc_header(b) + y == 2u8.enc() + rb);
        assert(ra == rb);
        assert(a.manifest_uri.enc() == b.manifest_uri.enc());
        assert(a.manifest_uri == b.manifest_uri);
        assert(a.rpki_notify.enc() + (enc_ustatus(a.update_status) + x) == b.rpki_notify.enc() + (enc_ustatus(b.update_status) + y));
        assert(a.rpki_notify.enc() == b.rpki_notify.enc());
        assert(a.rpki_notify == b.rpki_notify);
        assert(enc_ustatus(a.update_status) + x == enc_ustatus(b.update_status) + y);
        lemma_ustatus_delimiting(a.update_status, x, b.update_status, y);
    }
}
proof fn lemma_ustatus_delimiting(a: UpdateStatus, x: Seq<u8>, b: UpdateStatus, y: Seq<u8>)
    requires enc_ustatus(a) + x == enc_ustatus(b) + y,
    ensures enc_ustatus(a) == enc_ustatus(b) && (a is Success <==> b is Success) && x == y,
{
    axiom_primitives(); lemma_u8_delimiting(); lemma_ustatus_split();
    let (ta, ga) = match a { UpdateStatus::Success(t) => (t, 0u8), UpdateStatus::LastAttempt(t) => (t, 1u8) };
    let (tb, gb) = match b { UpdateStatus::Success(t) => (t, 0u8), UpdateStatus::LastAttempt(t) => (t, 1u8) };
    assert(enc_ustatus(a) + x == ga.enc() + (ta.enc() + x));
    assert(enc_ustatus(b) + y == gb.enc() + (tb.enc() + y));
    assert(ga == gb && ta.enc() + x == tb.enc() + y);
    assert(ta.enc() == tb.enc() && x == y);
    assert(enc_ustatus(a) == ga.enc() + ta.enc());
    assert(enc_ustatus(b) == gb.enc() + tb.enc());
}

// Splitting an encoding followed by anything into its first field and the rest.
proof fn lemma_ustatus_split()
    ensures
        forall|s: UpdateStatus, rest: Seq<u8>| #[trigger] (enc_ustatus(s) + rest) == (match s {
            UpdateStatus::Success(t) => 0u8.enc() + (t.enc() + rest),
            UpdateStatus::LastAttempt(t) => 1u8.enc() + (t.enc() + rest),
        }),
{
    assert forall|s: UpdateStatus, rest: Seq<u8>| #[trigger] (enc_ustatus(s) + rest) == (match s {
            UpdateStatus::Success(t) => 0u8.enc() + (t.enc() + rest),
            UpdateStatus::LastAttempt(t) => 1u8.enc() + (t.enc() + rest),
        }) by {
        match s {
            UpdateStatus::Success(t) => { assert(enc_ustatus(s) + rest =~= 0u8.enc() + (t.enc() + rest)); }
            UpdateStatus::LastAttempt(t) => { assert(enc_ustatus(s) + rest =~= 1u8.enc() + (t.enc() + rest)); }
        }
    }
}
proof fn lemma_header_split()
    ensures
        forall|h: StoredPointHeader, rest: Seq<u8>| #[trigger] (enc_header(h) + rest) ==
            2u8.enc() + (h.manifest_uri.enc() + (h.rpki_notify.enc() + (enc_ustatus(h.update_status) + rest))),
        forall|h: StoredPointHeader| (#[trigger] enc_header(h)).len() > 0,
{
    assert forall|h: StoredPointHeader, rest: Seq<u8>| #[trigger] (enc_header(h) + rest) ==
            2u8.enc() + (h.manifest_uri.enc() + (h.rpki_notify.enc() + (enc_ustatus(h.update_status) + rest))) by {
        assert(enc_header(h) + rest =~=
            2u8.enc() + (h.manifest_uri.enc() + (h.rpki_notify.enc() + (enc_ustatus(h.update_status) + rest))));
    }
}

// The prefixes written by the individual steps are prefixes of the whole encoding.
spec fn ustatus_write_facts(w: Seq<u8>, e: Seq<u8>, g: u8, t: Time) -> bool {
    &&& forall|n: int| 0 <= n <= g.enc().len() ==> w + #[trigger] g.enc().subrange(0, n) == w + e.subrange(0, n)
    &&& forall|n: int| 0 <= n <= t.enc().len() ==> (w + g.enc()) + #[trigger] t.enc().subrange(0, n) == w + e.subrange(0, 1 + n)
    &&& (w + g.enc()) + t.enc() == w + e
    &&& e.len() == 1 + t.enc().len()
}
proof fn lemma_ustatus_write(w: Seq<u8>, s: UpdateStatus)
    ensures
        s matches UpdateStatus::Success(t) ==> ustatus_write_facts(w, enc_ustatus(s), 0u8, t),
        s matches UpdateStatus::LastAttempt(t) ==> ustatus_write_facts(w, enc_ustatus(s), 1u8, t),
{
    let e = enc_ustatus(s);
    match s {
        UpdateStatus::Success(t) => { lemma_ustatus_write_aux(w, e, 0u8, t); }
        UpdateStatus::LastAttempt(t) => { lemma_ustatus_write_aux(w, e, 1u8, t); }
    }
}
proof fn lemma_ustatus_write_aux(w: Seq<u8>, e: Seq<u8>, g: u8, t: Time)
    requires e == g.enc() + t.enc(),
    ensures ustatus_write_facts(w, e, g, t),
{
    assert forall|n: int| 0 <= n <= g.enc().len() implies w + #[trigger] g.enc().subrange(0, n) == w + e.subrange(0, n) by {
        assert(g.enc().subrange(0, n) =~= e.subrange(0, n));
    }
    assert forall|n: int| 0 <= n <= t.enc().len() implies (w + g.enc()) + #[trigger] t.enc().subrange(0, n) == w + e.subrange(0, 1 + n) by {
        assert((w + g.enc()) + t.enc().subrange(0, n) =~= w + e.subrange(0, 1 + n));
    }
    assert((w + g.enc()) + t.enc() =~= w + e);
}
proof fn lemma_header_write(w: Seq<u8>, h: StoredPointHeader)
    ensures
        ({
            let d1 = 2u8.enc(); let d2 = h.manifest_uri.enc(); let d3 = h.rpki_notify.enc();
            let d4 = enc_ustatus(h.update_status); let e = enc_header(h);
            &&& forall|n: int| 0 <= n <= d1.len() ==> w + #[trigger] d1.subrange(0, n) == w + e.subrange(0, n)
            &&& forall|n: int| 0 <= n <= d2.len() ==> (w + d1) + #[trigger] d2.subrange(0, n) == w + e.subrange(0, d1.len() + n)
            &&& forall|n: int| 0 <= n <= d3.len() ==>
                    ((w + d1) + d2) + #[trigger] d3.subrange(0, n) == w + e.subrange(0, d1.len() + d2.len() + n)
            &&& forall|n: int| 0 <= n <= d4.len() ==>
                    (((w + d1) + d2) + d3) + #[trigger] d4.subrange(0, n) == w + e.subrange(0, d1.len() + d2.len() + d3.len() + n)
            &&& (((w + d1) + d2) + d3) + d4 == w + e
            &&& e.len() == d1.len() + d2.len() + d3.len() + d4.len()
        }),
{
    let d1 = 2u8.enc(); let d2 = h.manifest_uri.enc(); let d3 = h.rpki_notify.enc();
    let d4 = enc_ustatus(h.update_status); let e = enc_header(h);
    assert forall|n: int| 0 <= n <= d1.len() implies w + #[trigger] d1.subrange(0, n) == w + e.subrange(0, n) by {
        assert(d1.subrange(0, n) =~= e.subrange(0, n));
    }
    assert forall|n: int| 0 <= n <= d2.len() implies (w + d1) + #[trigger] d2.subrange(0, n) == w + e.subrange(0, d1.len() + n) by {
        assert((w + d1) + d2.subrange(0, n) =~= w + e.subrange(0, d1.len() + n));
    }
    assert forall|n: int| 0 <= n <= d3.len() implies
            ((w + d1) + d2) + #[trigger] d3.subrange(0, n) == w + e.subrange(0, d1.len() + d2.len() + n) by {
        assert(((w + d1) + d2) + d3.subrange(0, n) =~= w + e.subrange(0, d1.len() + d2.len() + n));
    }
    assert forall|n: int| 0 <= n <= d4.len() implies
            (((w + d1) + d2) + d3) + #[trigger] d4.subrange(0, n) == w + e.subrange(0, d1.len() + d2.len() + d3.len() + n) by {
        assert((((w + d1) + d2) + d3) + d4.subrange(0, n) =~= w + e.subrange(0, d1.len() + d2.len() + d3.len() + n));
    }
    assert((((w + d1) + d2) + d3) + d4 =~= w + e);
}
