// Environment of unit `store_header` (C23, header codec). Everything here is ASSUMED.

// A genuine I/O failure (EIO, ENOSPC, permissions, ...) happened; unrelated to crashes.
pub uninterp spec fn io_failure() -> bool;

#[verifier::external_body] #[derive(Clone, Copy)] pub struct Time { _opaque: () }
#[verifier::external_body] pub struct UriRsync { _opaque: () }
#[verifier::external_body] pub struct UriHttps { _opaque: () }
#[verifier::external_body] pub struct IoError { _opaque: () }

// utils::binio::ParseError
#[verifier::external_body] pub struct ParseError { _opaque: () }
impl ParseError {
    pub uninterp spec fn is_fatal_spec(&self) -> bool;
    // bad formatting: never fatal
    #[verifier::external_body]
    pub fn format<T>(err: T) -> (r: ParseError) ensures !r.is_fatal_spec() { unimplemented!() }
    #[verifier::external_body]
    pub fn is_fatal(&self) -> (r: bool) ensures r == self.is_fatal_spec() { unimplemented!() }
    // an unexpected EOF is never fatal
    #[verifier::external_body]
    pub fn is_eof(&self) -> (r: bool) ensures r ==> !self.is_fatal_spec() { unimplemented!() }
}
impl Time {
    #[verifier::external_body]
    pub fn now() -> (r: Time) { unimplemented!() }
    #[verifier::external_body]
    pub fn timestamp(&self) -> (r: i64) { unimplemented!() }
}
impl Clone for UriRsync {
    #[verifier::external_body]
    fn clone(&self) -> (r: Self) ensures r == *self { unimplemented!() }
}
impl Clone for UriHttps {
    #[verifier::external_body]
    fn clone(&self) -> (r: Self) ensures r == *self { unimplemented!() }
}
#[verifier::external_body] pub struct FmtOpaque { _opaque: () }
#[verifier::external_body]
pub fn fmt_opaque() -> (r: FmtOpaque) { unimplemented!() }

// ---- byte encodings of the primitives (utils::binio) -------------------------------
pub trait Encodable { spec fn enc(&self) -> Seq<u8>; }
impl Encodable for u8 { open spec fn enc(&self) -> Seq<u8> { seq![*self] } }
pub uninterp spec fn enc_time(t: Time) -> Seq<u8>;
impl Encodable for Time { open spec fn enc(&self) -> Seq<u8> { enc_time(*self) } }
pub uninterp spec fn enc_uri_rsync(u: UriRsync) -> Seq<u8>;
impl Encodable for UriRsync { open spec fn enc(&self) -> Seq<u8> { enc_uri_rsync(*self) } }
pub uninterp spec fn enc_opt_uri_https(u: Option<UriHttps>) -> Seq<u8>;
impl Encodable for Option<UriHttps> { open spec fn enc(&self) -> Seq<u8> { enc_opt_uri_https(*self) } }
pub uninterp spec fn enc_u32(v: u32) -> Seq<u8>;
impl Encodable for u32 { open spec fn enc(&self) -> Seq<u8> { enc_u32(*self) } }
pub uninterp spec fn enc_u64(v: u64) -> Seq<u8>;
impl Encodable for u64 { open spec fn enc(&self) -> Seq<u8> { enc_u64(*self) } }
pub uninterp spec fn enc_i64(v: i64) -> Seq<u8>;
impl Encodable for i64 { open spec fn enc(&self) -> Seq<u8> { enc_i64(*self) } }
pub uninterp spec fn enc_opt_time(v: Option<Time>) -> Seq<u8>;
impl Encodable for Option<Time> { open spec fn enc(&self) -> Seq<u8> { enc_opt_time(*self) } }
// Each primitive encoding is self-delimiting (fixed length or length-prefixed): where one
// encoding ends is determined by the bytes.
pub open spec fn self_delimiting<T: Encodable>() -> bool {
    forall|a: T, x: Seq<u8>, b: T, y: Seq<u8>| #[trigger] (a.enc() + x) == #[trigger] (b.enc() + y) ==> a.enc() == b.enc() && x == y
}
// ... and, except for times, determines the value. (Time/Option<Time> are NOT injective: Time has
// sub-second precision, the encoding keeps whole seconds only.)
pub open spec fn injective<T: Encodable>() -> bool {
    forall|a: T, b: T| #[trigger] a.enc() == #[trigger] b.enc() ==> a == b
}
#[verifier::external_body]
pub proof fn axiom_primitives()
    ensures self_delimiting::<Time>(), self_delimiting::<UriRsync>(), self_delimiting::<Option<UriHttps>>(),
            self_delimiting::<u32>(), self_delimiting::<u64>(), self_delimiting::<i64>(), self_delimiting::<Option<Time>>(),
            injective::<UriRsync>(), injective::<Option<UriHttps>>(), injective::<u32>(), injective::<u64>(), injective::<i64>(),
{ unimplemented!() }

// ---- readers and writers; crash steps ------------------------------------------------
pub trait IoRead { spec fn remaining(&self) -> Seq<u8>; }
pub trait IoWrite: Sized {
    spec fn written(&self) -> Seq<u8>;
    // C23: `bytes` is a state the underlying file may be left in by a crash
    spec fn state_ok(&self, bytes: Seq<u8>) -> bool;
    // std::io::Write::write_all: ONE CRASH STEP
    fn write_all(&mut self, buf: &[u8]) -> (r: Result<(), IoError>)
        requires forall|n: int| 0 <= n <= buf@.len() ==> old(self).state_ok(old(self).written() + #[trigger] buf@.subrange(0, n)),
        ensures appended(old(self).written(), final(self).written(), buf@, r is Ok),
                r is Err ==> io_failure(),
                forall|b: Seq<u8>| final(self).state_ok(b) == old(self).state_ok(b);
    fn flush(&mut self) -> (r: Result<(), IoError>)
        ensures final(self).written() == old(self).written(),
                forall|b: Seq<u8>| final(self).state_ok(b) == old(self).state_ok(b);
}
pub open spec fn appended(old_w: Seq<u8>, new_w: Seq<u8>, data: Seq<u8>, ok: bool) -> bool {
    if ok { new_w == old_w + data }
    else { exists|n: int| 0 <= n <= data.len() && new_w == old_w + #[trigger] data.subrange(0, n) }
}
// Compose::compose = one write_all: ONE CRASH STEP (old bytes plus any prefix of the data).
pub trait Compose<W: IoWrite>: Encodable {
    fn compose(&self, target: &mut W) -> (r: Result<(), IoError>)
        requires
            forall|n: int| 0 <= n <= self.enc().len() ==>
                old(target).state_ok(old(target).written() + #[trigger] self.enc().subrange(0, n)),
        ensures
            appended(old(target).written(), final(target).written(), self.enc(), r is Ok),
            r is Err ==> io_failure(),
            forall|b: Seq<u8>| final(target).state_ok(b) == old(target).state_ok(b);
}
impl<W: IoWrite> Compose<W> for u8 {
    #[verifier::external_body]
    fn compose(&self, target: &mut W) -> (r: Result<(), IoError>) { unimplemented!() }
}
impl<W: IoWrite> Compose<W> for Time {
    #[verifier::external_body]
    fn compose(&self, target: &mut W) -> (r: Result<(), IoError>) { unimplemented!() }
}
impl<W: IoWrite> Compose<W> for UriRsync {
    #[verifier::external_body]
    fn compose(&self, target: &mut W) -> (r: Result<(), IoError>) { unimplemented!() }
}
impl<W: IoWrite> Compose<W> for Option<UriHttps> {
    #[verifier::external_body]
    fn compose(&self, target: &mut W) -> (r: Result<(), IoError>) { unimplemented!() }
}
impl<W: IoWrite> Compose<W> for u32 {
    #[verifier::external_body]
    fn compose(&self, target: &mut W) -> (r: Result<(), IoError>) { unimplemented!() }
}
impl<W: IoWrite> Compose<W> for u64 {
    #[verifier::external_body]
    fn compose(&self, target: &mut W) -> (r: Result<(), IoError>) { unimplemented!() }
}
impl<W: IoWrite> Compose<W> for i64 {
    #[verifier::external_body]
    fn compose(&self, target: &mut W) -> (r: Result<(), IoError>) { unimplemented!() }
}
impl<W: IoWrite> Compose<W> for Option<Time> {
    #[verifier::external_body]
    fn compose(&self, target: &mut W) -> (r: Result<(), IoError>) { unimplemented!() }
}
// Parse::parse: consumes exactly one encoding; an error is fatal only on a genuine I/O
// failure (unexpected EOF and bad formatting are not fatal); a complete encoding is accepted.
pub trait Parse<R: IoRead>: Sized + Encodable {
    fn parse(source: &mut R) -> (r: Result<Self, ParseError>)
        ensures
            r matches Ok(v) ==> old(source).remaining() == v.enc() + final(source).remaining(),
            r matches Err(e) ==> (e.is_fatal_spec() ==> io_failure()),
            r matches Err(e) ==> (!e.is_fatal_spec() ==>
                !exists|v: Self, rest: Seq<u8>| old(source).remaining() == #[trigger] (v.enc() + rest));
}
impl<R: IoRead> Parse<R> for u8 {
    #[verifier::external_body]
    fn parse(source: &mut R) -> (r: Result<u8, ParseError>) { unimplemented!() }
}
impl<R: IoRead> Parse<R> for Time {
    #[verifier::external_body]
    fn parse(source: &mut R) -> (r: Result<Time, ParseError>) { unimplemented!() }
}
impl<R: IoRead> Parse<R> for UriRsync {
    #[verifier::external_body]
    fn parse(source: &mut R) -> (r: Result<UriRsync, ParseError>) { unimplemented!() }
}
impl<R: IoRead> Parse<R> for Option<UriHttps> {
    #[verifier::external_body]
    fn parse(source: &mut R) -> (r: Result<Option<UriHttps>, ParseError>) { unimplemented!() }
}
impl<R: IoRead> Parse<R> for u32 {
    #[verifier::external_body]
    fn parse(source: &mut R) -> (r: Result<u32, ParseError>) { unimplemented!() }
}
impl<R: IoRead> Parse<R> for u64 {
    #[verifier::external_body]
    fn parse(source: &mut R) -> (r: Result<u64, ParseError>) { unimplemented!() }
}
impl<R: IoRead> Parse<R> for i64 {
    #[verifier::external_body]
    fn parse(source: &mut R) -> (r: Result<i64, ParseError>) { unimplemented!() }
}
impl<R: IoRead> Parse<R> for Option<Time> {
    #[verifier::external_body]
    fn parse(source: &mut R) -> (r: Result<Option<Time>, ParseError>) { unimplemented!() }
}
// ---- std functions without a vstd specification (ASSUMED: their std definitions).
// Declared so that a refactoring that starts using one of them is verified, not rejected.
pub assume_specification<T: Ord + core::marker::Destruct> [std::cmp::min] (a: T, b: T) -> (r: T)
    ensures <T as vstd::std_specs::cmp::OrdSpec>::obeys_cmp_spec() ==> r == (if vstd::std_specs::cmp::OrdSpec::cmp_spec(&b, &a) == std::cmp::Ordering::Less { b } else { a }),
;
pub assume_specification<T: Ord + core::marker::Destruct> [std::cmp::max] (a: T, b: T) -> (r: T)
    ensures <T as vstd::std_specs::cmp::OrdSpec>::obeys_cmp_spec() ==> r == (if vstd::std_specs::cmp::OrdSpec::cmp_spec(&b, &a) == std::cmp::Ordering::Less { a } else { b }),
;
pub assume_specification [std::cmp::Ordering::is_lt] (o: std::cmp::Ordering) -> (r: bool)
    ensures r == (o == std::cmp::Ordering::Less);
pub assume_specification [std::cmp::Ordering::is_gt] (o: std::cmp::Ordering) -> (r: bool)
    ensures r == (o == std::cmp::Ordering::Greater);
pub assume_specification [std::cmp::Ordering::is_le] (o: std::cmp::Ordering) -> (r: bool)
    ensures r == (o != std::cmp::Ordering::Greater);
pub assume_specification [std::cmp::Ordering::is_ge] (o: std::cmp::Ordering) -> (r: bool)
    ensures r == (o != std::cmp::Ordering::Less);
pub assume_specification<T: core::marker::Destruct> [bool::then_some] (b: bool, t: T) -> (r: Option<T>)
    ensures r == (if b { Some(t) } else { None::<T> });
pub assume_specification<T: core::marker::Destruct> [std::option::Option::<T>::xor] (a: Option<T>, b: Option<T>) -> (r: Option<T>)
    ensures r == (match (a, b) { (Some(x), None) => Some(x), (None, Some(y)) => Some(y), _ => None::<T> });
pub assume_specification<'a, T: Copy> [std::option::Option::<&T>::copied] (o: Option<&'a T>) -> (r: Option<T>)
    ensures r == (match o { Some(x) => Some(*x), None => None::<T> });
pub assume_specification<T: core::marker::Destruct> [std::option::Option::<T>::or] (a: Option<T>, b: Option<T>) -> (r: Option<T>)
    ensures r == (if a is Some { a } else { b });
pub assume_specification<T: core::marker::Destruct, U: core::marker::Destruct> [std::option::Option::<T>::and] (a: Option<T>, b: Option<U>) -> (r: Option<U>)
    ensures r == (if a is Some { b } else { None::<U> });
pub assume_specification<T: core::marker::Destruct, U: core::marker::Destruct> [std::option::Option::<T>::zip] (a: Option<T>, b: Option<U>) -> (r: Option<(T, U)>)
    ensures r == (match (a, b) { (Some(x), Some(y)) => Some((x, y)), _ => None::<(T, U)> });
pub assume_specification<T, F: FnOnce(T) -> bool + core::marker::Destruct> [std::option::Option::<T>::is_some_and] (o: Option<T>, f: F) -> (r: bool)
    requires o matches Some(x) ==> f.requires((x,)),
    ensures match o { Some(x) => f.ensures((x,), r), None => !r };
pub assume_specification<T, F: FnOnce(T) -> bool + core::marker::Destruct> [std::option::Option::<T>::is_none_or] (o: Option<T>, f: F) -> (r: bool)
    requires o matches Some(x) ==> f.requires((x,)),
    ensures match o { Some(x) => f.ensures((x,), r), None => r };
pub assume_specification<T: core::marker::Destruct, P: FnOnce(&T) -> bool + core::marker::Destruct> [std::option::Option::<T>::filter] (o: Option<T>, p: P) -> (r: Option<T>)
    requires o matches Some(x) ==> p.requires((&x,)),
    ensures match o { Some(x) => (r == Some(x) && p.ensures((&x,), true)) || (r is None && p.ensures((&x,), false)), None => r is None },
        // the predicate returned SOME boolean for the element, and the result follows it
        o is Some ==> exists|__b: bool| p.ensures((&o->Some_0,), __b) && r == (if __b { o } else { None::<T> });
pub assume_specification<T: core::marker::Destruct, F: FnOnce() -> Option<T> + core::marker::Destruct> [std::option::Option::<T>::or_else] (o: Option<T>, f: F) -> (r: Option<T>)
    requires o is None ==> f.requires(()),
    ensures match o { Some(x) => r == o, None => f.ensures((), r) };
pub assume_specification<T, U: core::marker::Destruct, F: FnOnce(T) -> U + core::marker::Destruct> [std::option::Option::<T>::map_or] (o: Option<T>, d: U, f: F) -> (r: U)
    requires o matches Some(x) ==> f.requires((x,)),
    ensures match o { Some(x) => f.ensures((x,), r), None => r == d };
pub assume_specification<T, U, D: FnOnce() -> U + core::marker::Destruct, F: FnOnce(T) -> U + core::marker::Destruct> [std::option::Option::<T>::map_or_else] (o: Option<T>, d: D, f: F) -> (r: U)
    requires o matches Some(x) ==> f.requires((x,)), o is None ==> d.requires(()),
    ensures match o { Some(x) => f.ensures((x,), r), None => d.ensures((), r) };
pub assume_specification<T: core::marker::Destruct, E: core::marker::Destruct> [std::result::Result::<T, E>::unwrap_or] (x: Result<T, E>, d: T) -> (r: T)
    ensures r == (match x { Ok(v) => v, Err(_) => d });
pub assume_specification<T, E: core::marker::Destruct, F: core::marker::Destruct> [std::result::Result::<T, E>::or] (a: Result<T, E>, b: Result<T, F>) -> (r: Result<T, F>)
    ensures match a { Ok(v) => r == Ok::<T, F>(v), Err(_) => r == b };
pub assume_specification<T, E, U, F: FnOnce(T) -> Result<U, E> + core::marker::Destruct> [std::result::Result::<T, E>::and_then] (x: Result<T, E>, f: F) -> (r: Result<U, E>)
    requires x matches Ok(v) ==> f.requires((v,)),
    ensures match x { Ok(v) => f.ensures((v,), r), Err(e) => r == Err::<U, E>(e) };
pub assume_specification<T, E: core::marker::Destruct, F: FnOnce(T) -> bool + core::marker::Destruct> [std::result::Result::<T, E>::is_ok_and] (x: Result<T, E>, f: F) -> (r: bool)
    requires x matches Ok(v) ==> f.requires((v,)),
    ensures match x { Ok(v) => f.ensures((v,), r), Err(_) => !r };
pub assume_specification<T, E, F: FnOnce(E) -> T + core::marker::Destruct> [std::result::Result::<T, E>::unwrap_or_else] (x: Result<T, E>, f: F) -> (r: T)
    requires x matches Err(e) ==> f.requires((e,)),
    ensures match x { Ok(v) => r == v, Err(e) => f.ensures((e,), r) };
pub assume_specification<T> [std::mem::replace] (dest: &mut T, src: T) -> (r: T)
    ensures r == *old(dest), *final(dest) == src;
pub assume_specification<T: Default + core::marker::Destruct, E: core::marker::Destruct> [std::result::Result::<T, E>::unwrap_or_default] (x: Result<T, E>) -> (r: T)
    ensures x matches Ok(v) ==> r == v;
pub assume_specification<T, E, U: core::marker::Destruct, F: FnOnce(T) -> U + core::marker::Destruct> [std::result::Result::<T, E>::map_or] (x: Result<T, E>, d: U, f: F) -> (r: U)
    requires x matches Ok(v) ==> f.requires((v,)),
    ensures match x { Ok(v) => f.ensures((v,), r), Err(_) => r == d };
pub assume_specification [<std::cmp::Ordering as PartialEq>::eq] (a: &std::cmp::Ordering, b: &std::cmp::Ordering) -> (r: bool)
    ensures r == (*a == *b);
