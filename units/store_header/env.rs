// Environment of unit `store_header` (C23, header codec). Everything here is ASSUMED.

// A genuine I/O failure (EIO, ENOSPC, permissions, ...) happened; unrelated to crashes.
pub uninterp spec fn io_failure() -> bool;

#[verifier::external_body] #[derive(Clone, Copy)] pub struct Time { _opaque: () }
#[verifier::external_body] pub struct UriRsync { _opaque: () }
#[verifier::external_body] pub struct UriHttps { _opaque: () }
#[verifier::external_body] pub struct IoError { _opaque: () }

// utils::binio::ParseError
#[verifier::external_body] pub struct ParseError { _opaque: () }
impl ParseError {
    pub uninterp spec fn is_fatal_spec(&self) -> bool;
    // bad formatting: never fatal
    #[verifier::external_body]
    pub fn format<T>(err: T) -> (r: ParseError) ensures !r.is_fatal_spec() { unimplemented!() }
}
#[verifier::external_body] pub struct FmtOpaque { _opaque: () }
#[verifier::external_body]
pub fn fmt_opaque() -> (r: FmtOpaque) { unimplemented!() }

// ---- byte encodings of the primitives (utils::binio) -------------------------------
pub trait Encodable { spec fn enc(&self) -> Seq<u8>; }
impl Encodable for u8 { open spec fn enc(&self) -> Seq<u8> { seq![*self] } }
pub uninterp spec fn enc_time(t: Time) -> Seq<u8>;
impl Encodable for Time { open spec fn enc(&self) -> Seq<u8> { enc_time(*self) } }
pub uninterp spec fn enc_uri_rsync(u: UriRsync) -> Seq<u8>;
impl Encodable for UriRsync { open spec fn enc(&self) -> Seq<u8> { enc_uri_rsync(*self) } }
pub uninterp spec fn enc_opt_uri_https(u: Option<UriHttps>) -> Seq<u8>;
impl Encodable for Option<UriHttps> { open spec fn enc(&self) -> Seq<u8> { enc_opt_uri_https(*self) } }
// Each primitive encoding is self-delimiting (fixed length or length-prefixed).
pub open spec fn self_delimiting<T: Encodable>() -> bool {
    forall|a: T, x: Seq<u8>, b: T, y: Seq<u8>| #[trigger] (a.enc() + x) == #[trigger] (b.enc() + y) ==> a == b && x == y
}
#[verifier::external_body]
pub proof fn axiom_primitives()
    ensures self_delimiting::<Time>(), self_delimiting::<UriRsync>(), self_delimiting::<Option<UriHttps>>(),
{ unimplemented!() }

// ---- readers and writers; crash steps ------------------------------------------------
pub trait IoRead { spec fn remaining(&self) -> Seq<u8>; }
pub trait IoWrite {
    spec fn written(&self) -> Seq<u8>;
    // C23: `bytes` is a state the underlying file may be left in by a crash
    spec fn state_ok(&self, bytes: Seq<u8>) -> bool;
}
pub open spec fn appended(old_w: Seq<u8>, new_w: Seq<u8>, data: Seq<u8>, ok: bool) -> bool {
    if ok { new_w == old_w + data }
    else { exists|n: int| 0 <= n <= data.len() && new_w == old_w + #[trigger] data.subrange(0, n) }
}
// Compose::compose = one write_all: ONE CRASH STEP (old bytes plus any prefix of the data).
pub trait Compose<W: IoWrite>: Encodable {
    fn compose(&self, target: &mut W) -> (r: Result<(), IoError>)
        requires
            forall|n: int| 0 <= n <= self.enc().len() ==>
                old(target).state_ok(old(target).written() + #[trigger] self.enc().subrange(0, n)),
        ensures
            appended(old(target).written(), final(target).written(), self.enc(), r is Ok),
            r is Err ==> io_failure(),
            forall|b: Seq<u8>| final(target).state_ok(b) == old(target).state_ok(b);
}
impl<W: IoWrite> Compose<W> for u8 {
    #[verifier::external_body]
    fn compose(&self, target: &mut W) -> (r: Result<(), IoError>) { unimplemented!() }
}
impl<W: IoWrite> Compose<W> for Time {
    #[verifier::external_body]
    fn compose(&self, target: &mut W) -> (r: Result<(), IoError>) { unimplemented!() }
}
impl<W: IoWrite> Compose<W> for UriRsync {
    #[verifier::external_body]
    fn compose(&self, target: &mut W) -> (r: Result<(), IoError>) { unimplemented!() }
}
impl<W: IoWrite> Compose<W> for Option<UriHttps> {
    #[verifier::external_body]
    fn compose(&self, target: &mut W) -> (r: Result<(), IoError>) { unimplemented!() }
}
// Parse::parse: consumes exactly one encoding; an error is fatal only on a genuine I/O
// failure (unexpected EOF and bad formatting are not fatal); a complete encoding is accepted.
pub trait Parse<R: IoRead>: Sized + Encodable {
    fn parse(source: &mut R) -> (r: Result<Self, ParseError>)
        ensures
            r matches Ok(v) ==> old(source).remaining() == v.enc() + final(source).remaining(),
            r matches Err(e) ==> (e.is_fatal_spec() ==> io_failure()),
            r matches Err(e) ==> (!e.is_fatal_spec() ==>
                !exists|v: Self, rest: Seq<u8>| old(source).remaining() == #[trigger] (v.enc() + rest));
}
impl<R: IoRead> Parse<R> for u8 {
    #[verifier::external_body]
    fn parse(source: &mut R) -> (r: Result<u8, ParseError>) { unimplemented!() }
}
impl<R: IoRead> Parse<R> for Time {
    #[verifier::external_body]
    fn parse(source: &mut R) -> (r: Result<Time, ParseError>) { unimplemented!() }
}
impl<R: IoRead> Parse<R> for UriRsync {
    #[verifier::external_body]
    fn parse(source: &mut R) -> (r: Result<UriRsync, ParseError>) { unimplemented!() }
}
impl<R: IoRead> Parse<R> for Option<UriHttps> {
    #[verifier::external_body]
    fn parse(source: &mut R) -> (r: Result<Option<UriHttps>, ParseError>) { unimplemented!() }
}
