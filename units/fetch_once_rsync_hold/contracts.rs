//@ fn Run::load_module
//@ spec
    requires wf(self),
    ensures
        // C37: whoever asked for the module returns only after it was recorded as updated
        // (unless rsync is disabled altogether)
        self.collector.command is Some ==> in_updated(run_of(&self.updated), uri.module_spec()),
        final(clk).now >= old(clk).now,
//@ closure then 1 optional
|| -> (r: FmtArgs)
//@ exit
        // C37: the mutex taken from `running` is held until the function returns: `_lock` is the guard
        // of `mutex` and still a live binding of the outermost block after the last critical section
        proof { assert(_lock.mutex_spec() == &*mutex); }
//@ global
// The two locks belong to this run; the rsync command knows its collector's filter setting.
spec fn wf(run: &Run) -> bool {
    &&& run_of(&run.updated) == run_of(&run.running)
    &&& run.collector.command matches Some(c) ==>
            c.filter_spec() == run.collector.filter_dubious && c.run_spec() == run_of(&run.updated)
}
