//@ fn RtrPerAddrMetrics::get
//@ spec
    requires writer_mutex(&self.addrs) == &self.write,
    ensures true,
//@ entry
        broadcast use axiom_ip_key_injective;
        broadcast use axiom_pair_clone;
        broadcast use axiom_comparator_total;
//@ envcall into vec_into_arc new_addrs
//@ closure binary_search_by 1 optional
|x: &(IpAddr, Arc<RtrMetricsData>)| -> (r: Ordering) ensures r == ip_cmp(x.0, addr)
//@ closure binary_search_by 2 optional
|x: &(IpAddr, Arc<RtrMetricsData>)| -> (r: Ordering) ensures r == ip_cmp(x.0, addr)
//@ beforecall store 1
        // trigger term for the precondition of ArcSwap::store (see units/rtr_registry/contracts.rs)
        let ghost __inserted = new_addrs@[idx as int];
//@ exit
        // C36: the write mutex is held until after the store: `_write` is the guard of self.write and is
        // still a live binding of the outermost block here (a guard dropped earlier would not be nameable)
        proof { assert(_write.mutex_spec() == &self.write); }
