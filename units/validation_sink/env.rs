// Environment of unit `validation_sink`: the payload sinks of
// src/payload/validation.rs. Opaque rpki types with ASSUMED accessor
// contracts; nothing here says anything about validation.

#[verifier::external_body] pub struct RsyncUri { _opaque: () }
#[verifier::external_body] pub struct Cert { _opaque: () }
#[verifier::external_body] pub struct ResourceCert { _opaque: () }
#[verifier::external_body] pub struct CaCert { _opaque: () }
#[verifier::external_body] pub struct TalInfo { _opaque: () }
#[verifier::external_body] pub struct RouteOriginAttestation { _opaque: () }
#[verifier::external_body] pub struct AsProviderAttestation { _opaque: () }
#[verifier::external_body] pub struct ProviderAsSet { _opaque: () }
#[verifier::external_body] pub struct AsResources { _opaque: () }
#[verifier::external_body] pub struct AsBlocks { _opaque: () }
#[verifier::external_body] pub struct AsBlocksError { _opaque: () }
#[verifier::external_body] pub struct KeyIdentifier { _opaque: () }
#[verifier::external_body] pub struct PublicKey { _opaque: () }
#[verifier::external_body] pub struct KeyInfoBytes { _opaque: () }
#[verifier::external_body] pub struct RouterKeyInfo { _opaque: () }
#[verifier::external_body] pub struct KeyInfoError { _opaque: () }
#[verifier::external_body] pub struct SmallAsnSet { _opaque: () }
#[verifier::external_body] pub struct Asn { _opaque: () }
#[verifier::external_body] pub struct Prefix { _opaque: () }
#[verifier::external_body] pub struct MaxLenPrefix { _opaque: () }
#[verifier::external_body] pub struct PublishInfo { _opaque: () }
#[verifier::external_body] pub struct RejectedResourcesBuilder { _opaque: () }
#[verifier::external_body] #[verifier::reject_recursive_types(T)] pub struct SegQueue<T> { _t: T }

// rpki::rtr::payload::RouteOrigin: a transparent pair in rpki (pub fields).
pub struct RouteOrigin {
    pub prefix: MaxLenPrefix,
    pub asn: Asn,
}

// ---------------------------------------------------------------- time
// rpki::repository::x509::Time / Validity: opaque, Copy. Nothing about the
// refresh arithmetic is claimed here (C39 is the `refresh` unit).
#[verifier::external_body] pub struct Time { _opaque: () }
#[verifier::external_body] pub struct Validity { _opaque: () }
impl Clone for Time {
    #[verifier::external_body]
    fn clone(&self) -> (r: Time) ensures r == *self { unimplemented!() }
}
impl Copy for Time {}
impl Clone for Validity {
    #[verifier::external_body]
    fn clone(&self) -> (r: Validity) ensures r == *self { unimplemented!() }
}
impl Copy for Validity {}

impl Time {
    // position on the time line
    pub uninterp spec fn t(&self) -> int;
}
impl PartialEqSpecImpl for Time {
    open spec fn obeys_eq_spec() -> bool { true }
    open spec fn eq_spec(&self, other: &Time) -> bool { self.t() == other.t() }
}
impl PartialEq for Time {
    #[verifier::external_body]
    fn eq(&self, other: &Self) -> bool { unimplemented!() }
}
impl Eq for Time {}
impl PartialOrdSpecImpl for Time {
    open spec fn obeys_partial_cmp_spec() -> bool { true }
    open spec fn partial_cmp_spec(&self, other: &Time) -> Option<Ordering> {
        if self.t() < other.t() { Some(Ordering::Less) }
        else if self.t() == other.t() { Some(Ordering::Equal) }
        else { Some(Ordering::Greater) }
    }
}
impl PartialOrd for Time {
    #[verifier::external_body]
    fn partial_cmp(&self, other: &Time) -> Option<Ordering> { unimplemented!() }
}
impl OrdSpecImpl for Time {
    open spec fn obeys_cmp_spec() -> bool { true }
    open spec fn cmp_spec(&self, other: &Time) -> Ordering {
        if self.t() < other.t() { Ordering::Less }
        else if self.t() == other.t() { Ordering::Equal }
        else { Ordering::Greater }
    }
}
impl Ord for Time {
    #[verifier::external_body]
    fn cmp(&self, other: &Time) -> Ordering { unimplemented!() }
}
pub assume_specification<T: Ord + core::marker::Destruct> [std::cmp::min] (a: T, b: T) -> (r: T)
    ensures
        T::obeys_cmp_spec() ==> r == (if b.cmp_spec(&a) == Ordering::Less { b } else { a }),
;

impl Validity {
    #[verifier::external_body]
    pub fn not_after(self) -> (r: Time) { unimplemented!() }
    #[verifier::external_body]
    pub fn trim(self, other: Validity) -> (r: Validity) { unimplemented!() }
}

// ---------------------------------------------------------------- ROA content
impl Prefix {
    pub uninterp spec fn is_v4_spec(&self) -> bool;
    pub uninterp spec fn len_spec(&self) -> u8;
    #[verifier::external_body]
    pub fn is_v4(self) -> (r: bool) ensures r == self.is_v4_spec() { unimplemented!() }
    #[verifier::external_body]
    pub fn len(self) -> (r: u8) ensures r == self.len_spec() { unimplemented!() }
}
impl Clone for Prefix {
    #[verifier::external_body]
    fn clone(&self) -> (r: Prefix) ensures r == *self { unimplemented!() }
}
impl Copy for Prefix {}
impl MaxLenPrefix {
    pub uninterp spec fn prefix_spec(&self) -> Prefix;
    #[verifier::external_body]
    pub fn prefix(self) -> (r: Prefix) ensures r == self.prefix_spec() { unimplemented!() }
}
impl Clone for MaxLenPrefix {
    #[verifier::external_body]
    fn clone(&self) -> (r: MaxLenPrefix) ensures r == *self { unimplemented!() }
}
impl Copy for MaxLenPrefix {}

// The iterator returned by RouteOriginAttestation::iter_origins (an opaque
// `impl Iterator` in rpki): `rest()` are the origins still to come.
#[verifier::external_body] pub struct OriginIter<'a> { _p: &'a RouteOriginAttestation }
impl<'a> OriginIter<'a> {
    pub uninterp spec fn rest(&self) -> Seq<RouteOrigin>;
    #[verifier::external_body]
    pub fn next(&mut self) -> (r: Option<RouteOrigin>)
        ensures
            old(self).rest().len() == 0 ==> r is None && final(self).rest() == old(self).rest(),
            old(self).rest().len() > 0 ==> r == Some(old(self).rest()[0])
                && final(self).rest() == old(self).rest().skip(1),
    { unimplemented!() }
}
impl RouteOriginAttestation {
    // the route origins the ROA carries, in the order iter_origins yields them
    pub uninterp spec fn origins_spec(&self) -> Seq<RouteOrigin>;
    #[verifier::external_body]
    pub fn iter_origins(&self) -> (r: OriginIter<'_>)
        ensures r.rest() == self.origins_spec(),
    { unimplemented!() }
}

// ---------------------------------------------------------------- ASPA content
impl AsProviderAttestation {
    pub uninterp spec fn customer_spec(&self) -> Asn;
    pub uninterp spec fn providers_spec(&self) -> SmallAsnSet;
    #[verifier::external_body]
    pub fn customer_as(&self) -> (r: Asn) ensures r == self.customer_spec() { unimplemented!() }
    #[verifier::external_body]
    pub fn provider_as_set(&self) -> (r: &ProviderAsSet) ensures r.set_spec() == self.providers_spec() { unimplemented!() }
}
impl ProviderAsSet {
    pub uninterp spec fn set_spec(&self) -> SmallAsnSet;
    #[verifier::external_body]
    pub fn to_set(&self) -> (r: SmallAsnSet) ensures r == self.set_spec() { unimplemented!() }
}

// ---------------------------------------------------------------- certificates
impl Cert {
    pub uninterp spec fn as_resources_spec(&self) -> AsResources;
    pub uninterp spec fn ski_spec(&self) -> KeyIdentifier;
    pub uninterp spec fn spki_spec(&self) -> PublicKey;
    #[verifier::external_body]
    pub fn as_resources(&self) -> (r: &AsResources) ensures *r == self.as_resources_spec() { unimplemented!() }
    #[verifier::external_body]
    pub fn subject_key_identifier(&self) -> (r: KeyIdentifier) ensures r == self.ski_spec() { unimplemented!() }
    #[verifier::external_body]
    pub fn subject_public_key_info(&self) -> (r: &PublicKey) ensures *r == self.spki_spec() { unimplemented!() }
    #[verifier::external_body]
    pub fn validity(&self) -> (r: Validity) { unimplemented!() }
}
impl ResourceCert {
    #[verifier::external_body]
    pub fn validity(&self) -> (r: Validity) { unimplemented!() }
    pub uninterp spec fn tal_spec(&self) -> Arc<TalInfo>;
    #[verifier::external_body]
    pub fn tal(&self) -> (r: &Arc<TalInfo>) ensures *r == self.tal_spec() { unimplemented!() }
}
impl CaCert {
    pub uninterp spec fn cert_spec(&self) -> ResourceCert;
    #[verifier::external_body]
    pub fn cert(&self) -> (r: &ResourceCert) ensures *r == self.cert_spec() { unimplemented!() }
}
impl AsResources {
    pub uninterp spec fn is_inherited_spec(&self) -> bool;
    pub uninterp spec fn is_present_spec(&self) -> bool;
    pub uninterp spec fn to_blocks_spec(&self) -> Option<AsBlocks>;
    #[verifier::external_body]
    pub fn is_inherited(&self) -> (r: bool) ensures r == self.is_inherited_spec() { unimplemented!() }
    #[verifier::external_body]
    pub fn is_present(&self) -> (r: bool) ensures r == self.is_present_spec() { unimplemented!() }
    #[verifier::external_body]
    pub fn to_blocks(&self) -> (r: Result<AsBlocks, AsBlocksError>) ensures r.ok() == self.to_blocks_spec() { unimplemented!() }
}
impl PublicKey {
    pub uninterp spec fn allow_router_cert_spec(&self) -> bool;
    pub uninterp spec fn info_bytes_spec(&self) -> KeyInfoBytes;
    #[verifier::external_body]
    pub fn allow_router_cert(&self) -> (r: bool) ensures r == self.allow_router_cert_spec() { unimplemented!() }
    #[verifier::external_body]
    pub fn to_info_bytes(&self) -> (r: KeyInfoBytes) ensures r == self.info_bytes_spec() { unimplemented!() }
}
impl RouterKeyInfo {
    pub uninterp spec fn new_spec(b: KeyInfoBytes) -> Option<RouterKeyInfo>;
    #[verifier::external_body]
    pub fn new(b: KeyInfoBytes) -> (r: Result<RouterKeyInfo, KeyInfoError>) ensures r.ok() == Self::new_spec(b) { unimplemented!() }
}

// ---------------------------------------------------------------- provenance info
impl PublishInfo {
    pub uninterp spec fn signed_object_spec(cert: &ResourceCert, v: Validity, stale: Time) -> PublishInfo;
    pub uninterp spec fn router_cert_spec(cert: &Cert, uri: &RsyncUri, tal: Arc<TalInfo>, v: Validity, stale: Time) -> PublishInfo;
    #[verifier::external_body]
    pub fn signed_object(cert: &ResourceCert, v: Validity, stale: Time) -> (r: PublishInfo)
        ensures r == Self::signed_object_spec(cert, v, stale)
    { unimplemented!() }
    #[verifier::external_body]
    pub fn router_cert(cert: &Cert, uri: &RsyncUri, tal: Arc<TalInfo>, v: Validity, stale: Time) -> (r: PublishInfo)
        ensures r == Self::router_cert_spec(cert, uri, tal, v, stale)
    { unimplemented!() }
}

// ---------------------------------------------------------------- report queue
// crossbeam SegQueue::push(&self, ..): interior mutability, modelled as a
// monotone ghost fact "this value was pushed onto this queue".
pub uninterp spec fn queued<T>(q: &SegQueue<T>, v: T) -> bool;
impl<T> SegQueue<T> {
    #[verifier::external_body]
    pub fn push(&self, value: T)
        ensures queued(self, value),
    { unimplemented!() }
}

// ---------------------------------------------------------------- std functions without a vstd specification (assumed: their std definitions)
pub assume_specification<T: core::marker::Destruct> [Option::<T>::or] (a: Option<T>, b: Option<T>) -> (r: Option<T>)
    ensures r == (if a is Some { a } else { b });
pub assume_specification<T: core::marker::Destruct, U: core::marker::Destruct> [Option::<T>::and] (a: Option<T>, b: Option<U>) -> (r: Option<U>)
    ensures r == (if a is Some { b } else { None::<U> });
pub assume_specification<T: core::marker::Destruct> [Option::<T>::xor] (a: Option<T>, b: Option<T>) -> (r: Option<T>)
    ensures r == (if a is Some && b is None { a } else if a is None && b is Some { b } else { None::<T> });
pub assume_specification<T: core::marker::Destruct, P: FnOnce(&T) -> bool + core::marker::Destruct> [Option::<T>::filter] (a: Option<T>, p: P) -> (r: Option<T>)
    requires a matches Some(v) ==> p.requires((&v,)),
    ensures
        a is None ==> r is None,
        a matches Some(v) ==> (p.ensures((&v,), true) ==> r == a) && (p.ensures((&v,), false) ==> r is None) && (r is None || r == a);
pub assume_specification<T, U: core::marker::Destruct, F: FnOnce(T) -> U + core::marker::Destruct> [Option::<T>::map_or] (a: Option<T>, d: U, f: F) -> (r: U)
    requires a matches Some(v) ==> f.requires((v,)),
    ensures a is None ==> r == d, a matches Some(v) ==> f.ensures((v,), r);
pub assume_specification<T, E, U, F: FnOnce(T) -> Result<U, E> + core::marker::Destruct> [Result::<T, E>::and_then] (a: Result<T, E>, f: F) -> (r: Result<U, E>)
    requires a matches Ok(v) ==> f.requires((v,)),
    ensures a matches Err(e) ==> r == Err::<U, E>(e), a matches Ok(v) ==> f.ensures((v,), r);
pub assume_specification<T: core::marker::Destruct, E: core::marker::Destruct> [Result::<T, E>::unwrap_or] (a: Result<T, E>, d: T) -> (r: T)
    ensures r == (match a { Ok(v) => v, Err(_) => d });
pub assume_specification<T, E, F: FnOnce(E) -> T + core::marker::Destruct> [Result::<T, E>::unwrap_or_else] (a: Result<T, E>, f: F) -> (r: T)
    requires a matches Err(e) ==> f.requires((e,)),
    ensures a matches Ok(v) ==> r == v, a matches Err(e) ==> f.ensures((e,), r);
pub assume_specification<T: core::marker::Destruct, E: core::marker::Destruct, F: FnOnce(T) -> bool + core::marker::Destruct> [Result::<T, E>::is_ok_and] (a: Result<T, E>, f: F) -> (r: bool)
    requires a matches Ok(v) ==> f.requires((v,)),
    ensures a is Err ==> !r, a matches Ok(v) ==> f.ensures((v,), r);
pub assume_specification<T: Ord + core::marker::Destruct> [std::cmp::max] (a: T, b: T) -> (r: T)
    ensures T::obeys_cmp_spec() ==> r == (if a.cmp_spec(&b) == Ordering::Greater { a } else { b });

// ---------------------------------------------------------------- further accessors used in validation.rs
impl Validity {
    #[verifier::external_body]
    pub fn not_before(self) -> (r: Time) { unimplemented!() }
}
impl Cert {
    #[verifier::external_body]
    pub fn tal(&self) -> (r: &Arc<TalInfo>) { unimplemented!() }
}
impl ResourceCert {
    #[verifier::external_body]
    pub fn as_resources(&self) -> (r: &AsResources) { unimplemented!() }
    #[verifier::external_body]
    pub fn subject_key_identifier(&self) -> (r: KeyIdentifier) { unimplemented!() }
}
impl Prefix {
    #[verifier::external_body]
    pub fn is_v6(self) -> (r: bool) ensures r == !self.is_v4_spec() { unimplemented!() }
}
impl MaxLenPrefix {
    #[verifier::external_body]
    pub fn is_v4(self) -> (r: bool) ensures r == self.prefix_spec().is_v4_spec() { unimplemented!() }
    #[verifier::external_body]
    pub fn prefix_len(self) -> (r: u8) ensures r == self.prefix_spec().len_spec() { unimplemented!() }
    #[verifier::external_body]
    pub fn max_len(self) -> (r: Option<u8>) { unimplemented!() }
    #[verifier::external_body]
    pub fn resolved_max_len(self) -> (r: u8) { unimplemented!() }
}
impl<T> SegQueue<T> {
    #[verifier::external_body]
    pub fn pop(&self) -> (r: Option<T>) { unimplemented!() }
    #[verifier::external_body]
    pub fn is_empty(&self) -> (r: bool) { unimplemented!() }
}
impl Clone for Asn {
    #[verifier::external_body]
    fn clone(&self) -> (r: Asn) ensures r == *self { unimplemented!() }
}
impl Copy for Asn {}
