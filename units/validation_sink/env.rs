// Environment of unit `validation_sink`: the payload sinks of
// src/payload/validation.rs. Opaque rpki types with ASSUMED accessor
// contracts; nothing here says anything about validation.

#[verifier::external_body] pub struct RsyncUri { _opaque: () }
#[verifier::external_body] pub struct Cert { _opaque: () }
#[verifier::external_body] pub struct ResourceCert { _opaque: () }
#[verifier::external_body] pub struct CaCert { _opaque: () }
#[verifier::external_body] pub struct TalInfo { _opaque: () }
#[verifier::external_body] pub struct RouteOriginAttestation { _opaque: () }
#[verifier::external_body] pub struct AsProviderAttestation { _opaque: () }
#[verifier::external_body] pub struct ProviderAsSet { _opaque: () }
#[verifier::external_body] pub struct AsResources { _opaque: () }
#[verifier::external_body] pub struct AsBlocks { _opaque: () }
#[verifier::external_body] pub struct AsBlocksError { _opaque: () }
#[verifier::external_body] pub struct KeyIdentifier { _opaque: () }
#[verifier::external_body] pub struct PublicKey { _opaque: () }
#[verifier::external_body] pub struct KeyInfoBytes { _opaque: () }
#[verifier::external_body] pub struct RouterKeyInfo { _opaque: () }
#[verifier::external_body] pub struct KeyInfoError { _opaque: () }
#[verifier::external_body] pub struct SmallAsnSet { _opaque: () }
#[verifier::external_body] pub struct Asn { _opaque: () }
#[verifier::external_body] pub struct Prefix { _opaque: () }
#[verifier::external_body] pub struct MaxLenPrefix { _opaque: () }
#[verifier::external_body] pub struct PublishInfo { _opaque: () }
#[verifier::external_body] pub struct RejectedResourcesBuilder { _opaque: () }
#[verifier::external_body] #[verifier::reject_recursive_types(T)] pub struct SegQueue<T> { _t: T }

// rpki::rtr::payload::RouteOrigin: a transparent pair in rpki (pub fields).
pub struct RouteOrigin {
    pub prefix: MaxLenPrefix,
    pub asn: Asn,
}

// ---------------------------------------------------------------- time
// rpki::repository::x509::Time / Validity: opaque, Copy. Nothing about the
// refresh arithmetic is claimed here (C39 is the `refresh` unit).
#[verifier::external_body] pub struct Time { _opaque: () }
#[verifier::external_body] pub struct Validity { _opaque: () }
impl Clone for Time {
    #[verifier::external_body]
    fn clone(&self) -> (r: Time) ensures r == *self { unimplemented!() }
}
impl Copy for Time {}
impl Clone for Validity {
    #[verifier::external_body]
    fn clone(&self) -> (r: Validity) ensures r == *self { unimplemented!() }
}
impl Copy for Validity {}

impl Time {
    // position on the time line
    pub uninterp spec fn t(&self) -> int;
}
impl PartialEqSpecImpl for Time {
    open spec fn obeys_eq_spec() -> bool { true }
    open spec fn eq_spec(&self, other: &Time) -> bool { self.t() == other.t() }
}
impl PartialEq for Time {
    #[verifier::external_body]
    fn eq(&self, other: &Self) -> bool { unimplemented!() }
}
impl Eq for Time {}
impl PartialOrdSpecImpl for Time {
    open spec fn obeys_partial_cmp_spec() -> bool { true }
    open spec fn partial_cmp_spec(&self, other: &Time) -> Option<Ordering> {
        if self.t() < other.t() { Some(Ordering::Less) }
        else if self.t() == other.t() { Some(Ordering::Equal) }
        else { Some(Ordering::Greater) }
    }
}
impl PartialOrd for Time {
    #[verifier::external_body]
    fn partial_cmp(&self, other: &Time) -> Option<Ordering> { unimplemented!() }
}
impl OrdSpecImpl for Time {
    open spec fn obeys_cmp_spec() -> bool { true }
    open spec fn cmp_spec(&self, other: &Time) -> Ordering {
        if self.t() < other.t() { Ordering::Less }
        else if self.t() == other.t() { Ordering::Equal }
        else { Ordering::Greater }
    }
}
impl Ord for Time {
    #[verifier::external_body]
    fn cmp(&self, other: &Time) -> Ordering { unimplemented!() }
}
pub assume_specification<T: Ord + core::marker::Destruct> [std::cmp::min] (a: T, b: T) -> (r: T)
    ensures
        T::obeys_cmp_spec() ==> r == (if b.cmp_spec(&a) == Ordering::Less { b } else { a }),
;

impl Validity {
    #[verifier::external_body]
    pub fn not_after(self) -> (r: Time) { unimplemented!() }
    #[verifier::external_body]
    pub fn trim(self, other: Validity) -> (r: Validity) { unimplemented!() }
}

// ---------------------------------------------------------------- ROA content
impl Prefix {
    pub uninterp spec fn is_v4_spec(&self) -> bool;
    pub uninterp spec fn len_spec(&self) -> u8;
    #[verifier::external_body]
    pub fn is_v4(self) -> (r: bool) ensures r == self.is_v4_spec() { unimplemented!() }
    #[verifier::external_body]
    pub fn len(self) -> (r: u8) ensures r == self.len_spec() { unimplemented!() }
}
impl Clone for Prefix {
    #[verifier::external_body]
    fn clone(&self) -> (r: Prefix) ensures r == *self { unimplemented!() }
}
impl Copy for Prefix {}
impl MaxLenPrefix {
    pub uninterp spec fn prefix_spec(&self) -> Prefix;
    #[verifier::external_body]
    pub fn prefix(self) -> (r: Prefix) ensures r == self.prefix_spec() { unimplemented!() }
}
impl Clone for MaxLenPrefix {
    #[verifier::external_body]
    fn clone(&self) -> (r: MaxLenPrefix) ensures r == *self { unimplemented!() }
}
impl Copy for MaxLenPrefix {}

// The iterator returned by RouteOriginAttestation::iter_origins (an opaque
// `impl Iterator` in rpki): `rest()` are the origins still to come.
#[verifier::external_body] pub struct OriginIter<'a> { _p: &'a RouteOriginAttestation }
impl<'a> OriginIter<'a> {
    pub uninterp spec fn rest(&self) -> Seq<RouteOrigin>;
    #[verifier::external_body]
    pub fn next(&mut self) -> (r: Option<RouteOrigin>)
        ensures
            old(self).rest().len() == 0 ==> r is None && final(self).rest() == old(self).rest(),
            old(self).rest().len() > 0 ==> r == Some(old(self).rest()[0])
                && final(self).rest() == old(self).rest().skip(1),
    { unimplemented!() }
}
impl RouteOriginAttestation {
    // the route origins the ROA carries, in the order iter_origins yields them
    pub uninterp spec fn origins_spec(&self) -> Seq<RouteOrigin>;
    #[verifier::external_body]
    pub fn iter_origins(&self) -> (r: OriginIter<'_>)
        ensures r.rest() == self.origins_spec(),
    { unimplemented!() }
}

// ---------------------------------------------------------------- ASPA content
impl AsProviderAttestation {
    pub uninterp spec fn customer_spec(&self) -> Asn;
    pub uninterp spec fn providers_spec(&self) -> SmallAsnSet;
    #[verifier::external_body]
    pub fn customer_as(&self) -> (r: Asn) ensures r == self.customer_spec() { unimplemented!() }
    #[verifier::external_body]
    pub fn provider_as_set(&self) -> (r: &ProviderAsSet) ensures r.set_spec() == self.providers_spec() { unimplemented!() }
}
impl ProviderAsSet {
    pub uninterp spec fn set_spec(&self) -> SmallAsnSet;
    #[verifier::external_body]
    pub fn to_set(&self) -> (r: SmallAsnSet) ensures r == self.set_spec() { unimplemented!() }
}

// ---------------------------------------------------------------- certificates
impl Cert {
    pub uninterp spec fn as_resources_spec(&self) -> AsResources;
    pub uninterp spec fn ski_spec(&self) -> KeyIdentifier;
    pub uninterp spec fn spki_spec(&self) -> PublicKey;
    #[verifier::external_body]
    pub fn as_resources(&self) -> (r: &AsResources) ensures *r == self.as_resources_spec() { unimplemented!() }
    #[verifier::external_body]
    pub fn subject_key_identifier(&self) -> (r: KeyIdentifier) ensures r == self.ski_spec() { unimplemented!() }
    #[verifier::external_body]
    pub fn subject_public_key_info(&self) -> (r: &PublicKey) ensures *r == self.spki_spec() { unimplemented!() }
    #[verifier::external_body]
    pub fn validity(&self) -> (r: Validity) { unimplemented!() }
}
impl ResourceCert {
    #[verifier::external_body]
    pub fn validity(&self) -> (r: Validity) { unimplemented!() }
    pub uninterp spec fn tal_spec(&self) -> Arc<TalInfo>;
    #[verifier::external_body]
    pub fn tal(&self) -> (r: &Arc<TalInfo>) ensures *r == self.tal_spec() { unimplemented!() }
}
impl CaCert {
    pub uninterp spec fn cert_spec(&self) -> ResourceCert;
    #[verifier::external_body]
    pub fn cert(&self) -> (r: &ResourceCert) ensures *r == self.cert_spec() { unimplemented!() }
}
impl AsResources {
    pub uninterp spec fn is_inherited_spec(&self) -> bool;
    pub uninterp spec fn is_present_spec(&self) -> bool;
    pub uninterp spec fn to_blocks_spec(&self) -> Option<AsBlocks>;
    #[verifier::external_body]
    pub fn is_inherited(&self) -> (r: bool) ensures r == self.is_inherited_spec() { unimplemented!() }
    #[verifier::external_body]
    pub fn is_present(&self) -> (r: bool) ensures r == self.is_present_spec() { unimplemented!() }
    #[verifier::external_body]
    pub fn to_blocks(&self) -> (r: Result<AsBlocks, AsBlocksError>) ensures r.ok() == self.to_blocks_spec() { unimplemented!() }
}
impl PublicKey {
    pub uninterp spec fn allow_router_cert_spec(&self) -> bool;
    pub uninterp spec fn info_bytes_spec(&self) -> KeyInfoBytes;
    #[verifier::external_body]
    pub fn allow_router_cert(&self) -> (r: bool) ensures r == self.allow_router_cert_spec() { unimplemented!() }
    #[verifier::external_body]
    pub fn to_info_bytes(&self) -> (r: KeyInfoBytes) ensures r == self.info_bytes_spec() { unimplemented!() }
}
impl RouterKeyInfo {
    pub uninterp spec fn new_spec(b: KeyInfoBytes) -> Option<RouterKeyInfo>;
    #[verifier::external_body]
    pub fn new(b: KeyInfoBytes) -> (r: Result<RouterKeyInfo, KeyInfoError>) ensures r.ok() == Self::new_spec(b) { unimplemented!() }
}

// ---------------------------------------------------------------- provenance info
impl PublishInfo {
    pub uninterp spec fn signed_object_spec(cert: &ResourceCert, v: Validity, stale: Time) -> PublishInfo;
    pub uninterp spec fn router_cert_spec(cert: &Cert, uri: &RsyncUri, tal: Arc<TalInfo>, v: Validity, stale: Time) -> PublishInfo;
    #[verifier::external_body]
    pub fn signed_object(cert: &ResourceCert, v: Validity, stale: Time) -> (r: PublishInfo)
        ensures r == Self::signed_object_spec(cert, v, stale)
    { unimplemented!() }
    #[verifier::external_body]
    pub fn router_cert(cert: &Cert, uri: &RsyncUri, tal: Arc<TalInfo>, v: Validity, stale: Time) -> (r: PublishInfo)
        ensures r == Self::router_cert_spec(cert, uri, tal, v, stale)
    { unimplemented!() }
}

// ---------------------------------------------------------------- report queue
// crossbeam SegQueue::push(&self, ..): interior mutability, modelled as a
// monotone ghost fact "this value was pushed onto this queue".
pub uninterp spec fn queued<T>(q: &SegQueue<T>, v: T) -> bool;
impl<T> SegQueue<T> {
    #[verifier::external_body]
    pub fn push(&self, value: T)
        ensures queued(self, value),
    { unimplemented!() }
}

// ---------------------------------------------------------------- std functions without a vstd specification (assumed: their std definitions)
pub assume_specification<T: core::marker::Destruct> [Option::<T>::or] (a: Option<T>, b: Option<T>) -> (r: Option<T>)
    ensures r == (if a is Some { a } else { b });
pub assume_specification<T: core::marker::Destruct, U: core::marker::Destruct> [Option::<T>::and] (a: Option<T>, b: Option<U>) -> (r: Option<U>)
    ensures r == (if a is Some { b } else { None::<U> });
pub assume_specification<T: core::marker::Destruct> [Option::<T>::xor] (a: Option<T>, b: Option<T>) -> (r: Option<T>)
    ensures r == (if a is Some && b is None { a } else if a is None && b is Some { b } else { None::<T> });
pub assume_specification<T: core::marker::Destruct, P: FnOnce(&T) -> bool + core::marker::Destruct> [Option::<T>::filter] (a: Option<T>, p: P) -> (r: Option<T>)
    requires a matches Some(v) ==> p.requires((&v,)),
    ensures
        a is None ==> r is None,
        a matches Some(v) ==> (p.ensures((&v,), true) ==> r == a) && (p.ensures((&v,), false) ==> r is None) && (r is None || r == a),
        // the predicate returned SOME boolean for the element, and the result follows it
        a is Some ==> exists|__b: bool| p.ensures((&a->Some_0,), __b) && r == (if __b { a } else { None::<T> });
pub assume_specification<T, U: core::marker::Destruct, F: FnOnce(T) -> U + core::marker::Destruct> [Option::<T>::map_or] (a: Option<T>, d: U, f: F) -> (r: U)
    requires a matches Some(v) ==> f.requires((v,)),
    ensures a is None ==> r == d, a matches Some(v) ==> f.ensures((v,), r);
pub assume_specification<T, E, U, F: FnOnce(T) -> Result<U, E> + core::marker::Destruct> [Result::<T, E>::and_then] (a: Result<T, E>, f: F) -> (r: Result<U, E>)
    requires a matches Ok(v) ==> f.requires((v,)),
    ensures a matches Err(e) ==> r == Err::<U, E>(e), a matches Ok(v) ==> f.ensures((v,), r);
pub assume_specification<T: core::marker::Destruct, E: core::marker::Destruct> [Result::<T, E>::unwrap_or] (a: Result<T, E>, d: T) -> (r: T)
    ensures r == (match a { Ok(v) => v, Err(_) => d });
pub assume_specification<T, E, F: FnOnce(E) -> T + core::marker::Destruct> [Result::<T, E>::unwrap_or_else] (a: Result<T, E>, f: F) -> (r: T)
    requires a matches Err(e) ==> f.requires((e,)),
    ensures a matches Ok(v) ==> r == v, a matches Err(e) ==> f.ensures((e,), r);
pub assume_specification<T: core::marker::Destruct, E: core::marker::Destruct, F: FnOnce(T) -> bool + core::marker::Destruct> [Result::<T, E>::is_ok_and] (a: Result<T, E>, f: F) -> (r: bool)
    requires a matches Ok(v) ==> f.requires((v,)),
    ensures a is Err ==> !r, a matches Ok(v) ==> f.ensures((v,), r);
pub assume_specification<T: Ord + core::marker::Destruct> [std::cmp::max] (a: T, b: T) -> (r: T)
    ensures T::obeys_cmp_spec() ==> r == (if a.cmp_spec(&b) == Ordering::Greater { a } else { b });

// ---------------------------------------------------------------- further accessors used in validation.rs
impl Validity {
    #[verifier::external_body]
    pub fn not_before(self) -> (r: Time) { unimplemented!() }
}
impl Cert {
    #[verifier::external_body]
    pub fn tal(&self) -> (r: &Arc<TalInfo>) { unimplemented!() }
}
impl ResourceCert {
    #[verifier::external_body]
    pub fn as_resources(&self) -> (r: &AsResources) { unimplemented!() }
    #[verifier::external_body]
    pub fn subject_key_identifier(&self) -> (r: KeyIdentifier) { unimplemented!() }
}
impl Prefix {
    #[verifier::external_body]
    pub fn is_v6(self) -> (r: bool) ensures r == !self.is_v4_spec() { unimplemented!() }
}
impl MaxLenPrefix {
    #[verifier::external_body]
    pub fn is_v4(self) -> (r: bool) ensures r == self.prefix_spec().is_v4_spec() { unimplemented!() }
    #[verifier::external_body]
    pub fn prefix_len(self) -> (r: u8) ensures r == self.prefix_spec().len_spec() { unimplemented!() }
    #[verifier::external_body]
    pub fn max_len(self) -> (r: Option<u8>) { unimplemented!() }
    #[verifier::external_body]
    pub fn resolved_max_len(self) -> (r: u8) { unimplemented!() }
}
impl<T> SegQueue<T> {
    #[verifier::external_body]
    pub fn pop(&self) -> (r: Option<T>) { unimplemented!() }
    #[verifier::external_body]
    pub fn is_empty(&self) -> (r: bool) { unimplemented!() }
}
impl Clone for Asn {
    #[verifier::external_body]
    fn clone(&self) -> (r: Asn) ensures r == *self { unimplemented!() }
}
impl Copy for Asn {}

// ================================================================ rest of the public API of the env types
// (declared so that a refactoring that reaches for a sibling accessor still type-checks and is
// verified; unless a contract is given nothing is known about the result)
#[verifier::external_body] pub struct HttpsUri { _opaque: () }
#[verifier::external_body] pub struct Bytes { _opaque: () }
#[verifier::external_body] pub struct Serial { _opaque: () }
#[verifier::external_body] pub struct IpResources { _opaque: () }
#[verifier::external_body] pub struct IpBlocks { _opaque: () }
#[verifier::external_body] pub struct ValidationError { _opaque: () }
#[verifier::external_body] pub struct VerificationError { _opaque: () }
#[verifier::external_body] pub struct InspectionError { _opaque: () }
#[verifier::external_body] pub struct DecodeError { _opaque: () }
#[verifier::external_body] pub struct X509Name { _opaque: () }
pub enum KeyUsage { Ca, Ee }
impl PartialEqSpecImpl for KeyUsage {
    open spec fn obeys_eq_spec() -> bool { true }
    open spec fn eq_spec(&self, other: &KeyUsage) -> bool { *self == *other }
}
impl PartialEq for KeyUsage {
    #[verifier::external_body]
    fn eq(&self, other: &Self) -> bool { unimplemented!() }
}
impl Cert {
    #[verifier::external_body]
    pub fn decode(source: Bytes) -> (r: Result<Cert, DecodeError>)
    { unimplemented!() }
}
impl Cert {
    #[verifier::external_body]
    pub fn serial_number(&self) -> (r: Serial)
    { unimplemented!() }
}
impl Cert {
    #[verifier::external_body]
    pub fn issuer(&self) -> (r: &X509Name)
    { unimplemented!() }
}
impl Cert {
    #[verifier::external_body]
    pub fn subject(&self) -> (r: &X509Name)
    { unimplemented!() }
}
impl Cert {
    #[verifier::external_body]
    pub fn authority_key_identifier(&self) -> (r: Option<KeyIdentifier>)
    { unimplemented!() }
}
impl Cert {
    #[verifier::external_body]
    pub fn basic_ca(&self) -> (r: Option<bool>)
    { unimplemented!() }
}
impl Cert {
    #[verifier::external_body]
    pub fn key_usage(&self) -> (r: KeyUsage)
    { unimplemented!() }
}
impl Cert {
    #[verifier::external_body]
    pub fn crl_uri(&self) -> (r: Option<&RsyncUri>)
    { unimplemented!() }
}
impl Cert {
    #[verifier::external_body]
    pub fn ca_issuer(&self) -> (r: Option<&RsyncUri>)
    { unimplemented!() }
}
impl Cert {
    #[verifier::external_body]
    pub fn ca_repository(&self) -> (r: Option<&RsyncUri>)
    { unimplemented!() }
}
impl Cert {
    #[verifier::external_body]
    pub fn rpki_manifest(&self) -> (r: Option<&RsyncUri>)
    { unimplemented!() }
}
impl Cert {
    #[verifier::external_body]
    pub fn signed_object(&self) -> (r: Option<&RsyncUri>)
    { unimplemented!() }
}
impl Cert {
    #[verifier::external_body]
    pub fn rpki_notify(&self) -> (r: Option<&HttpsUri>)
    { unimplemented!() }
}
impl Cert {
    #[verifier::external_body]
    pub fn has_ip_resources(&self) -> (r: bool)
    { unimplemented!() }
}
impl Cert {
    #[verifier::external_body]
    pub fn v4_resources(&self) -> (r: &IpResources)
    { unimplemented!() }
}
impl Cert {
    #[verifier::external_body]
    pub fn v6_resources(&self) -> (r: &IpResources)
    { unimplemented!() }
}
impl Cert {
    #[verifier::external_body]
    pub fn validate_ta(self, info: Arc<TalInfo>, strict: bool) -> (r: Result<ResourceCert, ValidationError>)
    { unimplemented!() }
}
impl Cert {
    #[verifier::external_body]
    pub fn validate_ta_at(self, info: Arc<TalInfo>, strict: bool, now: Time) -> (r: Result<ResourceCert, ValidationError>)
    { unimplemented!() }
}
impl Cert {
    #[verifier::external_body]
    pub fn validate_ca(self, issuer: &ResourceCert, strict: bool) -> (r: Result<ResourceCert, ValidationError>)
    { unimplemented!() }
}
impl Cert {
    #[verifier::external_body]
    pub fn validate_ca_at(self, issuer: &ResourceCert, strict: bool, now: Time) -> (r: Result<ResourceCert, ValidationError>)
    { unimplemented!() }
}
impl Cert {
    #[verifier::external_body]
    pub fn validate_ee(self, issuer: &ResourceCert, strict: bool) -> (r: Result<ResourceCert, ValidationError>)
    { unimplemented!() }
}
impl Cert {
    #[verifier::external_body]
    pub fn validate_ee_at(self, issuer: &ResourceCert, strict: bool, now: Time) -> (r: Result<ResourceCert, ValidationError>)
    { unimplemented!() }
}
impl Cert {
    #[verifier::external_body]
    pub fn validate_router(&self, issuer: &ResourceCert, strict: bool) -> (r: Result<(), ValidationError>)
    { unimplemented!() }
}
impl Cert {
    #[verifier::external_body]
    pub fn validate_router_at(&self, issuer: &ResourceCert, strict: bool, now: Time) -> (r: Result<(), ValidationError>)
    { unimplemented!() }
}
impl Cert {
    #[verifier::external_body]
    pub fn inspect_ta(&self, strict: bool) -> (r: Result<(), InspectionError>)
    { unimplemented!() }
}
impl Cert {
    #[verifier::external_body]
    pub fn inspect_ca(&self, strict: bool) -> (r: Result<(), InspectionError>)
    { unimplemented!() }
}
impl Cert {
    #[verifier::external_body]
    pub fn inspect_ee(&self, strict: bool) -> (r: Result<(), InspectionError>)
    { unimplemented!() }
}
impl Cert {
    #[verifier::external_body]
    pub fn inspect_router(&self, strict: bool) -> (r: Result<(), InspectionError>)
    { unimplemented!() }
}
impl Cert {
    #[verifier::external_body]
    pub fn verify_ta(self, info: Arc<TalInfo>, strict: bool) -> (r: Result<ResourceCert, VerificationError>)
    { unimplemented!() }
}
impl Cert {
    #[verifier::external_body]
    pub fn verify_ca(self, issuer: &ResourceCert, strict: bool) -> (r: Result<ResourceCert, VerificationError>)
    { unimplemented!() }
}
impl Cert {
    #[verifier::external_body]
    pub fn verify_ee(self, issuer: &ResourceCert, strict: bool) -> (r: Result<ResourceCert, VerificationError>)
    { unimplemented!() }
}
impl Cert {
    #[verifier::external_body]
    pub fn verify_router(&self, issuer: &ResourceCert, strict: bool) -> (r: Result<(), VerificationError>)
    { unimplemented!() }
}
impl ResourceCert {
    #[verifier::external_body]
    pub fn as_cert(&self) -> (r: &Cert)
    { unimplemented!() }
}
impl ResourceCert {
    #[verifier::external_body]
    pub fn v4_resources(&self) -> (r: &IpBlocks)
    { unimplemented!() }
}
impl ResourceCert {
    #[verifier::external_body]
    pub fn v6_resources(&self) -> (r: &IpBlocks)
    { unimplemented!() }
}
impl ResourceCert {
    #[verifier::external_body]
    pub fn into_tal(self) -> (r: Arc<TalInfo>)
    { unimplemented!() }
}
// rpki: `impl Deref for ResourceCert { type Target = Cert }`
impl std::ops::Deref for ResourceCert {
    type Target = Cert;
    #[verifier::external_body]
    fn deref(&self) -> (r: &Cert) { unimplemented!() }
}
#[verifier::external_body] pub struct Tal { _opaque: () }
impl Tal {
    #[verifier::external_body]
    pub fn key_info(&self) -> (r: &PublicKey)
    { unimplemented!() }
}
impl Tal {
    #[verifier::external_body]
    pub fn info(&self) -> (r: &Arc<TalInfo>)
    { unimplemented!() }
}
impl Tal {
    #[verifier::external_body]
    pub fn prefer_https(&mut self)
    { unimplemented!() }
}
impl TalInfo {
    #[verifier::external_body]
    pub fn name(&self) -> (r: &str)
    { unimplemented!() }
}
impl TalInfo {
    #[verifier::external_body]
    pub fn from_name(name: String) -> (r: TalInfo)
    { unimplemented!() }
}
impl TalInfo {
    #[verifier::external_body]
    pub fn into_arc(self) -> (r: Arc<TalInfo>)
    { unimplemented!() }
}
#[verifier::external_body] pub struct Crl { _opaque: () }
#[verifier::external_body] pub struct Manifest { _opaque: () }
#[verifier::external_body] pub struct ManifestContent { _opaque: () }
#[verifier::external_body] pub struct MftItem { _opaque: () }
#[verifier::external_body] pub struct MftIter { _opaque: () }
#[verifier::external_body] pub struct ManifestHash { _opaque: () }
#[verifier::external_body] pub struct DigestAlgorithm { _opaque: () }
#[verifier::external_body] pub struct HashMismatch { _opaque: () }
impl Crl {
    #[verifier::external_body]
    pub fn decode(source: Bytes) -> (r: Result<Crl, DecodeError>)
    { unimplemented!() }
}
impl Crl {
    #[verifier::external_body]
    pub fn contains(&self, serial: Serial) -> (r: bool)
    { unimplemented!() }
}
impl Crl {
    #[verifier::external_body]
    pub fn cache_serials(&mut self)
    { unimplemented!() }
}
impl Crl {
    #[verifier::external_body]
    pub fn verify_signature(&self, key: &PublicKey) -> (r: Result<(), ValidationError>)
    { unimplemented!() }
}
impl Crl {
    #[verifier::external_body]
    pub fn this_update(&self) -> (r: Time)
    { unimplemented!() }
}
impl Crl {
    #[verifier::external_body]
    pub fn next_update(&self) -> (r: Time)
    { unimplemented!() }
}
impl Crl {
    #[verifier::external_body]
    pub fn is_stale(&self) -> (r: bool)
    { unimplemented!() }
}
impl Crl {
    #[verifier::external_body]
    pub fn crl_number(&self) -> (r: Serial)
    { unimplemented!() }
}
impl Crl {
    #[verifier::external_body]
    pub fn authority_key_identifier(&self) -> (r: &KeyIdentifier)
    { unimplemented!() }
}
impl Crl {
    #[verifier::external_body]
    pub fn issuer(&self) -> (r: &X509Name)
    { unimplemented!() }
}
impl Manifest {
    #[verifier::external_body]
    pub fn decode(source: Bytes, strict: bool) -> (r: Result<Manifest, DecodeError>)
    { unimplemented!() }
}
impl Manifest {
    #[verifier::external_body]
    pub fn validate(self, issuer: &ResourceCert, strict: bool) -> (r: Result<(ResourceCert, ManifestContent), ValidationError>)
    { unimplemented!() }
}
impl Manifest {
    #[verifier::external_body]
    pub fn validate_at(self, issuer: &ResourceCert, strict: bool, now: Time) -> (r: Result<(ResourceCert, ManifestContent), ValidationError>)
    { unimplemented!() }
}
impl Manifest {
    #[verifier::external_body]
    pub fn cert(&self) -> (r: &Cert)
    { unimplemented!() }
}
impl Manifest {
    #[verifier::external_body]
    pub fn content(&self) -> (r: &ManifestContent)
    { unimplemented!() }
}
impl ManifestContent {
    #[verifier::external_body]
    pub fn manifest_number(&self) -> (r: Serial)
    { unimplemented!() }
}
impl ManifestContent {
    #[verifier::external_body]
    pub fn this_update(&self) -> (r: Time)
    { unimplemented!() }
}
impl ManifestContent {
    #[verifier::external_body]
    pub fn next_update(&self) -> (r: Time)
    { unimplemented!() }
}
impl ManifestContent {
    #[verifier::external_body]
    pub fn file_hash_alg(&self) -> (r: DigestAlgorithm)
    { unimplemented!() }
}
impl ManifestContent {
    #[verifier::external_body]
    pub fn iter(&self) -> (r: MftIter)
    { unimplemented!() }
}
impl ManifestContent {
    #[verifier::external_body]
    pub fn len(&self) -> (r: usize)
    { unimplemented!() }
}
impl ManifestContent {
    #[verifier::external_body]
    pub fn is_empty(&self) -> (r: bool)
    { unimplemented!() }
}
impl ManifestContent {
    #[verifier::external_body]
    pub fn is_stale(&self) -> (r: bool)
    { unimplemented!() }
}
impl MftItem {
    #[verifier::external_body]
    pub fn new(file: Bytes, hash: Bytes) -> (r: MftItem)
    { unimplemented!() }
}
impl MftItem {
    #[verifier::external_body]
    pub fn file(&self) -> (r: &Bytes)
    { unimplemented!() }
}
impl MftItem {
    #[verifier::external_body]
    pub fn hash(&self) -> (r: &Bytes)
    { unimplemented!() }
}
impl MftItem {
    #[verifier::external_body]
    pub fn into_pair(self) -> (r: (Bytes, Bytes))
    { unimplemented!() }
}
impl MftIter {
    #[verifier::external_body]
    pub fn next(&mut self) -> (r: Option<MftItem>)
    { unimplemented!() }
}
impl ManifestHash {
    #[verifier::external_body]
    pub fn new(hash: Bytes, algorithm: DigestAlgorithm) -> (r: ManifestHash)
    { unimplemented!() }
}
impl ManifestHash {
    #[verifier::external_body]
    pub fn verify(&self, t: &Bytes) -> (r: Result<(), HashMismatch>)
    { unimplemented!() }
}
impl ManifestHash {
    #[verifier::external_body]
    pub fn algorithm(&self) -> (r: DigestAlgorithm)
    { unimplemented!() }
}
#[verifier::external_body] pub struct Roa { _opaque: () }
#[verifier::external_body] pub struct Aspa { _opaque: () }
#[verifier::external_body] pub struct SignedObject { _opaque: () }
impl Roa {
    #[verifier::external_body]
    pub fn decode(source: Bytes, strict: bool) -> (r: Result<Roa, DecodeError>)
    { unimplemented!() }
}
impl Roa {
    #[verifier::external_body]
    pub fn cert(&self) -> (r: &Cert)
    { unimplemented!() }
}
impl Roa {
    #[verifier::external_body]
    pub fn content(&self) -> (r: &RouteOriginAttestation)
    { unimplemented!() }
}
impl Aspa {
    #[verifier::external_body]
    pub fn decode(source: Bytes, strict: bool) -> (r: Result<Aspa, DecodeError>)
    { unimplemented!() }
}
impl Aspa {
    #[verifier::external_body]
    pub fn cert(&self) -> (r: &Cert)
    { unimplemented!() }
}
impl Aspa {
    #[verifier::external_body]
    pub fn content(&self) -> (r: &AsProviderAttestation)
    { unimplemented!() }
}
impl SignedObject {
    #[verifier::external_body]
    pub fn decode(source: Bytes, strict: bool) -> (r: Result<SignedObject, DecodeError>)
    { unimplemented!() }
}
impl SignedObject {
    #[verifier::external_body]
    pub fn cert(&self) -> (r: &Cert)
    { unimplemented!() }
}
impl SignedObject {
    #[verifier::external_body]
    pub fn signing_time(&self) -> (r: Time)
    { unimplemented!() }
}
impl SignedObject {
    #[verifier::external_body]
    pub fn validate(self, issuer: &ResourceCert, strict: bool) -> (r: Result<ResourceCert, ValidationError>)
    { unimplemented!() }
}
impl SignedObject {
    #[verifier::external_body]
    pub fn validate_at(self, issuer: &ResourceCert, strict: bool, now: Time) -> (r: Result<ResourceCert, ValidationError>)
    { unimplemented!() }
}
#[verifier::external_body] pub struct RoaIpAddresses { _opaque: () }
#[verifier::external_body] pub struct RoaIpAddress { _opaque: () }
#[verifier::external_body] pub struct FriendlyRoaIpAddress { _opaque: () }
#[verifier::external_body] pub struct ResPrefix { _opaque: () }
impl RoaIpAddresses {
    // the attestation this address list belongs to, and which of its two lists it is
    pub uninterp spec fn owner(&self) -> RouteOriginAttestation;
    pub uninterp spec fn is_v4_list(&self) -> bool;
}
impl RouteOriginAttestation {
    #[verifier::external_body]
    pub fn v4_addrs(&self) -> (r: &RoaIpAddresses)
        ensures r.owner() == *self, r.is_v4_list(),
    { unimplemented!() }
}
impl RouteOriginAttestation {
    #[verifier::external_body]
    pub fn v6_addrs(&self) -> (r: &RoaIpAddresses)
        ensures r.owner() == *self, !r.is_v4_list(),
    { unimplemented!() }
}
impl RoaIpAddresses {
    #[verifier::external_body]
    pub fn is_empty(&self) -> (r: bool)
        // an empty list contributes no origin of its family (the converse does not hold: entries
        // with an unrepresentable prefix are dropped by iter_origins)
        ensures r ==> forall|i: int| 0 <= i < self.owner().origins_spec().len() ==>
            (#[trigger] self.owner().origins_spec()[i]).prefix.prefix_spec().is_v4_spec() != self.is_v4_list(),
    { unimplemented!() }
}
impl RouteOriginAttestation {
    #[verifier::external_body]
    pub fn as_id(&self) -> (r: Asn)
        ensures forall|i: int| 0 <= i < self.origins_spec().len() ==> (#[trigger] self.origins_spec()[i]).asn == r,
    { unimplemented!() }
}
#[verifier::external_body] pub struct RoaIpAddressIter<'a> { _p: &'a () }
#[verifier::external_body] pub struct FriendlyIter<'a> { _p: &'a () }
impl RoaIpAddresses {
    #[verifier::external_body]
    pub fn iter(&self) -> (r: RoaIpAddressIter<'_>)
    { unimplemented!() }
}
impl<'a> RoaIpAddressIter<'a> {
    #[verifier::external_body]
    pub fn next(&mut self) -> (r: Option<RoaIpAddress>)
    { unimplemented!() }
}
impl RouteOriginAttestation {
    #[verifier::external_body]
    pub fn iter(&self) -> (r: FriendlyIter<'_>)
    { unimplemented!() }
}
impl<'a> FriendlyIter<'a> {
    #[verifier::external_body]
    pub fn next(&mut self) -> (r: Option<FriendlyRoaIpAddress>)
    { unimplemented!() }
}
impl RoaIpAddress {
    #[verifier::external_body]
    pub fn prefix(self) -> (r: ResPrefix)
    { unimplemented!() }
}
impl RoaIpAddress {
    #[verifier::external_body]
    pub fn max_length(self) -> (r: Option<u8>)
    { unimplemented!() }
}
impl FriendlyRoaIpAddress {
    #[verifier::external_body]
    pub fn prefix(self) -> (r: ResPrefix)
    { unimplemented!() }
}
impl FriendlyRoaIpAddress {
    #[verifier::external_body]
    pub fn is_v4(self) -> (r: bool)
    { unimplemented!() }
}
impl FriendlyRoaIpAddress {
    #[verifier::external_body]
    pub fn address_length(self) -> (r: u8)
    { unimplemented!() }
}
impl FriendlyRoaIpAddress {
    #[verifier::external_body]
    pub fn max_length(self) -> (r: u8)
    { unimplemented!() }
}
impl ResPrefix {
    #[verifier::external_body]
    pub fn addr_len(self) -> (r: u8)
    { unimplemented!() }
}
impl ProviderAsSet {
    #[verifier::external_body]
    pub fn len(&self) -> (r: usize)
    { unimplemented!() }
}
impl SmallAsnSet {
    #[verifier::external_body]
    pub fn len(&self) -> (r: usize)
    { unimplemented!() }
}
impl SmallAsnSet {
    #[verifier::external_body]
    pub fn is_empty(&self) -> (r: bool)
    { unimplemented!() }
}
impl Asn {
    #[verifier::external_body]
    pub fn into_u32(self) -> (r: u32)
    { unimplemented!() }
}
impl Asn {
    #[verifier::external_body]
    pub fn from_u32(v: u32) -> (r: Asn)
    { unimplemented!() }
}
impl RsyncUri {
    #[verifier::external_body]
    pub fn as_str(&self) -> (r: &str)
    { unimplemented!() }
}
impl RsyncUri {
    #[verifier::external_body]
    pub fn to_bytes(&self) -> (r: Bytes)
    { unimplemented!() }
}
impl RsyncUri {
    #[verifier::external_body]
    pub fn authority(&self) -> (r: &str)
    { unimplemented!() }
}
impl RsyncUri {
    #[verifier::external_body]
    pub fn module_name(&self) -> (r: &str)
    { unimplemented!() }
}
impl RsyncUri {
    #[verifier::external_body]
    pub fn module(&self) -> (r: &str)
    { unimplemented!() }
}
impl RsyncUri {
    #[verifier::external_body]
    pub fn path(&self) -> (r: &str)
    { unimplemented!() }
}
impl RsyncUri {
    #[verifier::external_body]
    pub fn path_is_dir(&self) -> (r: bool)
    { unimplemented!() }
}
impl RsyncUri {
    #[verifier::external_body]
    pub fn parent(&self) -> (r: Option<RsyncUri>)
    { unimplemented!() }
}
impl RsyncUri {
    #[verifier::external_body]
    pub fn ends_with(&self, extension: &str) -> (r: bool)
    { unimplemented!() }
}
impl RsyncUri {
    #[verifier::external_body]
    pub fn relative_to(&self, other: &RsyncUri) -> (r: Option<&str>)
    { unimplemented!() }
}
impl RsyncUri {
    #[verifier::external_body]
    pub fn is_parent_of(&self, other: &RsyncUri) -> (r: bool)
    { unimplemented!() }
}
impl RsyncUri {
    #[verifier::external_body]
    pub fn has_dubious_authority(&self) -> (r: bool)
    { unimplemented!() }
}
impl HttpsUri {
    #[verifier::external_body]
    pub fn as_str(&self) -> (r: &str)
    { unimplemented!() }
}
impl HttpsUri {
    #[verifier::external_body]
    pub fn authority(&self) -> (r: &str)
    { unimplemented!() }
}
impl HttpsUri {
    #[verifier::external_body]
    pub fn path(&self) -> (r: &str)
    { unimplemented!() }
}
impl Clone for RsyncUri {
    #[verifier::external_body]
    fn clone(&self) -> (r: RsyncUri) ensures r == *self { unimplemented!() }
}
impl Clone for HttpsUri {
    #[verifier::external_body]
    fn clone(&self) -> (r: HttpsUri) ensures r == *self { unimplemented!() }
}
impl Clone for Bytes {
    #[verifier::external_body]
    fn clone(&self) -> (r: Bytes) ensures r == *self { unimplemented!() }
}
impl Bytes {
    #[verifier::external_body]
    pub fn len(&self) -> (r: usize)
    { unimplemented!() }
}
impl Bytes {
    #[verifier::external_body]
    pub fn is_empty(&self) -> (r: bool)
    { unimplemented!() }
}
impl Bytes {
    #[verifier::external_body]
    pub fn new() -> (r: Bytes)
    { unimplemented!() }
}
impl Validity {
    #[verifier::external_body]
    pub fn new(not_before: Time, not_after: Time) -> (r: Validity)
    { unimplemented!() }
}
impl Time {
    #[verifier::external_body]
    pub fn now() -> (r: Time)
    { unimplemented!() }
}
impl Time {
    #[verifier::external_body]
    pub fn five_minutes_ago() -> (r: Time)
    { unimplemented!() }
}
impl Time {
    #[verifier::external_body]
    pub fn five_minutes_from_now() -> (r: Time)
    { unimplemented!() }
}
impl Time {
    #[verifier::external_body]
    pub fn tomorrow() -> (r: Time)
    { unimplemented!() }
}
impl Time {
    #[verifier::external_body]
    pub fn next_week() -> (r: Time)
    { unimplemented!() }
}
impl Time {
    #[verifier::external_body]
    pub fn next_year() -> (r: Time)
    { unimplemented!() }
}
impl Time {
    #[verifier::external_body]
    pub fn timestamp(&self) -> (r: i64)
    { unimplemented!() }
}
impl Time {
    #[verifier::external_body]
    pub fn to_binary_time(self) -> (r: i64)
    { unimplemented!() }
}
impl Clone for Serial {
    #[verifier::external_body]
    fn clone(&self) -> (r: Serial) ensures r == *self { unimplemented!() }
}
impl Copy for Serial {}
impl Clone for KeyIdentifier {
    #[verifier::external_body]
    fn clone(&self) -> (r: KeyIdentifier) ensures r == *self { unimplemented!() }
}
impl Copy for KeyIdentifier {}
impl PublicKey {
    #[verifier::external_body]
    pub fn allow_rpki_cert(&self) -> (r: bool)
    { unimplemented!() }
}
impl PublicKey {
    #[verifier::external_body]
    pub fn key_identifier(&self) -> (r: KeyIdentifier)
    { unimplemented!() }
}
impl PublicKey {
    #[verifier::external_body]
    pub fn bits_bytes(&self) -> (r: Bytes)
    { unimplemented!() }
}
impl IpResources {
    #[verifier::external_body]
    pub fn is_inherited(&self) -> (r: bool)
    { unimplemented!() }
}
impl IpResources {
    #[verifier::external_body]
    pub fn is_present(&self) -> (r: bool)
    { unimplemented!() }
}
impl AsBlocks {
    #[verifier::external_body]
    pub fn is_empty(&self) -> (r: bool)
    { unimplemented!() }
}
impl IpBlocks {
    #[verifier::external_body]
    pub fn is_empty(&self) -> (r: bool)
    { unimplemented!() }
}
impl CaCert {
    #[verifier::external_body]
    pub fn ca_repository(&self) -> (r: &RsyncUri)
    { unimplemented!() }
}
impl CaCert {
    #[verifier::external_body]
    pub fn rpki_manifest(&self) -> (r: &RsyncUri)
    { unimplemented!() }
}
impl CaCert {
    #[verifier::external_body]
    pub fn rpki_notify(&self) -> (r: Option<&HttpsUri>)
    { unimplemented!() }
}
impl Prefix {
    #[verifier::external_body]
    pub fn addr_len(self) -> (r: u8)
        ensures r == self.len_spec(),
    { unimplemented!() }
}
impl RejectedResourcesBuilder {
    #[verifier::external_body]
    pub fn extend_from_cert(&self, cert: &CaCert)
    { unimplemented!() }
}
