//@ fn PubPoint::new
//@ spec
    ensures
        // C03: a new publication point starts with no payload
        res.fresh(), res.refresh == refresh, res.tal_index == tal_index, res.repository_index is None,
//@ fn PubPoint::new_ca
//@ spec
    ensures
        // C03/C41: a child CA does not inherit payload from its parent
        res.fresh(), res.tal_index == parent.tal_index,
//@ fn PubPoint::is_empty
//@ spec
    ensures res == self.is_empty_spec(),
//@ fn PubPoint::update_refresh
//@ spec
    ensures
        // frame: payload untouched
        final(self).same_payload(old(self)), final(self).orig_refresh == old(self).orig_refresh,
        final(self).tal_index == old(self).tal_index, final(self).repository_index == old(self).repository_index,
//@ fn PubPoint::restart
//@ spec
    ensures
        // C03 + C01 (payload of an abandoned manifest is not validated payload): restart drops everything collected so far
        final(self).fresh(),
        final(self).orig_refresh == old(self).orig_refresh,
        final(self).tal_index == old(self).tal_index, final(self).repository_index == old(self).repository_index,
//@ fn PubPoint::add_roa
//@ spec
    ensures
        // C02: every origin of the ROA within the configured length limit is appended, in order,
        // C01: and nothing else is
        final(self).origins@ == old(self).origins@ + pushed(roa.origins_spec(), info, limit_v4_len, limit_v6_len),
        res == (pushed(roa.origins_spec(), info, limit_v4_len, limit_v6_len).len() > 0),
        // frame
        final(self).router_keys == old(self).router_keys, final(self).aspas == old(self).aspas,
        final(self).refresh == old(self).refresh, final(self).orig_refresh == old(self).orig_refresh,
        final(self).tal_index == old(self).tal_index, final(self).repository_index == old(self).repository_index,
//@ afterinit 1
        let ghost all = iter_1.rest();
        proof { assert(all.take(0) =~= Seq::<RouteOrigin>::empty()); }
//@ loopentry 1
        proof {
            // k origins have been consumed so far
            let k = all.len() - iter_1.rest().len();
            if k < all.len() {
                assert(all.take(k + 1).drop_last() =~= all.take(k));
                assert(all.take(k + 1).last() == all[k]);
                assert(all.skip(k).skip(1) =~= all.skip(k + 1));
            } else {
                assert(all.take(k) =~= all);
            }
        }
//@ loop 1
            invariant
                all == roa.origins_spec(),
                iter_1.rest().len() <= all.len(),
                iter_1.rest() == all.skip(all.len() - iter_1.rest().len()),
                // C02/C01: exactly the origins consumed so far that pass the length filter have been appended
                self.origins@ == old(self).origins@
                    + pushed(all.take(all.len() - iter_1.rest().len()), info, limit_v4_len, limit_v6_len),
                any == (pushed(all.take(all.len() - iter_1.rest().len()), info, limit_v4_len, limit_v6_len).len() > 0),
                self.router_keys == old(self).router_keys, self.aspas == old(self).aspas,
                self.refresh == old(self).refresh, self.orig_refresh == old(self).orig_refresh,
                self.tal_index == old(self).tal_index, self.repository_index == old(self).repository_index,
            ensures
                self.origins@ == old(self).origins@ + pushed(all, info, limit_v4_len, limit_v6_len),
                any == (pushed(all, info, limit_v4_len, limit_v6_len).len() > 0),
            decreases iter_1.rest().len(),
//@ fn PubPoint::add_router_key
//@ spec
    ensures
        // C02/C01: exactly this router key is appended
        final(self).router_keys@ == old(self).router_keys@.push(PubRouterKey { asns, key_id, key_info, info }),
        final(self).origins == old(self).origins, final(self).aspas == old(self).aspas,
        final(self).refresh == old(self).refresh, final(self).orig_refresh == old(self).orig_refresh,
        final(self).tal_index == old(self).tal_index, final(self).repository_index == old(self).repository_index,
//@ fn PubPoint::add_aspa
//@ spec
    ensures
        // C02/C01: exactly this ASPA is appended
        final(self).aspas@ == old(self).aspas@.push(PubAspa {
            customer: aspa.customer_spec(), providers: aspa.providers_spec(), info }),
        final(self).origins == old(self).origins, final(self).router_keys == old(self).router_keys,
        final(self).refresh == old(self).refresh, final(self).orig_refresh == old(self).orig_refresh,
        final(self).tal_index == old(self).tal_index, final(self).repository_index == old(self).repository_index,
//@ fn PubPointProcessor::process_ca
//@ spec
    ensures
        // C03/C41: the child's processor starts empty; the parent's payload is untouched
        res matches Ok(Some(child)) && child.pub_point.fresh() && child.report == old(self).report,
        final(self).pub_point == old(self).pub_point, final(self).report == old(self).report,
//@ fn PubPointProcessor::process_roa
//@ spec
    ensures
        // C02: a ROA handed to the sink is never dropped: all its origins within the length limits are appended
        // C01: and only those
        res is Ok,
        final(self).pub_point.origins@ == old(self).pub_point.origins@ + pushed(route.origins_spec(),
            Arc::new(PublishInfo::signed_object_spec(&cert, old(self).validity, old(self).point_stale)),
            old(self).report.limit_v4_len, old(self).report.limit_v6_len),
        final(self).pub_point.router_keys == old(self).pub_point.router_keys,
        final(self).pub_point.aspas == old(self).pub_point.aspas,
        final(self).pub_point.orig_refresh == old(self).pub_point.orig_refresh,
        final(self).report == old(self).report,
//@ fn PubPointProcessor::process_aspa
//@ spec
    ensures
        res is Ok,
        // C02: documented filter: ASPA disabled
        !old(self).report.enable_aspa ==> final(self).pub_point == old(self).pub_point,
        // C02/C01: otherwise exactly this ASPA is appended
        old(self).report.enable_aspa ==> final(self).pub_point.aspas@ == old(self).pub_point.aspas@.push(PubAspa {
            customer: aspa.customer_spec(), providers: aspa.providers_spec(),
            info: Arc::new(PublishInfo::signed_object_spec(&cert, old(self).validity, old(self).point_stale)) }),
        final(self).pub_point.origins == old(self).pub_point.origins,
        final(self).pub_point.router_keys == old(self).pub_point.router_keys,
        final(self).pub_point.orig_refresh == old(self).pub_point.orig_refresh,
        final(self).report == old(self).report,
//@ fn PubPointProcessor::process_router_cert
//@ spec
    ensures
        res is Ok,
        // C02: documented filter (BGPsec disabled) and malformed-key cases: nothing is added
        !router_key_usable(old(self).report, &cert) ==> final(self).pub_point == old(self).pub_point,
        // C02/C01: otherwise exactly one router key built from this certificate is appended
        router_key_usable(old(self).report, &cert) ==>
            final(self).pub_point.router_keys@ == old(self).pub_point.router_keys@.push(PubRouterKey {
                asns: cert.as_resources_spec().to_blocks_spec()->Some_0,
                key_id: cert.ski_spec(),
                key_info: RouterKeyInfo::new_spec(cert.spki_spec().info_bytes_spec())->Some_0,
                info: Arc::new(PublishInfo::router_cert_spec(&cert, uri, ca_cert.cert_spec().tal_spec(), old(self).validity, old(self).point_stale)),
            }),
        final(self).pub_point.origins == old(self).pub_point.origins,
        final(self).pub_point.aspas == old(self).pub_point.aspas,
        final(self).pub_point.orig_refresh == old(self).pub_point.orig_refresh,
        final(self).report == old(self).report,
//@ fn PubPointProcessor::restart
//@ spec
    ensures
        // C03 + C01: the processor holds no payload after a restart
        res is Ok, final(self).pub_point.fresh(), final(self).report == old(self).report,
//@ fn PubPointProcessor::commit
//@ spec
    ensures
        // C02: a committed non-empty publication point reaches the report (with exactly its payload)
        !self.pub_point.is_empty_spec() ==> queued(&self.report.pub_points, self.pub_point),
//@ global
impl PubPoint {
    spec fn is_empty_spec(&self) -> bool {
        self.origins@.len() == 0 && self.router_keys@.len() == 0 && self.aspas@.len() == 0
    }
    // C03: "fresh": no payload, refresh deadline back at its initial value
    spec fn fresh(&self) -> bool {
        self.is_empty_spec() && self.refresh == self.orig_refresh
    }
    spec fn same_payload(&self, other: &PubPoint) -> bool {
        self.origins == other.origins && self.router_keys == other.router_keys && self.aspas == other.aspas
    }
}

// C02: the documented prefix-length filter
spec fn kept(o: RouteOrigin, l4: Option<u8>, l6: Option<u8>) -> bool {
    match (if o.prefix.prefix_spec().is_v4_spec() { l4 } else { l6 }) {
        Some(limit) => o.prefix.prefix_spec().len_spec() <= limit,
        None => true,
    }
}

// what add_roa must append for the origins `s`
spec fn pushed(s: Seq<RouteOrigin>, info: Arc<PublishInfo>, l4: Option<u8>, l6: Option<u8>) -> Seq<PubRouteOrigin>
    decreases s.len()
{
    if s.len() == 0 { Seq::empty() }
    else {
        let r = pushed(s.drop_last(), info, l4, l6);
        if kept(s.last(), l4, l6) { r.push(PubRouteOrigin { origin: s.last(), info }) } else { r }
    }
}

// C02: the conditions under which a router certificate contributes a key
spec fn router_key_usable(report: &ValidationReport, cert: &Cert) -> bool {
    &&& report.enable_bgpsec
    &&& !cert.as_resources_spec().is_inherited_spec()
    &&& cert.as_resources_spec().is_present_spec()
    &&& cert.as_resources_spec().to_blocks_spec() is Some
    &&& cert.spki_spec().allow_router_cert_spec()
    &&& RouterKeyInfo::new_spec(cert.spki_spec().info_bytes_spec()) is Some
}
