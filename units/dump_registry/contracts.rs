//@ fn DumpRegistry::get_repo_path
//@ spec
    requires old(self).wf(),
    ensures
        // C30: the registry invariant is kept by every registration
        final(self).wf(), final(self).base_dir == old(self).base_dir,
        // C30: the same repository always maps to the same directory: a known URI gets the recorded
        // name and nothing changes
        (rpki_notify is Some && old(self).rrdp_uris@.contains_key(*rpki_notify->Some_0)) ==>
            res == joined(old(self).base_dir, old(self).rrdp_uris@[*rpki_notify->Some_0]@)
            && final(self).rrdp_uris@ == old(self).rrdp_uris@ && final(self).rrdp_dirs@ == old(self).rrdp_dirs@,
        // C30: a new URI is recorded under the name of the directory returned, and every other entry stays
        (rpki_notify is Some && !old(self).rrdp_uris@.contains_key(*rpki_notify->Some_0)) ==>
            final(self).rrdp_uris@.contains_key(*rpki_notify->Some_0)
            && res == joined(old(self).base_dir, final(self).rrdp_uris@[*rpki_notify->Some_0]@)
            && (forall|v: Https| old(self).rrdp_uris@.contains_key(v) ==>
                    final(self).rrdp_uris@.contains_key(v) && final(self).rrdp_uris@[v] == old(self).rrdp_uris@[v]),
//@ entry
        broadcast use axiom_https_key_model;
        broadcast use axiom_string_key_model;
//@ fn DumpRegistry::record_suffixed
//@ spec
    requires old(self).wf(), !old(self).rrdp_uris@.contains_key(*uri),
             // the guarding condition of the block (the R7c anchor): the name is not in the used set
             !old(self).rrdp_dirs@.contains(name),
    ensures
        // C30: the invariant (every assigned name is recorded as used; distinct repositories have distinct names) is kept
        final(self).wf(),
        // C30: the repository is recorded under the returned name, and that name is marked as used
        final(self).rrdp_uris@ == old(self).rrdp_uris@.insert(*uri, name),
        final(self).rrdp_dirs@ == old(self).rrdp_dirs@.insert(name),
        res == joined(old(self).base_dir, name@), final(self).base_dir == old(self).base_dir,
//@ entry
        broadcast use axiom_https_key_model;
        broadcast use axiom_string_key_model;
//@ global
impl DumpRegistry {
    // C30: every name assigned to a repository is in the used set, and two repositories never share a name
    spec fn wf(&self) -> bool {
        &&& forall|u: Https| self.rrdp_uris@.contains_key(u) ==> self.rrdp_dirs@.contains(#[trigger] self.rrdp_uris@[u])
        &&& forall|u1: Https, u2: Https| self.rrdp_uris@.contains_key(u1) && self.rrdp_uris@.contains_key(u2) && u1 != u2
                ==> #[trigger] self.rrdp_uris@[u1] != #[trigger] self.rrdp_uris@[u2]
    }
}
