//@ fn DumpRegistry::record_plain
//@ spec
    requires old(self).wf(), !old(self).rrdp_uris@.contains_key(*uri),
             !old(self).rrdp_dirs@.contains(authority.view()),
    ensures
        // C30: the invariant (every assigned name is recorded as used; distinct repositories have distinct names) is kept
        final(self).wf(),
        // C30: the repository is recorded under the returned name, which was unused so far
        final(self).rrdp_uris@ == old(self).rrdp_uris@.insert(*uri, authority.view()),
        final(self).rrdp_dirs@ == old(self).rrdp_dirs@.insert(authority.view()),
        res == joined(old(self).base_dir, authority.view()), final(self).base_dir == old(self).base_dir,
//@ entry
        broadcast use axiom_https_key_model;
        broadcast use axiom_string_key_model;
//@ fn DumpRegistry::record_suffixed
//@ spec
    requires old(self).wf(), !old(self).rrdp_uris@.contains_key(*uri),
             !old(self).rrdp_dirs@.contains(name@),
    ensures
        // C30: as above for a suffixed name
        final(self).wf(),
        final(self).rrdp_uris@ == old(self).rrdp_uris@.insert(*uri, name@),
        final(self).rrdp_dirs@ == old(self).rrdp_dirs@.insert(name@),
        res == joined(old(self).base_dir, name@), final(self).base_dir == old(self).base_dir,
//@ entry
        broadcast use axiom_https_key_model;
        broadcast use axiom_string_key_model;
//@ global
impl DumpRegistry {
    // C30: every name assigned to a repository is in the used set, and two repositories never share a name
    spec fn wf(&self) -> bool {
        &&& forall|u: Https| self.rrdp_uris@.contains_key(u) ==> self.rrdp_dirs@.contains(#[trigger] self.rrdp_uris@[u]@)
        &&& forall|u1: Https, u2: Https| self.rrdp_uris@.contains_key(u1) && self.rrdp_uris@.contains_key(u2) && u1 != u2
                ==> #[trigger] self.rrdp_uris@[u1]@ != #[trigger] self.rrdp_uris@[u2]@
    }
}
