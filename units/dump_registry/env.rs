// Environment of unit `dump_registry` (C30: dump directories of RRDP repositories).

// rpki::uri::Https: compared and hashed by value (ASSUMED consistent).
#[verifier::external_body] pub struct Https { _opaque: () }
impl Clone for Https {
    #[verifier::external_body] fn clone(&self) -> (r: Self) ensures r == *self { unimplemented!() }
}
impl PartialEq for Https { #[verifier::external_body] fn eq(&self, other: &Self) -> bool { unimplemented!() } }
impl Eq for Https {}
impl std::hash::Hash for Https {
    #[verifier::external_body] fn hash<H: std::hash::Hasher>(&self, state: &mut H) { unimplemented!() }
}
pub broadcast axiom fn axiom_https_key_model()
    ensures #[trigger] vstd::std_specs::hash::obeys_key_model::<Https>();
pub broadcast axiom fn axiom_string_key_model()
    ensures #[trigger] vstd::std_specs::hash::obeys_key_model::<String>();

// Cow<'_, str> as returned by canonical_authority
#[verifier::external_body] pub struct CowStr<'a> { _p: &'a () }
impl<'a> CowStr<'a> {
    pub uninterp spec fn view(&self) -> Seq<char>;
    #[verifier::external_body] pub fn as_ref(&self) -> (r: &str) ensures r@ == self.view() { unimplemented!() }
}
impl Https {
    pub uninterp spec fn canonical_authority_spec(&self) -> Seq<char>;
    #[verifier::external_body]
    pub fn canonical_authority(&self) -> (r: CowStr<'_>) ensures r.view() == self.canonical_authority_spec() { unimplemented!() }
}

// std::path::PathBuf::join: base plus one relative component
#[verifier::external_body] pub struct PathBuf { _opaque: () }
pub uninterp spec fn joined(base: PathBuf, name: Seq<char>) -> PathBuf;
pub trait JoinArg { spec fn text(&self) -> Seq<char>; }
impl JoinArg for String { open spec fn text(&self) -> Seq<char> { self@ } }
impl<'a> JoinArg for &'a str { open spec fn text(&self) -> Seq<char> { (*self)@ } }
impl<'a> JoinArg for &'a String { open spec fn text(&self) -> Seq<char> { (**self)@ } }
impl PathBuf {
    #[verifier::external_body]
    pub fn join<A: JoinArg>(&self, name: A) -> (r: PathBuf) ensures r == joined(*self, name.text()) { unimplemented!() }
}

// Two Strings with the same content are the same value (Eq/Hash of String are by content) -- ASSUMED;
// with it `!=` on Strings below means "different text".
pub broadcast axiom fn axiom_string_extensional(a: String, b: String)
    ensures (#[trigger] a@ == #[trigger] b@) ==> a == b;

// DumpRegistry::make_path: ASSUMED with the contract PROVED for the block that records a suffixed
// name (record_suffixed below; the un-suffixed branch has the same shape) -- see paper_steps: the
// loop that searches a free name cannot be verified.
impl DumpRegistry {
    #[verifier::external_body]
    fn make_path(&mut self, uri: &Https) -> (res: PathBuf)
        requires old(self).wf(), !old(self).rrdp_uris@.contains_key(*uri),
        ensures
            final(self).wf(), final(self).base_dir == old(self).base_dir,
            exists|name: String| !old(self).rrdp_dirs@.contains(name)
                && #[trigger] final(self).rrdp_uris@ == old(self).rrdp_uris@.insert(*uri, name)
                && final(self).rrdp_dirs@ == old(self).rrdp_dirs@.insert(name)
                && res == joined(old(self).base_dir, name@),
    { unimplemented!() }
}

