//@ fn Repository::rrdp
//@ spec
    ensures res.0 == (RepoInner::Rrdp { repository }),
//@ fn Repository::rsync
//@ spec
    ensures res.0 == (RepoInner::Rsync { rsync }),
//@ fn Repository::is_rrdp
//@ spec
    ensures res == (self.0 is Rrdp),
//@ fn Run::repository
//@ spec
    ensures
        // The documented table (C29), both directions, over the full product
        // has-notify x rrdp-enabled x outcome x policy x rsync-enabled.
        res == fallback_table(self, ca),
        // rsync chosen ==> the module update for this CA was requested.
        (res matches Ok(Some(r)) && r.0 is Rsync) ==>
            rsync_module_requested(&self.rsync->Some_0, ca.repo_spec()),
//@ global
spec fn use_rsync<'s>(run: &'s Run<'s>) -> Result<Option<Repository<'s>>, RunFailed> {
    match run.rsync {
        Some(ref rsync) => Ok(Some(Repository(RepoInner::Rsync { rsync }))),
        None => Ok(None),
    }
}

// Written from the property statement, not from the code.
spec fn fallback_table<'s>(run: &'s Run<'s>, ca: &'s CaCert)
    -> Result<Option<Repository<'s>>, RunFailed>
{
    if ca.notify_spec() is None || run.rrdp is None {
        // no RRDP URI, or RRDP disabled: rsync (when enabled)
        use_rsync(run)
    } else {
        match rrdp_outcome(&run.rrdp->Some_0, ca.notify_spec()->Some_0) {
            Err(e) => Err(e),
            // a successful RRDP update is always used
            Ok(LoadResult::Updated(repository)) => Ok(Some(Repository(RepoInner::Rrdp { repository }))),
            // failed with a current copy: never fall back, stored data is used
            Ok(LoadResult::Current) => Ok(None),
            // failed with an expired copy: rsync iff policy is 'stale'
            Ok(LoadResult::Stale) =>
                if run.collector.rrdp_fallback is Stale { use_rsync(run) } else { Ok(None) },
            // failed with no copy: rsync iff policy is 'new' or 'stale'
            Ok(LoadResult::Unavailable) =>
                if run.collector.rrdp_fallback is Stale || run.collector.rrdp_fallback is New {
                    use_rsync(run)
                } else { Ok(None) },
        }
    }
}
