// Environment of unit `fallback`: opaque types and ASSUMED contracts for
// everything `Run::repository` calls that is not extracted.

#[verifier::external_body] pub struct Https { _opaque: () }
#[verifier::external_body] pub struct RsyncUri { _opaque: () }
#[verifier::external_body] pub struct RunFailed { _opaque: () }
#[verifier::external_body] pub struct ReadRepository { _opaque: () }
#[verifier::external_body] pub struct RrdpCollector { _opaque: () }
#[verifier::external_body] pub struct RsyncCollector { _opaque: () }
#[verifier::external_body] pub struct CaCert { _opaque: () }
#[verifier::external_body] pub struct RrdpRun<'a> { _p: &'a RrdpCollector }
#[verifier::external_body] pub struct RsyncRun<'a> { _p: &'a RsyncCollector }

impl CaCert {
    uninterp spec fn notify_spec(&self) -> Option<&Https>;
    uninterp spec fn repo_spec(&self) -> &RsyncUri;

    #[verifier::external_body]
    fn rpki_notify(&self) -> (r: Option<&Https>)
        ensures r == self.notify_spec(),
    { unimplemented!() }

    #[verifier::external_body]
    fn ca_repository(&self) -> (r: &RsyncUri)
        ensures r == self.repo_spec(),
    { unimplemented!() }
}

// Outcome of the RRDP update attempt for a given URI in this run: a ghost
// function of (run, uri) -- the collector decides it, this unit does not.
uninterp spec fn rrdp_outcome(run: &RrdpRun, uri: &Https) -> Result<LoadResult, RunFailed>;

// A monotone ghost fact: "this rsync run was asked to update the module of uri".
uninterp spec fn rsync_module_requested(run: &RsyncRun, uri: &RsyncUri) -> bool;

impl<'a> RrdpRun<'a> {
    #[verifier::external_body]
    fn load_repository(&self, uri: &Https) -> (r: Result<LoadResult, RunFailed>)
        ensures r == rrdp_outcome(self, uri),
    { unimplemented!() }
}

impl<'a> RsyncRun<'a> {
    #[verifier::external_body]
    fn load_module(&self, uri: &RsyncUri)
        ensures rsync_module_requested(self, uri),
    { unimplemented!() }
}

// Derived impls of extracted types (derive attributes are dropped by extraction):
// config::FallbackPolicy is `Clone, Copy, Debug, Eq, PartialEq` (structural equality).
impl Clone for FallbackPolicy { #[verifier::external_body] fn clone(&self) -> (r: Self) ensures r == *self, { unimplemented!() } }
impl Copy for FallbackPolicy {}
impl PartialEqSpecImpl for FallbackPolicy {
    open spec fn obeys_eq_spec() -> bool { true }
    closed spec fn eq_spec(&self, other: &FallbackPolicy) -> bool { *self == *other }
}
impl PartialEq for FallbackPolicy {
    #[verifier::external_body]
    fn eq(&self, other: &Self) -> bool { unimplemented!() }
}
impl Eq for FallbackPolicy {}
