//@ fn Config::max_object_size_from_file
//@ spec
    ensures
        // C38: in the configuration file 0 means "no limit", n > 0 means the limit n, and a missing
        // entry means the default limit
        res matches Ok(v) ==> (match old(file).u64_entry("max-object-size"@) {
            Ok(Some(n)) => v == (if n == 0 { None::<u64> } else { Some(n) }),
            Ok(None) => v == Some(DEFAULT_MAX_OBJECT_SIZE),
            Err(_) => false,
        }),
        old(file).u64_entry("max-object-size"@) is Ok ==> res is Ok,
//@ fn Config::max_object_size_from_args
//@ spec
    ensures
        // C38: on the command line 0 means "no limit", n > 0 means the limit n
        final(self).max_object_size == (if value == 0 { None::<u64> } else { Some(value) }),
