// Environment of unit `config_limit` (C38: "0 means unlimited").
// Config has some eighty fields of many types; only the one the lifted blocks assign is declared
// here (RETYPED stand-in, field list only).
pub struct Config { pub max_object_size: Option<u64> }

#[verifier::external_body] pub struct Failed { _opaque: () }
#[verifier::external_body] pub struct ConfigFile { _opaque: () }
impl ConfigFile {
    // what the file holds under an integer key: Ok(None) = key absent, Err = not a valid integer
    pub uninterp spec fn u64_entry(&self, key: Seq<char>) -> Result<Option<u64>, Failed>;
    #[verifier::external_body]
    pub fn take_u64(&mut self, key: &str) -> (r: Result<Option<u64>, Failed>)
        ensures r == old(self).u64_entry(key@),
    { unimplemented!() }
}
// ---- std functions without a vstd specification (ASSUMED; their std definitions). Declared so
// that a change of the code to one of these combinators is verified instead of rejected.
pub assume_specification<T: Ord + core::marker::Destruct> [std::cmp::max] (a: T, b: T) -> (r: T)
    ensures <T as vstd::std_specs::cmp::OrdSpec>::obeys_cmp_spec() ==> r == (if vstd::std_specs::cmp::OrdSpec::cmp_spec(&a, &b) == std::cmp::Ordering::Greater { a } else { b });
pub assume_specification<T: Ord + core::marker::Destruct> [std::cmp::min] (a: T, b: T) -> (r: T)
    ensures <T as vstd::std_specs::cmp::OrdSpec>::obeys_cmp_spec() ==> r == (if vstd::std_specs::cmp::OrdSpec::cmp_spec(&a, &b) == std::cmp::Ordering::Greater { b } else { a });
pub assume_specification<T> [bool::then_some] (b: bool, t: T) -> (r: Option<T>)
    ensures r == (if b { Some(t) } else { None::<T> });
pub assume_specification<T, U> [Option::<T>::and] (a: Option<T>, b: Option<U>) -> (r: Option<U>)
    ensures r == (if a is Some { b } else { None::<U> });
pub assume_specification<T> [Option::<T>::or] (a: Option<T>, b: Option<T>) -> (r: Option<T>)
    ensures r == (if a is Some { a } else { b });
pub assume_specification<T> [Option::<T>::xor] (a: Option<T>, b: Option<T>) -> (r: Option<T>)
    ensures r == (if a is Some && b is None { a } else if a is None && b is Some { b } else { None::<T> });
pub assume_specification<T, U> [Option::<T>::zip] (a: Option<T>, b: Option<U>) -> (r: Option<(T, U)>)
    ensures r == (if a is Some && b is Some { Some((a->Some_0, b->Some_0)) } else { None::<(T, U)> });
pub assume_specification<T> [Option::<T>::replace] (a: &mut Option<T>, v: T) -> (r: Option<T>)
    ensures r == *old(a), *final(a) == Some(v);
pub assume_specification<T, F: FnOnce(T) -> bool> [Option::<T>::is_some_and] (a: Option<T>, f: F) -> (r: bool)
    requires a is Some ==> f.requires((a->Some_0,)),
    ensures a is None ==> !r, a is Some ==> f.ensures((a->Some_0,), r);
pub assume_specification<T, U, F: FnOnce(T) -> U> [Option::<T>::map_or] (a: Option<T>, default: U, f: F) -> (r: U)
    requires a is Some ==> f.requires((a->Some_0,)),
    ensures a is None ==> r == default, a is Some ==> f.ensures((a->Some_0,), r);
pub assume_specification<T, P: FnOnce(&T) -> bool> [Option::<T>::filter] (a: Option<T>, p: P) -> (r: Option<T>)
    requires a is Some ==> p.requires((&a->Some_0,)),
    ensures a is None ==> r is None, r is Some ==> r == a,
            a is Some ==> (p.ensures((&a->Some_0,), true) ==> r == a) && (p.ensures((&a->Some_0,), false) ==> r is None),
        // the predicate returned SOME boolean for the element, and the result follows it
        a is Some ==> exists|__b: bool| p.ensures((&a->Some_0,), __b) && r == (if __b { a } else { None::<T> });
pub assume_specification<T, E, U, F: FnOnce(T) -> Result<U, E>> [Result::<T, E>::and_then] (a: Result<T, E>, f: F) -> (r: Result<U, E>)
    requires a is Ok ==> f.requires((a->Ok_0,)),
    ensures a is Err ==> r == Err::<U, E>(a->Err_0), a is Ok ==> f.ensures((a->Ok_0,), r);
pub assume_specification<T, E, U> [Result::<T, E>::and] (a: Result<T, E>, b: Result<U, E>) -> (r: Result<U, E>)
    ensures r == (if a is Ok { b } else { Err::<U, E>(a->Err_0) });
pub assume_specification<T, E, F> [Result::<T, E>::or] (a: Result<T, E>, b: Result<T, F>) -> (r: Result<T, F>)
    ensures r == (if a is Ok { Ok::<T, F>(a->Ok_0) } else { b });
pub assume_specification<T, E, F: FnOnce(T) -> bool> [Result::<T, E>::is_ok_and] (a: Result<T, E>, f: F) -> (r: bool)
    requires a is Ok ==> f.requires((a->Ok_0,)),
    ensures a is Err ==> !r, a is Ok ==> f.ensures((a->Ok_0,), r);
pub assume_specification<T, E> [Result::<T, E>::unwrap_or] (a: Result<T, E>, default: T) -> (r: T)
    ensures r == (if a is Ok { a->Ok_0 } else { default });
pub assume_specification<T, E, F: FnOnce(E) -> T> [Result::<T, E>::unwrap_or_else] (a: Result<T, E>, f: F) -> (r: T)
    requires a is Err ==> f.requires((a->Err_0,)),
    ensures a is Ok ==> r == a->Ok_0, a is Err ==> f.ensures((a->Err_0,), r);
