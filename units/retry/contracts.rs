//@ fn RunFailed::fatal
//@ spec
    ensures res.fatal,
//@ fn RunFailed::retry
//@ spec
    ensures !res.fatal,
//@ fn RunFailed::is_fatal
//@ spec
    ensures res == self.fatal,
//@ fn RunFailed::should_retry
//@ spec
    ensures res == !self.fatal,
//@ fn Vrps::run#retry_block
//@ spec
    ensures
        // C32: the command goes on (to produce output, exit status 0) only if some validation
        // run succeeded; when every run fails the enclosing function returns an error status
        res is Ok ==> any_run_ok(),
//@ beforeloop 1
            let ghost mut runs: nat = 0;
//@ loop 1
                invariant_except_break
                    // C32: at most one retry: a second run happens only after the first failed
                    // (`once`), and no run follows a failed second run
                    runs == (if once { 1nat } else { 0nat }),
                ensures
                    // the loop is left (other than by returning the error) only after a successful run,
                    // which was the first or the second one
                    any_run_ok(), runs <= 2,
                // C32: the loop terminates: it is entered at most twice
                decreases (if once { 0int } else { 1int }),
//@ loopentry 1
                    proof { runs = runs + 1; }
//@ fn Validate::get_snapshot
//@ spec
    ensures
        // C32: one run, no retry (loop-free): success only if that run succeeded
        res is Ok ==> any_run_ok(),
//@ fn Update::run
//@ spec
    ensures
        // C32: one run, no retry (loop-free): success only if that run succeeded
        res is Ok ==> any_run_ok(),
//@ fn Server::run#validation_thread
//@ beforeloop 1
            let ghost f0 = notify.failed_runs();
            let ghost r0 = notify.failed_regular_runs();
//@ loop 1
                invariant_except_break
                    // C32: over the whole life of the server at most one failed regular run is
                    // followed by another run (the retry); the next failed regular run ends the loop
                    notify.failed_regular_runs() - r0 + (if can_retry { 1int } else { 0int }) <= 1,
                    // C32: and at most two failed runs in total are followed by another run
                    // (a failed initial run is always repeated once as a regular run)
                    notify.failed_runs() - f0 + (if initial { 1int } else { 0int }) + (if can_retry { 1int } else { 0int }) <= 2,
//@ loop 2
                    invariant
                        // (the wait loop does not run anything: the facts above are carried through it)
                        notify.failed_regular_runs() - r0 + (if can_retry { 1int } else { 0int }) <= 1,
                        notify.failed_runs() - f0 + (if initial { 1int } else { 0int }) + (if can_retry { 1int } else { 0int }) <= 2,
