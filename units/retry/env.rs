// Environment of unit `retry` (C32). Everything here is ASSUMED.

#[verifier::external_body] pub struct Fatal { _opaque: () }
#[verifier::external_body] pub struct Config { _opaque: () }
#[verifier::external_body] pub struct Process { _opaque: () }
#[verifier::external_body] pub struct Engine { _opaque: () }
#[verifier::external_body] pub struct ValidationReport { _opaque: () }
#[verifier::external_body] pub struct Metrics { _opaque: () }
#[verifier::external_body] pub struct LocalExceptions { _opaque: () }
#[verifier::external_body] pub struct PayloadSnapshot { _opaque: () }
#[verifier::external_body] pub struct LogOutput { _opaque: () }
#[verifier::external_body] pub struct PathBuf { _opaque: () }
#[verifier::external_body] pub struct Prefix { _opaque: () }
#[verifier::external_body] pub struct Asn { _opaque: () }
#[verifier::external_body] pub struct Duration { _opaque: () }
#[verifier::external_body] pub struct Instant { _opaque: () }
#[verifier::external_body] pub struct PayloadHistory { _opaque: () }
#[verifier::external_body] pub struct SharedHistory { _opaque: () }
#[verifier::external_body] pub struct Serial { _opaque: () }
#[verifier::external_body] pub struct NotifySender { _opaque: () }
#[verifier::external_body] #[verifier::reject_recursive_types(T)] pub struct Receiver<T> { _t: T }   // std::sync::mpsc::Receiver
#[verifier::external_body] #[verifier::reject_recursive_types(T)] pub struct Sender<T> { _t: T }     // tokio::sync::oneshot::Sender
pub enum RecvTimeoutError { Timeout, Disconnected }                                                // std::sync::mpsc
// `Vrps` only hosts the lifted block (`impl Vrps { fn .. }`); no field is used
#[verifier::external_body] pub struct Vrps { _opaque: () }

// ---- ghost: `any_run_ok()` is a monotone fact produced only by a validation
// run that returned Ok (one-shot commands).
pub uninterp spec fn any_run_ok() -> bool;

impl ValidationReport {
    #[verifier::external_body]
    pub fn process(engine: &Engine, config: &Config, initial: bool) -> (r: Result<(ValidationReport, Metrics), RunFailed>)
        ensures r is Ok ==> any_run_ok(),
    { unimplemented!() }

    #[verifier::external_body]
    pub fn into_snapshot(self, exceptions: &LocalExceptions, metrics: &mut Metrics) -> PayloadSnapshot { unimplemented!() }
}
impl Engine {
    #[verifier::external_body] pub fn new(config: &Config, update: bool) -> Result<Engine, Failed> { unimplemented!() }
    #[verifier::external_body] pub fn disable_collector(&mut self) { unimplemented!() }
    #[verifier::external_body] pub fn ignite(&mut self) -> Result<(), Failed> { unimplemented!() }
    #[verifier::external_body] pub fn sanitize(&self) -> (r: Result<(), Fatal>) { unimplemented!() }
    #[verifier::external_body] pub fn reload_tals(&mut self) -> Result<(), Failed> { unimplemented!() }
}
impl Process {
    #[verifier::external_body] pub fn config(&self) -> &Config { unimplemented!() }
    #[verifier::external_body] pub fn switch_logging(&self, daemon: bool, with_output: bool) -> Result<Option<LogOutput>, Failed> { unimplemented!() }
    #[verifier::external_body] pub fn rotate_log(&self) -> Result<(), Failed> { unimplemented!() }
}
impl LocalExceptions {
    #[verifier::external_body] pub fn load(config: &Config, keep_comments: bool) -> Result<LocalExceptions, Failed> { unimplemented!() }
}
impl Metrics {
    #[verifier::external_body] pub fn rsync_complete(&self) -> bool { unimplemented!() }
}
impl NotifySender {
    // (ghost run log is carried by the sender, see below) wakes the subscribed clients; no run is performed
    #[verifier::external_body]
    pub fn notify(&mut self)
        ensures final(self).failed_runs() == old(self).failed_runs(),
                final(self).failed_regular_runs() == old(self).failed_regular_runs(),
    { unimplemented!() }
}
impl LogOutput {
    #[verifier::external_body] pub fn start(&self) { unimplemented!() }
    #[verifier::external_body] pub fn flush(&self) { unimplemented!() }
}

// ---- server loop
impl NotifySender {
    // ghost run log, carried by the sender because every Server::process_once call gets it `&mut`:
    // number of failed runs so far, and of failed regular (non-initial) runs
    pub uninterp spec fn failed_runs(&self) -> nat;
    pub uninterp spec fn failed_regular_runs(&self) -> nat;
}
impl Server {
    // the real body is verified in unit process_once (Err exactly when the run failed)
    #[verifier::external_body]
    pub fn process_once(config: &Config, engine: &Engine, history: &SharedHistory, notify: &mut NotifySender,
                        exceptions: &LocalExceptions, initial: bool) -> (r: Result<(), RunFailed>)
        ensures
            final(notify).failed_runs() == old(notify).failed_runs() + (if r is Err { 1nat } else { 0nat }),
            final(notify).failed_regular_runs() == old(notify).failed_regular_runs()
                + (if r is Err && !initial { 1nat } else { 0nat }),
    { unimplemented!() }
}
impl SharedHistory {
    #[verifier::external_body] pub fn read(&self) -> (g: &PayloadHistory) { unimplemented!() }
    #[verifier::external_body] pub fn mark_update_start(&self) { unimplemented!() }
    #[verifier::external_body] pub fn mark_update_done(&self) { unimplemented!() }
}
// PayloadHistory accessors used through the read guard (guard modelled as a plain reference; contracts:
// none needed here -- what they return is proved in units history / history_locks / schedule)
impl PayloadHistory {
    #[verifier::external_body] pub fn is_active(&self) -> bool { unimplemented!() }
    #[verifier::external_body] pub fn current(&self) -> Option<Arc<PayloadSnapshot>> { unimplemented!() }
    #[verifier::external_body] pub fn refresh_wait(&self) -> Duration { unimplemented!() }
    #[verifier::external_body] pub fn update_wait(&self) -> Duration { unimplemented!() }
    #[verifier::external_body] pub fn serial(&self) -> Serial { unimplemented!() }
    #[verifier::external_body] pub fn session(&self) -> u64 { unimplemented!() }
    #[verifier::external_body] pub fn session_and_serial(&self) -> (u64, Serial) { unimplemented!() }
    #[verifier::external_body] pub fn rtr_session(&self) -> u16 { unimplemented!() }
    #[verifier::external_body] pub fn metrics(&self) -> Option<Arc<Metrics>> { unimplemented!() }
    #[verifier::external_body] pub fn last_update_duration(&self) -> Option<Duration> { unimplemented!() }
}
impl Duration {
    #[verifier::external_body] pub fn from_secs(s: u64) -> Duration { unimplemented!() }
    #[verifier::external_body] pub fn from_millis(s: u64) -> Duration { unimplemented!() }
    #[verifier::external_body] pub fn as_secs(&self) -> u64 { unimplemented!() }
}
impl Clone for Duration { #[verifier::external_body] fn clone(&self) -> Duration { unimplemented!() } }
impl Copy for Duration {}
impl Instant {
    #[verifier::external_body] pub fn now() -> Instant { unimplemented!() }
    #[verifier::external_body] pub fn saturating_duration_since(&self, earlier: Instant) -> Duration { unimplemented!() }
}
impl vstd::std_specs::ops::AddSpecImpl<Duration> for Instant {
    open spec fn obeys_add_spec() -> bool { false }
    open spec fn add_req(self, rhs: Duration) -> bool { true }
    uninterp spec fn add_spec(self, rhs: Duration) -> Instant;
}
impl core::ops::Add<Duration> for Instant {
    type Output = Instant;
    #[verifier::external_body] fn add(self, rhs: Duration) -> Instant { unimplemented!() }
}
impl<T> Receiver<T> {
    #[verifier::external_body] pub fn recv_timeout(&self, timeout: Duration) -> Result<T, RecvTimeoutError> { unimplemented!() }
}
impl<T> Sender<T> {
    // ghost: the value the thread reported to the main task
    pub uninterp spec fn sent_value(v: T) -> bool;
    #[verifier::external_body] pub fn send(self, t: T) -> (r: Result<(), T>) ensures Self::sent_value(t) { unimplemented!() }
}

// error conversions used by `?` (the converted value is not needed)
impl vstd::std_specs::convert::FromSpecImpl<Failed> for ExitError {
    open spec fn obeys_from_spec() -> bool { false }
    uninterp spec fn from_spec(v: Failed) -> ExitError;
}
impl From<Failed> for ExitError { #[verifier::external_body] fn from(v: Failed) -> ExitError { unimplemented!() } }
impl vstd::std_specs::convert::FromSpecImpl<RunFailed> for ExitError {
    open spec fn obeys_from_spec() -> bool { false }
    uninterp spec fn from_spec(v: RunFailed) -> ExitError;
}
impl From<RunFailed> for ExitError { #[verifier::external_body] fn from(v: RunFailed) -> ExitError { unimplemented!() } }
